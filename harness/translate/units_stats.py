"""T1 units for the statistics loader / ValueSummary (C18, C20) and the aggregator's table layout (C18).

StatParse  (panoptica_statistics.py): the header split call, the slices of the header / row loops, the
            missing-value condition as a boolean function of a 5-way value class, the first-appearance
            metric list, ValueSummary's four statistics and their getters, get_summary's None filter.
TsvLayout  (panoptica_aggregator.py, panoptica_result.py, metrics/metrics.py): the universe of metric
            keys, the header comprehension, the row loops' nesting and default, the key-list copy.
Everything outside the handled shapes is refused (fail closed)."""
import ast

from harness.translate.main import unit, parse
from harness.translate.pyx import Refuse, find_func, strip_doc, dotted


def cps(s):
    return "[" + "; ".join(str(ord(c)) for c in s) + "]"


def walk_find(node, pred):
    return [n for n in ast.walk(node) if pred(n)]


def is_slice_from(e, name, k):
    """e is `name[k:]`"""
    return (isinstance(e, ast.Subscript) and isinstance(e.value, ast.Name) and e.value.id == name
            and isinstance(e.slice, ast.Slice) and e.slice.upper is None and e.slice.step is None
            and isinstance(e.slice.lower, ast.Constant) and e.slice.lower.value == k)


def slice_start(e, name):
    if (isinstance(e, ast.Subscript) and isinstance(e.value, ast.Name) and e.value.id == name
            and isinstance(e.slice, ast.Slice) and e.slice.upper is None and e.slice.step is None
            and isinstance(e.slice.lower, ast.Constant) and isinstance(e.slice.lower.value, int) and e.slice.lower.value >= 0):
        return e.slice.lower.value
    if isinstance(e, ast.Name) and e.id == name:
        return 0
    raise Refuse(f"expected {name}[k:], got {ast.unparse(e)}")


# ------------------------------------------------------------------ abstract interpretation of the cell branch
TOP = "top"


class _Cell:
    """values: 'none' | ('str', 'EMPTY' | class) | ('float', class) | ('bool', b) | ('int', n | 'pos') | 'inf' | '-inf' | TOP"""

    def __init__(self, var, kind):
        self.env = {var: ("str", kind)}
        self.var = var
        self.appended = []

    def ev(self, e):
        if isinstance(e, ast.Constant):
            if e.value is None:
                return "none"
            if isinstance(e.value, bool):
                return ("bool", e.value)
            if isinstance(e.value, int):
                return ("int", e.value)
            if isinstance(e.value, str):
                return ("str", "EMPTY") if e.value == "" else TOP
            return TOP
        if isinstance(e, ast.Name):
            return self.env.get(e.id, TOP)
        src = ast.unparse(e).replace(" ", "")
        if src in ("np.inf", "math.inf", "numpy.inf", "float('inf')", 'float("inf")'):
            return "inf"
        if src in ("-np.inf", "-math.inf", "-numpy.inf", "float('-inf')", 'float("-inf")'):
            return "-inf"
        if src in ("np.nan", "math.nan", "numpy.nan", "float('nan')"):
            return ("float", "CNan")
        if isinstance(e, ast.Call):
            f = ast.unparse(e.func)
            args = [self.ev(a) for a in e.args]
            if f == "float" and len(args) == 1 and not e.keywords:
                v = args[0]
                if isinstance(v, tuple) and v[0] == "str" and v[1] != "EMPTY":
                    return ("float", v[1])
                if isinstance(v, tuple) and v[0] == "float":
                    return v
                if v == ("str", "EMPTY"):
                    raise Refuse("float('') would raise")
                return TOP
            if f == "len" and len(args) == 1:
                v = args[0]
                if isinstance(v, tuple) and v[0] == "str":
                    return ("int", 0) if v[1] == "EMPTY" else ("int", "pos")
                return TOP
            if f in ("np.isnan", "math.isnan", "numpy.isnan") and len(args) == 1 and isinstance(args[0], tuple) and args[0][0] == "float":
                return ("bool", args[0][1] == "CNan")
            if f in ("np.isinf", "math.isinf", "numpy.isinf") and len(args) == 1 and isinstance(args[0], tuple) and args[0][0] == "float":
                return ("bool", args[0][1] in ("CPInf", "CNInf"))
            if f in ("np.isfinite", "math.isfinite", "numpy.isfinite") and len(args) == 1 and isinstance(args[0], tuple) and args[0][0] == "float":
                return ("bool", args[0][1] == "CFin")
            if f.endswith(".strip") and isinstance(e.func, ast.Attribute) and not e.args:
                v = self.ev(e.func.value)
                return v if isinstance(v, tuple) and v[0] == "str" else TOP
            return TOP
        if isinstance(e, ast.UnaryOp) and isinstance(e.op, ast.Not):
            t = self.truth(e.operand)
            return TOP if t is None else ("bool", not t)
        if isinstance(e, ast.BoolOp):
            isand = isinstance(e.op, ast.And)
            unknown = False
            for v in e.values:
                t = self.truth(v)
                if t is None:
                    unknown = True
                elif t != isand:            # False under `and`, True under `or`: decided (operands before it were evaluated without effect)
                    return ("bool", t) if not unknown else TOP
            return TOP if unknown else ("bool", isand)
        if isinstance(e, ast.IfExp):
            t = self.truth(e.test)
            if t is None:
                return TOP
            return self.ev(e.body if t else e.orelse)
        if isinstance(e, ast.Compare) and len(e.ops) == 1:
            return self.cmp(e.ops[0], self.ev(e.left), self.ev(e.comparators[0]))
        return TOP

    ORDER = {"CNInf": -2, "CFin": 0, "CPInf": 2}

    def cmp(self, op, l, r):
        if isinstance(op, (ast.Is, ast.IsNot)) and (l == "none" or r == "none"):
            other = r if l == "none" else l
            if other == TOP:
                return TOP
            same = other == "none"
            return ("bool", same if isinstance(op, ast.Is) else not same)
        if isinstance(op, (ast.Eq, ast.NotEq)) and isinstance(l, tuple) and isinstance(r, tuple) and l[0] == r[0] == "str":
            if l[1] == "EMPTY" or r[1] == "EMPTY":
                same = l[1] == r[1]
                return ("bool", same if isinstance(op, ast.Eq) else not same)
            return TOP
        if isinstance(l, tuple) and l[0] == "int" and isinstance(r, tuple) and r[0] == "int" and isinstance(r[1], int):
            n, k = l[1], r[1]
            if n == "pos":            # some integer >= 1
                table = {ast.Gt: True if k <= 0 else None, ast.GtE: True if k <= 1 else None, ast.NotEq: True if k <= 0 else None,
                         ast.Eq: False if k <= 0 else None, ast.Lt: False if k <= 1 else None, ast.LtE: False if k <= 0 else None}
                t = table.get(type(op))
                return TOP if t is None else ("bool", t)
            t = {ast.Gt: n > k, ast.GtE: n >= k, ast.NotEq: n != k, ast.Eq: n == k, ast.Lt: n < k, ast.LtE: n <= k}.get(type(op))
            return TOP if t is None else ("bool", t)
        # a float of a known class against an infinity
        def pos(v):
            if v == "inf":
                return 2
            if v == "-inf":
                return -2
            if isinstance(v, tuple) and v[0] == "float" and v[1] in self.ORDER:
                return self.ORDER[v[1]]
            return None
        nan = (isinstance(l, tuple) and l == ("float", "CNan")) or (isinstance(r, tuple) and r == ("float", "CNan"))
        if nan and (l in ("inf", "-inf") or r in ("inf", "-inf")):
            return ("bool", isinstance(op, ast.NotEq))
        a, b = pos(l), pos(r)
        if a is not None and b is not None and (l in ("inf", "-inf") or r in ("inf", "-inf")):
            t = {ast.Gt: a > b, ast.GtE: a >= b, ast.NotEq: a != b, ast.Eq: a == b, ast.Lt: a < b, ast.LtE: a <= b}.get(type(op))
            return TOP if t is None else ("bool", t)
        return TOP

    def truth(self, e):
        v = self.ev(e)
        if v == "none":
            return False
        if isinstance(v, tuple):
            if v[0] == "bool":
                return v[1]
            if v[0] == "str":
                return v[1] != "EMPTY"
            if v[0] == "int":
                return v[1] != 0
        return None

    def mentions(self, node):
        tracked = {k for k, v in self.env.items() if v != TOP}
        return any(isinstance(n, ast.Name) and n.id in tracked for n in ast.walk(node)) or ".append(" in ast.unparse(node)

    def run(self, stmts):
        for s in stmts:
            if isinstance(s, ast.Assign) and len(s.targets) == 1 and isinstance(s.targets[0], ast.Name):
                self.env[s.targets[0].id] = self.ev(s.value)
            elif isinstance(s, ast.AnnAssign) and isinstance(s.target, ast.Name) and s.value is not None:
                self.env[s.target.id] = self.ev(s.value)
            elif isinstance(s, ast.If):
                t = self.truth(s.test)
                if t is None:
                    if self.mentions(s):
                        raise Refuse("cell branch: undecided test " + ast.unparse(s.test)[:80])
                    continue
                self.run(s.body if t else s.orelse)
            elif isinstance(s, ast.Expr) and isinstance(s.value, ast.Call) and isinstance(s.value.func, ast.Attribute) and s.value.func.attr == "append":
                tgt = ast.unparse(s.value.func.value)
                if tgt.startswith("value_dict[") and len(s.value.args) == 1:
                    self.appended.append(self.ev(s.value.args[0]))
                elif self.mentions(s):
                    raise Refuse("cell branch: append to " + tgt)
            elif isinstance(s, (ast.Pass, ast.Continue)):
                if isinstance(s, ast.Continue):
                    return
            elif self.mentions(s) and not (isinstance(s, ast.Assign) and not any(isinstance(n, ast.Name) and n.id == self.var for n in ast.walk(s.value))):
                raise Refuse("cell branch: statement " + ast.unparse(s)[:80])


def cell_outcome(stmts, var, kind):
    c = _Cell(var, kind)
    c.run(stmts)
    if len(c.appended) != 1:
        raise Refuse(f"a cell ({kind}) is stored {len(c.appended)} times")
    return c.appended[0]


# ------------------------------------------------------------------ value condition -> vclass -> bool
def cond_expr(e, var):
    """boolean expression over `var` -> Coq term over (c : vclass)"""
    def cls(pats):
        return "(match c with " + " | ".join(pats) + " => true | _ => false end)"
    if isinstance(e, ast.BoolOp):
        op = " && " if isinstance(e.op, ast.And) else " || "
        return "(" + op.join(cond_expr(v, var) for v in e.values) + ")"
    if isinstance(e, ast.UnaryOp) and isinstance(e.op, ast.Not):
        return f"(negb {cond_expr(e.operand, var)})"
    if isinstance(e, ast.Compare) and len(e.ops) == 1 and isinstance(e.left, ast.Name) and e.left.id == var:
        op, r = e.ops[0], e.comparators[0]
        if isinstance(op, (ast.Is, ast.IsNot)) and isinstance(r, ast.Constant) and r.value is None:
            t = cls(["CNone"])
            return t if isinstance(op, ast.Is) else f"(negb {t})"
        if isinstance(op, (ast.Eq, ast.NotEq)):
            which = None
            src = ast.unparse(r).replace(" ", "")
            if src in ("np.inf", "math.inf", "float('inf')", 'float("inf")', "numpy.inf"):
                which = "CPInf"
            elif src in ("-np.inf", "-math.inf", "float('-inf')", 'float("-inf")', "-numpy.inf"):
                which = "CNInf"
            if which is None:
                raise Refuse("comparison with " + src)
            t = cls([which])     # nan != inf, None != inf in python as well
            return t if isinstance(op, ast.Eq) else f"(negb {t})"
        raise Refuse("comparison " + ast.unparse(e))
    if isinstance(e, ast.Call) and len(e.args) == 1 and not e.keywords and isinstance(e.args[0], ast.Name) and e.args[0].id == var:
        f = dotted(e.func)
        if f in ("np.isnan", "math.isnan", "numpy.isnan"):
            return cls(["CNan"])
        if f in ("np.isinf", "math.isinf", "numpy.isinf"):
            return cls(["CPInf", "CNInf"])
        if f in ("np.isfinite", "math.isfinite", "numpy.isfinite"):
            return cls(["CFin"])
        if f in ("np.isposinf",):
            return cls(["CPInf"])
        if f in ("np.isneginf",):
            return cls(["CNInf"])
        raise Refuse("call " + f)
    if isinstance(e, ast.Constant) and isinstance(e.value, bool):
        return "true" if e.value else "false"
    raise Refuse("condition " + ast.unparse(e))


def is_append(stmt, what_pred):
    """stmt is `<anything>.append(x)` with what_pred(x)"""
    return (isinstance(stmt, ast.Expr) and isinstance(stmt.value, ast.Call) and isinstance(stmt.value.func, ast.Attribute)
            and stmt.value.func.attr == "append" and len(stmt.value.args) == 1 and what_pred(stmt.value.args[0]))


def is_none(e):
    return isinstance(e, ast.Constant) and e.value is None


def is_value(var):
    def p(e):
        if isinstance(e, ast.Name) and e.id == var:
            return True
        return (isinstance(e, ast.Call) and dotted(e.func) == "float" and len(e.args) == 1
                and isinstance(e.args[0], ast.Name) and e.args[0].id == var)
    return p


@unit("StatParse", "panoptica/panoptica_statistics.py")
def stat_parse():
    tree = parse("panoptica/panoptica_statistics.py")
    ff = find_func(tree, "from_file", "Panoptica_Statistic")
    out = ["From Pan Require Import Base.Common Base.Sx Model.Stats Model.Tsv."]

    # ---- (a) header: header = rows[0]; assert header[0] == "subject_name"; split of header[1:]
    assigns = {s.targets[0].id: s for s in ast.walk(ff) if isinstance(s, ast.Assign) and len(s.targets) == 1 and isinstance(s.targets[0], ast.Name)}
    h = assigns.get("header")
    if h is None or ast.unparse(h.value) != "rows[0]":
        raise Refuse("header is not rows[0]")
    asserts = [s for s in ast.walk(ff) if isinstance(s, ast.Assert)]
    first = [a for a in asserts if ast.unparse(a.test).startswith("header[0] ==")]
    if len(first) != 1 or not isinstance(first[0].test.comparators[0], ast.Constant) or not isinstance(first[0].test.comparators[0].value, str):
        raise Refuse("header[0] assertion")
    out.append(f"Definition gen_first_cell : name := {cps(first[0].test.comparators[0].value)}.")
    kio = assigns.get("keys_in_order")
    if kio is None:
        raise Refuse("keys_in_order not assigned")
    comps = walk_find(kio.value, lambda n: isinstance(n, ast.ListComp))
    if len(comps) != 1 or len(comps[0].generators) != 1 or comps[0].generators[0].ifs:
        raise Refuse("keys_in_order comprehension shape")
    gen = comps[0].generators[0]
    if not isinstance(gen.target, ast.Name):
        raise Refuse("comprehension target")
    cvar = gen.target.id
    out.append(f"Definition gen_header_skip : nat := {slice_start(gen.iter, 'header')}.")
    elt = comps[0].elt
    if not (isinstance(elt, ast.Call) and dotted(elt.func) == "tuple" and len(elt.args) == 1):
        raise Refuse("element is not tuple(...)")
    call = elt.args[0]
    if not (isinstance(call, ast.Call) and isinstance(call.func, ast.Attribute) and isinstance(call.func.value, ast.Name)
            and call.func.value.id == cvar and not call.keywords):
        raise Refuse("split call shape: " + ast.unparse(call))
    meth = call.func.attr
    if meth not in ("split", "rsplit") or not (1 <= len(call.args) <= 2):
        raise Refuse("split method " + ast.unparse(call))
    sep = call.args[0]
    if not (isinstance(sep, ast.Constant) and isinstance(sep.value, str) and len(sep.value) == 1):
        raise Refuse("separator " + ast.unparse(sep))
    if len(call.args) == 1:
        kind = "SplitAll"
    else:
        mx = call.args[1]
        if not (isinstance(mx, ast.Constant) and isinstance(mx.value, int)):
            raise Refuse("maxsplit")
        if mx.value == 1:
            kind = "RSplit1" if meth == "rsplit" else "Split1"
        elif mx.value < 0:
            kind = "SplitAll"
        else:
            raise Refuse("maxsplit " + str(mx.value))
    out.append(f"Definition gen_header_split : split_kind * Z := ({kind}, {ord(sep.value)}).")

    # ---- metric list: first appearance of k[1]
    loops = [s for s in ff.body if isinstance(s, ast.For)]
    ml = [l for l in loops if ast.unparse(l.iter) == "keys_in_order"]
    ok = False
    if len(ml) == 1 and isinstance(ml[0].target, ast.Name) and len(ml[0].body) == 1 and isinstance(ml[0].body[0], ast.If):
        k = ml[0].target.id
        iff = ml[0].body[0]
        if (ast.unparse(iff.test) == f"{k}[1] not in metric_names" and not iff.orelse and len(iff.body) == 1
                and ast.unparse(iff.body[0]) == f"metric_names.append({k}[1])"
                and "metric_names" in assigns and ast.unparse(assigns["metric_names"].value) == "[]"):
            ok = True
    if not ok:
        raise Refuse("metric_names is not the first-appearance loop over keys_in_order")
    out.append("Definition gen_metric_order_first_appearance : bool := true.")

    # ---- rows loop
    rl = [l for l in loops if isinstance(l.iter, ast.Subscript) or (isinstance(l.iter, ast.Name) and l.iter.id == "rows")]
    if len(rl) != 1 or not isinstance(rl[0].target, ast.Name):
        raise Refuse("rows loop")
    rvar = rl[0].target.id
    out.append(f"Definition gen_row_skip : nat := {slice_start(rl[0].iter, 'rows')}.")
    body = strip_doc(rl[0].body)
    if sum(1 for s in body if ast.unparse(s) == f"subj_names.append({rvar}[0])") != 1:
        # not the normalised spelling: a name bound to r[0] and appended
        sn = [s for s in body if isinstance(s, ast.Assign) and ast.unparse(s.value) == f"{rvar}[0]"]
        if len(sn) != 1 or not isinstance(sn[0].targets[0], ast.Name):
            raise Refuse("subject name is not r[0]")
        snv = sn[0].targets[0].id
        if not any(ast.unparse(s) == f"subj_names.append({snv})" for s in body):
            raise Refuse("subject name not appended")
    inner = [s for s in body if isinstance(s, ast.For)]
    if len(inner) != 1:
        raise Refuse("cell loop")
    il = inner[0]
    if not (isinstance(il.iter, ast.Call) and dotted(il.iter.func) == "enumerate" and len(il.iter.args) == 1 and not il.iter.keywords
            and isinstance(il.target, ast.Tuple) and len(il.target.elts) == 2 and all(isinstance(t, ast.Name) for t in il.target.elts)):
        raise Refuse("cell loop is not `for idx, value in enumerate(r[k:])`")
    idx, var = il.target.elts[0].id, il.target.elts[1].id
    out.append(f"Definition gen_cell_skip : nat := {slice_start(il.iter.args[0], rvar)}.")
    ib = strip_doc(il.body)
    if not any(isinstance(s, ast.Assign) and ast.unparse(s.value) == f"keys_in_order[{idx}]" for s in ib):
        raise Refuse("cell key is not keys_in_order[idx]")
    # what is stored for a cell, by abstract interpretation of the loop body over the five kinds of cells (empty; a number text whose
    # float is finite / nan / +inf / -inf): independent of how the branch is spelled
    res = {k: cell_outcome(ib, var, k) for k in ("EMPTY", "CFin", "CNan", "CPInf", "CNInf")}
    if res["EMPTY"] != "none":
        raise Refuse("an empty cell is stored as " + str(res["EMPTY"]))
    out.append("Definition gen_empty_is_missing : bool := true.")
    keepb = {}
    for k in ("CFin", "CNan", "CPInf", "CNInf"):
        if res[k] not in ("none", ("float", k)):
            raise Refuse(f"a cell whose number is {k} is stored as {res[k]}")
        keepb[k] = "true" if res[k] != "none" else "false"
    out.append("Definition gen_keep (c : vclass) : bool := match c with " + " | ".join(f"{k} => {v}" for k, v in keepb.items()) + " | CNone => false end.")

    # ---- (c) ValueSummary
    init = find_func(tree, "__init__", "ValueSummary")
    args = [a.arg for a in init.args.args]
    if len(args) != 2:
        raise Refuse("ValueSummary.__init__ signature")
    lv = args[1]
    attr_fn = {}
    for s in strip_doc(init.body):
        if not (isinstance(s, ast.Assign) and len(s.targets) == 1 and isinstance(s.targets[0], ast.Attribute)
                and isinstance(s.targets[0].value, ast.Name) and s.targets[0].value.id == "self"):
            raise Refuse("ValueSummary.__init__ statement " + ast.unparse(s))
        attr = s.targets[0].attr
        v = s.value
        if isinstance(v, ast.Name) and v.id == lv:
            attr_fn[attr] = "VALUES"
            continue
        if isinstance(v, ast.Call) and dotted(v.func) == "float" and len(v.args) == 1 and not v.keywords:
            v = v.args[0]
        if not (isinstance(v, ast.Call) and v.args and isinstance(v.args[0], ast.Name) and v.args[0].id == lv and len(v.args) == 1):
            raise Refuse("ValueSummary statistic " + ast.unparse(s))
        f = dotted(v.func)
        kws = {k.arg: k.value for k in v.keywords}
        if f in ("np.average", "numpy.average") and not kws:
            fn = "NpAverage"
        elif f in ("np.mean", "numpy.mean") and not kws:
            fn = "NpMean"
        elif f in ("np.std", "numpy.std") and set(kws) <= {"ddof"}:
            dd = kws.get("ddof")
            if dd is not None and not (isinstance(dd, ast.Constant) and isinstance(dd.value, int)):
                raise Refuse("ddof")
            fn = f"(NpStd {dd.value if dd is not None else 0})"
        elif f == "min" and not kws:
            fn = "PyMin"
        elif f == "max" and not kws:
            fn = "PyMax"
        else:
            raise Refuse("statistic function " + ast.unparse(v))
        attr_fn[attr] = fn
    # getters: property name -> attribute returned
    cls = [n for n in tree.body if isinstance(n, ast.ClassDef) and n.name == "ValueSummary"][0]
    getters = {}
    for n in cls.body:
        if isinstance(n, ast.FunctionDef) and n.name != "__init__":
            b = strip_doc(n.body)
            if not (len(b) == 1 and isinstance(b[0], ast.Return) and isinstance(b[0].value, ast.Attribute)
                    and isinstance(b[0].value.value, ast.Name) and b[0].value.value.id == "self"):
                raise Refuse("ValueSummary getter " + n.name)
            getters[n.name] = b[0].value.attr
    table = []
    for field, prop in (("FAvg", "avg"), ("FStd", "std"), ("FMin", "min"), ("FMax", "max")):
        if prop not in getters or getters[prop] not in attr_fn or attr_fn[getters[prop]] == "VALUES":
            raise Refuse("ValueSummary property " + prop)
        table.append(f"({field}, {attr_fn[getters[prop]]})")
    if attr_fn.get(getters.get("values")) != "VALUES":
        raise Refuse("ValueSummary.values is not the list passed in")
    out.append("Definition gen_stat_table : list (stat_field * stat_fn) := [" + "; ".join(table) + "].")

    # ---- get_summary / get
    gs = find_func(tree, "get_summary", "Panoptica_Statistic")
    b = strip_doc(gs.body)
    getcall = None
    if len(b) == 2 and isinstance(b[0], ast.Assign) and isinstance(b[1], ast.Return) and ast.unparse(b[1].value) == f"ValueSummary({ast.unparse(b[0].targets[0])})":
        getcall = b[0].value
    elif len(b) == 1 and isinstance(b[0], ast.Return) and isinstance(b[0].value, ast.Call) and ast.unparse(b[0].value.func) == "ValueSummary" \
            and len(b[0].value.args) == 1 and not b[0].value.keywords:
        getcall = b[0].value.args[0]                                  # normalised spelling
    if not (isinstance(getcall, ast.Call) and dotted(getcall.func) == "self.get"):
        raise Refuse("get_summary shape")
    kws = {k.arg: k.value for k in getcall.keywords}
    pos = getcall.args
    if [ast.unparse(a) for a in pos[:2]] != ["group", "metric"]:
        raise Refuse("get_summary passes " + ast.unparse(getcall))
    rn = kws.get("remove_nones", pos[2] if len(pos) > 2 else None)
    g = find_func(tree, "get", "Panoptica_Statistic")
    default = g.args.defaults[-1] if g.args.defaults else None
    if [a.arg for a in g.args.args] != ["self", "group", "metric", "remove_nones"] or not isinstance(default, ast.Constant):
        raise Refuse("get signature")
    flag = rn.value if isinstance(rn, ast.Constant) else (default.value if rn is None else None)
    if not isinstance(flag, bool):
        raise Refuse("remove_nones argument")
    gb = strip_doc(g.body)
    last2 = gb[-2:]
    RAW, FILT = "return self.__value_dict[group][metric]", "return [i for i in self.__value_dict[group][metric] if i is not None]"
    ok = isinstance(last2[0], ast.If) and not last2[0].orelse and len(last2[0].body) == 1 and (
        (ast.unparse(last2[0].test) == "not remove_nones" and ast.unparse(last2[0].body[0]) == RAW and ast.unparse(last2[1]) == FILT)
        or (ast.unparse(last2[0].test) == "remove_nones" and ast.unparse(last2[0].body[0]) == FILT and ast.unparse(last2[1]) == RAW))
    if not ok:
        raise Refuse("get body")
    out.append(f"Definition gen_summary_removes_nones : bool := {str(flag).lower()}.")
    return "\n".join(out) + "\n"


# ------------------------------------------------------------------ TsvLayout
@unit("TsvLayout", "panoptica/panoptica_aggregator.py, panoptica/panoptica_result.py, panoptica/metrics/metrics.py")
def tsv_layout():
    out = ["From Pan Require Import Base.Common Base.Sx Model.Stats Model.Tsv."]
    # ---- key universe
    rt = parse("panoptica/panoptica_result.py")
    init = find_func(rt, "__init__", "PanopticaResult")
    keys = []
    fkeys = 0
    for c in walk_find(init, lambda n: isinstance(n, ast.Call) and dotted_or_none(n.func) == "self._add_metric"):
        a0 = c.args[0] if c.args else None
        if isinstance(a0, ast.Constant) and isinstance(a0.value, str):
            keys.append(a0.value)
        elif isinstance(a0, ast.JoinedStr) and ast.unparse(a0) == "f'global_bin_{m.name.lower()}'":
            fkeys += 1
        else:
            raise Refuse("_add_metric name " + (ast.unparse(a0) if a0 is not None else "?"))
    if fkeys != 1:
        raise Refuse("expected exactly one formatted global_bin key")
    mt = parse("panoptica/metrics/metrics.py")
    members = []
    for n in mt.body:
        if isinstance(n, ast.ClassDef) and n.name == "Metric":
            for s in n.body:
                if isinstance(s, ast.Assign) and isinstance(s.value, ast.Call) and getattr(s.value.func, "id", None) == "_Metric":
                    if not (isinstance(s.value.args[0], ast.Constant) and isinstance(s.value.args[0].value, str)):
                        raise Refuse("_Metric name")
                    members.append(s.value.args[0].value)     # Metric.name is value.name
    if not members:
        raise Refuse("no Metric members")
    keys += ["global_bin_" + m.lower() for m in members]
    out.append("Definition gen_result_keys : list name := [" + "; ".join(cps(k) for k in keys) + "].")

    at = parse("panoptica/panoptica_aggregator.py")
    ct = [s for s in at.body if isinstance(s, ast.Assign) and ast.unparse(s.targets[0]) == "COMPUTATION_TIME_KEY"]
    if len(ct) != 1 or not (isinstance(ct[0].value, ast.Constant) and isinstance(ct[0].value.value, str)):
        raise Refuse("COMPUTATION_TIME_KEY")
    out.append(f"Definition gen_ctime : name := {cps(ct[0].value.value)}.")

    ini = find_func(at, "__init__", "Panoptica_Aggregator")
    sa = {ast.unparse(s.targets[0]): s for s in ast.walk(ini) if isinstance(s, ast.Assign) and len(s.targets) == 1}
    em = sa.get("self.__evaluation_metrics")
    gn = sa.get("self.__class_group_names")
    if em is None or gn is None:
        raise Refuse("aggregator attributes")
    if ast.unparse(gn.value) != "panoptica_evaluator.segmentation_class_groups_names":
        raise Refuse("group names source")
    src = ast.unparse(em.value)
    copied = src in ("list(panoptica_evaluator.resulting_metric_keys)", "panoptica_evaluator.resulting_metric_keys.copy()",
                     "panoptica_evaluator.resulting_metric_keys[:]", "[*panoptica_evaluator.resulting_metric_keys]")
    if not copied and src != "panoptica_evaluator.resulting_metric_keys":
        raise Refuse("evaluation metrics source " + src)
    out.append(f"Definition gen_keys_copied : bool := {str(copied).lower()}.")
    lt = [s for s in ini.body if isinstance(s, ast.If) and ast.unparse(s.test) == "log_times"]
    if not (len(lt) == 1 and not lt[0].orelse and len(lt[0].body) == 1
            and ast.unparse(lt[0].body[0]) == "self.__evaluation_metrics.append(COMPUTATION_TIME_KEY)"):
        raise Refuse("log_times branch")
    out.append("Definition gen_agg_keys (ev_keys : list name) (log_times : bool) : list name := "
               "if log_times then ev_keys ++ [gen_ctime] else ev_keys.")

    # ---- header = ["subject_name"] + [f"{g}-{m}" for g in groups for m in metrics]
    hd = sa.get("header")
    if hd is None or not (isinstance(hd.value, ast.BinOp) and isinstance(hd.value.op, ast.Add)):
        raise Refuse("header expression")
    l, r = hd.value.left, hd.value.right
    if not (isinstance(l, ast.List) and len(l.elts) == 1 and isinstance(l.elts[0], ast.Constant) and isinstance(l.elts[0].value, str)):
        raise Refuse("header first cell")
    if not (isinstance(r, ast.ListComp) and len(r.generators) == 2 and not any(g.ifs for g in r.generators)
            and all(isinstance(g.target, ast.Name) for g in r.generators)):
        raise Refuse("header comprehension")
    srcs = {"self.__class_group_names": "G", "self.__evaluation_metrics": "K"}
    its = [srcs.get(ast.unparse(g.iter)) for g in r.generators]
    if sorted(x or "?" for x in its) != ["G", "K"]:
        raise Refuse("header comprehension iterables")
    v1, v2 = r.generators[0].target.id, r.generators[1].target.id
    role = {v1: "g" if its[0] == "G" else "m", v2: "g" if its[1] == "G" else "m"}
    if not isinstance(r.elt, ast.JoinedStr):
        raise Refuse("header cell is not an f-string")
    parts = []
    for p in r.elt.values:
        if isinstance(p, ast.Constant) and isinstance(p.value, str):
            parts.append(cps(p.value))
        elif isinstance(p, ast.FormattedValue) and isinstance(p.value, ast.Name) and p.value.id in role and p.conversion == -1 and p.format_spec is None:
            parts.append(role[p.value.id])
        else:
            raise Refuse("header cell part " + ast.unparse(p))
    celltxt = "(" + " ++ ".join(parts) + ")" if parts else "[]"
    o, i = its[0], its[1]
    ov, iv = role[v1], role[v2]
    out.append(f"Definition gen_header (G K : list name) : list name := {cps(l.elts[0].value)} :: "
               f"flat_map (fun {ov} : name => map (fun {iv} : name => {celltxt}) {i}) {o}.")

    # ---- rows: for groupname in groups: ... for e in metrics: mvalue = result_dict[e] if e in result_dict else ""
    sv = find_func(at, "_save_one_subject", "Panoptica_Aggregator")
    ol = walk_find(sv, lambda n: isinstance(n, ast.For))
    outer = [f for f in ol if ast.unparse(f.iter) == "self.__class_group_names"]
    innr = [f for f in ol if ast.unparse(f.iter) == "self.__evaluation_metrics"]
    if len(outer) != 1 or len(innr) != 1:
        raise Refuse("row loops")
    group_major = innr[0] in list(ast.walk(outer[0]))
    metric_major = outer[0] in list(ast.walk(innr[0]))
    if group_major == metric_major:
        raise Refuse("row loop nesting")
    out.append(f"Definition gen_row_group_major : bool := {str(group_major).lower()}.")
    gvar = outer[0].target.id
    ev = innr[0].target.id
    ib = strip_doc(innr[0].body)
    cell = None
    if len(ib) == 1 and isinstance(ib[0], ast.Expr) and isinstance(ib[0].value, ast.Call) and ast.unparse(ib[0].value.func) == "content.append" \
            and len(ib[0].value.args) == 1 and not ib[0].value.keywords:
        cell = ib[0].value.args[0]                                   # normalised spelling: the cell is written inside the append
    elif len(ib) == 2 and isinstance(ib[0], ast.Assign) and isinstance(ib[0].targets[0], ast.Name) \
            and ast.unparse(ib[1]) == f"content.append({ib[0].targets[0].id})":
        cell = ib[0].value
    if isinstance(cell, ast.Call) and ast.unparse(cell.func) == "result_dict.get" and len(cell.args) == 2 and not cell.keywords \
            and ast.unparse(cell.args[0]) == ev:
        dflt = cell.args[1]                                              # normalised spelling of `d[k] if k in d else v`
    elif isinstance(cell, ast.IfExp) and ast.unparse(cell.test) == f"{ev} in result_dict" and ast.unparse(cell.body) == f"result_dict[{ev}]":
        dflt = cell.orelse
    else:
        raise Refuse("row cell statement")
    if not (isinstance(dflt, ast.Constant) and isinstance(dflt.value, str)):
        raise Refuse("row default is not a string constant: " + ast.unparse(dflt))
    out.append(f"Definition gen_missing_cell : name := {cps(dflt.value)}.")
    pre = [ast.unparse(s) for s in strip_doc(outer[0].body) if not isinstance(s, ast.For)]
    need = [f"result: PanopticaResult = result_grouped[{gvar}][0]", "result_dict = result.to_dict()"]
    if [p for p in pre if p in need] != need:
        raise Refuse("row result lookup " + str(pre))
    cti = [s for s in outer[0].body if isinstance(s, ast.If)]
    if not (len(cti) == 1 and ast.unparse(cti[0].test) == "result.computation_time is not None"
            and ast.unparse(cti[0].body[0]) == "result_dict[COMPUTATION_TIME_KEY] = result.computation_time"):
        raise Refuse("computation_time entry")
    first = [s for s in ast.walk(sv) if isinstance(s, ast.Assign) and ast.unparse(s.targets[0]) == "content"]
    if len(first) != 1 or ast.unparse(first[0].value) != "[subject_name]":
        raise Refuse("row first cell")
    return "\n".join(out) + "\n"


def dotted_or_none(e):
    try:
        return dotted(e)
    except Refuse:
        return None
