"""T1 unit for the evaluator state machine (C15): timing flags, key cache, aggregator's use of the key list."""
import ast

from harness.translate.main import unit, parse
from harness.translate.pyx import Refuse, Tr, find_func, strip_doc, dotted


@unit("EvalSM", "panoptica/panoptica_evaluator.py, panoptica/panoptica_aggregator.py")
def evalsm():
    ev = parse("panoptica/panoptica_evaluator.py")
    out = ["From Pan Require Import Base.Common."]
    e = find_func(ev, "evaluate", "Panoptica_Evaluator")
    call = None
    for n in ast.walk(e):
        if isinstance(n, ast.Call) and dotted(n.func) == "self._evaluate_group":
            call = n
    if call is None:
        raise Refuse("evaluate does not call _evaluate_group")
    kws = {k.arg: k.value for k in call.keywords}
    tr = Tr({"self.__save_group_times": ("ctor", "bool"), "save_group_times": ("call", ("opt", "bool"))})
    v = kws.get("save_group_times")
    if isinstance(v, ast.Name) and v.id == "save_group_times":
        # the per-call option is completed from the constructor's BEFORE the loop:  if save_group_times is None: save_group_times = <ctor>
        pre = [s for s in ast.walk(e) if isinstance(s, ast.If) and ast.unparse(s.test) == "save_group_times is None" and not s.orelse
               and len(s.body) == 1 and isinstance(s.body[0], ast.Assign) and ast.unparse(s.body[0].targets[0]) == "save_group_times"]
        stores = [n for n in ast.walk(e) if isinstance(n, ast.Name) and n.id == "save_group_times" and isinstance(n.ctx, ast.Store)]
        if len(pre) != 1 or len(stores) != 1 or pre[0].lineno > call.lineno:
            raise Refuse("effective save_group_times expression")
        v = ast.IfExp(test=pre[0].test, body=pre[0].body[0].value, orelse=ast.Name(id="save_group_times", ctx=ast.Load()))
    if v is None or not isinstance(v, ast.IfExp):
        raise Refuse("effective save_group_times expression")
    cond = ast.unparse(v.test)
    if cond == "save_group_times is None":
        a, b = ast.unparse(v.body), ast.unparse(v.orelse)
    elif cond == "save_group_times is not None":
        b, a = ast.unparse(v.body), ast.unparse(v.orelse)
    else:
        raise Refuse("effective flag test " + cond)
    if (a, b) != ("self.__save_group_times", "save_group_times"):
        raise Refuse(f"effective flag branches {a} / {b}")
    out.append("Definition gen_effective (ctor : bool) (call : option bool) : bool := match call with Some b => b | None => ctor end.")
    for k in ("log_times", "verbose"):
        if ast.unparse(kws.get(k)) != k:
            raise Refuse(f"{k} passthrough")
    g = find_func(ev, "_evaluate_group", "Panoptica_Evaluator")
    starts = [n for n in g.body if isinstance(n, ast.If) and "start_time = perf_counter()" in ast.unparse(n)]
    stops = [n for n in g.body if isinstance(n, ast.If) and "perf_counter() - start_time" in ast.unparse(n)]
    if len(starts) != 1 or len(stops) != 1:
        raise Refuse("timing statements")
    env = {"self.__save_group_times": ("ctor", "bool"), "save_group_times": ("eff", "bool")}
    s_t, ty1 = Tr(env).expr(starts[0].test)
    e_t, ty2 = Tr(env).expr(stops[0].test)
    out.append(f"Definition gen_start_cond (ctor eff : bool) : bool := {s_t}.")
    out.append(f"Definition gen_stop_cond (ctor eff : bool) : bool := {e_t}.")
    if [ast.unparse(s) for s in stops[0].body] != ["duration = perf_counter() - start_time", "result.computation_time = duration"]:
        raise Refuse("stop body")
    # key cache
    k = find_func(ev, "resulting_metric_keys", "Panoptica_Evaluator")
    ks = ast.unparse(k)
    # computed once, under `if <cache> is None:` or after `if <cache> is not None: return <cache>` (normalised: list(d.keys()) is list(d))
    if "if self.__resulting_metric_keys is None:" not in ks \
            and "if self.__resulting_metric_keys is not None:\n        return self.__resulting_metric_keys" not in ks:
        raise Refuse("resulting_metric_keys: the cache test is missing")
    for need in ["self.__resulting_metric_keys = list(res.to_dict())", "return self.__resulting_metric_keys", "save_group_times=False"]:
        if need not in ks:
            raise Refuse("resulting_metric_keys: missing " + need)
    # evaluate does not assign to self
    for n in ast.walk(e):
        if isinstance(n, (ast.Assign, ast.AugAssign)):
            tgts = n.targets if isinstance(n, ast.Assign) else [n.target]
            for t in tgts:
                if "self." in ast.unparse(t):
                    raise Refuse("evaluate assigns to self: " + ast.unparse(t))
    for n in ast.walk(g):
        if isinstance(n, (ast.Assign, ast.AugAssign)):
            tgts = n.targets if isinstance(n, ast.Assign) else [n.target]
            for t in tgts:
                if ast.unparse(t).startswith("self."):
                    raise Refuse("_evaluate_group assigns to self: " + ast.unparse(t))
    out.append("Definition gen_evaluate_assigns_no_state : bool := true.")
    ag = parse("panoptica/panoptica_aggregator.py")
    init = find_func(ag, "__init__", "Panoptica_Aggregator")
    src = ast.unparse(init)
    if "self.__evaluation_metrics = list(panoptica_evaluator.resulting_metric_keys)" in src:
        copies = "true"
    elif "self.__evaluation_metrics = panoptica_evaluator.resulting_metric_keys" in src:
        copies = "false"
    else:
        raise Refuse("aggregator key list")
    if "if log_times:\n        self.__evaluation_metrics.append(COMPUTATION_TIME_KEY)" not in src:
        raise Refuse("aggregator log_times append")
    out.append(f"Definition gen_copies : bool := {copies}.")
    # log_times / verbose only feed prints in panoptic_evaluate
    pe = find_func(ev, "panoptic_evaluate")
    for n in ast.walk(pe):
        if isinstance(n, ast.If) and ast.unparse(n.test) in ("log_times", "verbose"):
            for s in n.body:
                if not (isinstance(s, ast.Expr) and isinstance(s.value, ast.Call) and dotted(s.value.func) == "print"):
                    raise Refuse("log_times/verbose guards a non-print statement")
    uses = [n for n in ast.walk(pe) if isinstance(n, ast.Name) and n.id in ("log_times", "verbose")]
    guards = sum(1 for n in ast.walk(pe) if isinstance(n, ast.If) and ast.unparse(n.test) in ("log_times", "verbose"))
    if len(uses) != guards:
        raise Refuse("log_times/verbose used outside print guards")
    out.append("Definition gen_logging_only_prints : bool := true.")
    return "\n".join(out) + "\n"
