"""T1 unit for PanopticaResult.__init__ (C08, C13, C02): which metrics get a per-instance list object (and with which handler
call), how the arrays are binarised for the global metrics, and when a global metric counts as calculated."""
import ast

from harness.translate.main import unit, parse
from harness.translate.pyx import Refuse, find_func, strip_doc


@unit("ResultInit", "panoptica/panoptica_result.py")
def result_init():
    tree = parse("panoptica/panoptica_result.py")
    f = find_func(tree, "__init__", "PanopticaResult")
    body = strip_doc(f.body)
    src = [ast.unparse(s) for s in body]
    # ---- binarisation for the global metrics
    want_bin = ("if prediction_arr is not None and reference_arr is not None:\n    pred_binary = prediction_arr.copy()\n    ref_binary = reference_arr.copy()\n"
                "    pred_binary[pred_binary != 0] = 1\n    ref_binary[ref_binary != 0] = 1\n    arrays_present = True")
    # the same 0/1 arrays of the input dtype built out of place ((a != 0) cast back to a's dtype, C-ordered like a copy)
    want_bin2 = ("if prediction_arr is not None and reference_arr is not None:\n"
                 "    pred_binary = (prediction_arr != 0).astype(prediction_arr.dtype, order='C')\n"
                 "    ref_binary = (reference_arr != 0).astype(reference_arr.dtype, order='C')\n    arrays_present = True")
    if "arrays_present = False" not in src or (want_bin not in src and want_bin2 not in src):
        raise Refuse("binarisation of the arrays for the global metrics")
    # ---- the loop over all metrics
    loops = [s for s in body if isinstance(s, ast.For) and ast.unparse(s.iter) == "Metric" and ast.unparse(s.target) == "m"]
    if len(loops) != 1 or loops[0].orelse:
        raise Refuse("expected exactly one `for m in Metric:` loop")
    # Evaluation_List_Metric(...) with its arguments passed by keyword: put them in the order of the constructor's parameters
    elm = find_func(parse("panoptica/metrics/metrics.py"), "__init__", "Evaluation_List_Metric")
    params = [a.arg for a in elm.args.args][1:]
    for n in ast.walk(loops[0]):
        if isinstance(n, ast.Call) and isinstance(n.func, ast.Name) and n.func.id == "Evaluation_List_Metric" and n.keywords \
                and all(k.arg in params for k in n.keywords) and len({k.arg for k in n.keywords}) == len(n.keywords):
            given = params[:len(n.args)]
            kw = {k.arg: k.value for k in n.keywords}
            rest = params[len(n.args):len(n.args) + len(kw)]
            if not (set(kw) & set(given)) and set(rest) == set(kw):          # a contiguous block right after the positional ones
                n.args = list(n.args) + [kw[p] for p in rest]
                n.keywords = []
    lb = [ast.unparse(s) for s in loops[0].body]
    want = ["if m in list_metrics:\n    is_edge_case, edge_case_result = self._edge_case_handler.handle_zero_tp(metric=m, tp=self.tp, "
            "num_pred_instances=self.num_pred_instances, num_ref_instances=self.num_ref_instances)\n"
            "    self._list_metrics[m] = Evaluation_List_Metric(m, empty_list_std, list_metrics[m], is_edge_case, edge_case_result)",
            "default_value = None", "was_calculated = False",
            "if m in self._global_metrics and arrays_present:\n    default_value = self._calc_global_bin_metric(m, pred_binary, ref_binary, do_binarize=False)\n"
            "    was_calculated = True"]
    if lb[:4] != want or len(lb) != 5:
        raise Refuse("metric loop body: " + str([x for x in lb[:4] if x not in want])[:300])
    add = loops[0].body[4]
    if not (isinstance(add, ast.Expr) and isinstance(add.value, ast.Call) and ast.unparse(add.value.func) == "self._add_metric"):
        raise Refuse("last statement of the metric loop is not self._add_metric(...)")
    kw = {k.arg: ast.unparse(k.value) for k in add.value.keywords}
    if kw.get("default_value") != "default_value" or kw.get("was_calculated") != "was_calculated" \
            or [ast.unparse(a) for a in add.value.args[:2]] != ["f'global_bin_{m.name.lower()}'", "MetricType.GLOBAL"]:
        raise Refuse("_add_metric arguments: " + ast.unparse(add.value)[:200])
    out = ["From Pan Require Import Base.Common.",
           "(* a per-instance list object (and a handler call) exists exactly for the evaluated metrics *)",
           "Definition gen_list_metric_exists (evaluated : bool) : bool := evaluated.",
           "(* global metrics: arrays binarised by `!= 0`; calculated iff requested and arrays present *)",
           "Definition gen_binarise (v : Z) : Z := if v =? 0 then 0 else 1.",
           "Definition gen_global_calculated (requested arrays_present : bool) : bool := requested && arrays_present."]
    return "\n".join(out) + "\n"
