"""T1 unit "ConfigTables" (C19): per-class YAML key tables extracted from the Python AST.

For every configurable class:   (a) the keys of the dict returned by `_yaml_repr` with the attribute each reads
(name-mangled, properties resolved, `d[Enum.X]` entries as "d[X]"), (b) the `__init__` parameters with their
defaults (as YAML trees: a default `Cls(kw=..)` is the tagged mapping that would construct it), (c) the attribute
each parameter is stored into and how (plain / `p if p is not None else q` / `... else Cls()` / LabelGroup's
sorted(set()) / SegmentationClassGroups' dict building), (d) enum member names, and the (de)serialisation scheme of
SupportsConfig and _Enum_Compare.  Anything outside the recognised statement forms raises Refuse (fail closed)."""
import ast
from harness.translate.normalize import canon_stmt_text
from fractions import Fraction

from harness.translate.main import unit, parse
from harness.translate.pyx import Refuse, strip_doc

FILES = [
    "panoptica/utils/config.py", "panoptica/utils/constants.py", "panoptica/panoptica_evaluator.py",
    "panoptica/instance_matcher.py", "panoptica/instance_approximator.py", "panoptica/utils/edge_case_handling.py",
    "panoptica/utils/label_group.py", "panoptica/utils/segmentation_class.py", "panoptica/metrics/metrics.py",
    "panoptica/utils/processing_pair.py",
]
CLASSES = [  # field of the Coq record, python class
    ("t_ev", "Panoptica_Evaluator"), ("t_naive", "NaiveThresholdMatching"), ("t_merge", "MaximizeMergeMatching"),
    ("t_cc", "ConnectedComponentsInstanceApproximator"), ("t_mzh", "MetricZeroTPEdgeCaseHandling"),
    ("t_ech", "EdgeCaseHandler"), ("t_lg", "LabelGroup"), ("t_lmg", "LabelMergeGroup"), ("t_any", "_LabelGroupAny"),
    ("t_scg", "SegmentationClassGroups"), ("t_noscg", "_NoSegmentationClassGroups"),
]
ENUMS = [("e_metric", "Metric"), ("e_input", "InputType"), ("e_backend", "CCABackend"),
         ("e_ecres", "EdgeCaseResult"), ("e_zerotp", "EdgeCaseZeroTP")]
CONFIG_ROOTS = {"SupportsConfig", "_Enum_Compare"}

# the dict-building block of SegmentationClassGroups.__init__ this unit understands (normalised source)
GROUPS_BLOCK = (
    "if isinstance(groups, list):\n"
    "    self.__group_dictionary = {f'group_{idx}': g for idx, g in enumerate(groups)}\n"
    "elif isinstance(groups, dict):\n"
    "    for i, g in groups.items():\n"
    "        name_lower = str(i).lower()\n"
    "        if isinstance(g, LabelGroup):\n"
    "            self.__group_dictionary[name_lower] = g\n"
    "        else:\n"
    "            self.__group_dictionary[name_lower] = LabelGroup(g[0], g[1])"
)


class World:
    def __init__(self):
        self.cls = {}
        for rel in FILES:
            for n in parse(rel).body:
                if isinstance(n, ast.ClassDef):
                    if n.name in self.cls:
                        raise Refuse(f"class {n.name} defined twice")
                    self.cls[n.name] = n
        self.enum_members = {py: self.members(py) for _, py in ENUMS}

    def bases(self, name):
        out = []
        for b in self.cls[name].bases:
            if isinstance(b, ast.Name):
                out.append(b.id)
            else:
                raise Refuse(f"base of {name} is not a plain name")
        return out

    def mro(self, name):
        """linearisation along the known classes (single known base per class, else refuse)"""
        chain = [name]
        cur = name
        while True:
            known = [b for b in self.bases(cur) if b in self.cls]
            if not known:
                return chain
            if len(known) > 1:
                raise Refuse(f"{cur} has several known bases")
            cur = known[0]
            chain.append(cur)

    def method(self, name, meth):
        for c in self.mro(name):
            for n in self.cls[c].body:
                if isinstance(n, ast.FunctionDef) and n.name == meth:
                    return c, n
        return None, None

    def is_property(self, fn):
        return any(isinstance(d, ast.Name) and d.id == "property" for d in fn.decorator_list)

    def members(self, name):
        if name not in self.cls:
            raise Refuse(f"enum {name} not found")
        out = []
        for n in self.cls[name].body:
            if isinstance(n, ast.Assign) and len(n.targets) == 1 and isinstance(n.targets[0], ast.Name):
                t = n.targets[0].id
                if not t.startswith("_"):
                    out.append(t)
        if not out:
            raise Refuse(f"enum {name} has no members")
        return out


def mangle(owner, attr):
    if attr.startswith("__") and not attr.endswith("__"):
        return "_" + owner.lstrip("_") + attr
    return attr


def attr_of(w, expr, objname, owner, concrete):
    """attribute (after mangling / property resolution) read by `objname.<attr>` or `objname.<attr>[Enum.M]`"""
    if isinstance(expr, ast.Subscript):
        base = attr_of(w, expr.value, objname, owner, concrete)
        s = expr.slice
        if not (isinstance(s, ast.Attribute) and isinstance(s.value, ast.Name) and s.value.id in w.enum_members):
            raise Refuse("subscript is not Enum.MEMBER: " + ast.unparse(expr))
        if s.attr not in w.enum_members[s.value.id]:
            raise Refuse(f"{s.value.id}.{s.attr} is not a member")
        if s.value.id != "EdgeCaseZeroTP":
            raise Refuse("dict attribute keyed by " + s.value.id)
        return f"{base}[{s.attr}]"
    if not (isinstance(expr, ast.Attribute) and isinstance(expr.value, ast.Name) and expr.value.id == objname):
        raise Refuse("not an attribute of the object: " + ast.unparse(expr))
    a = expr.attr
    if a.startswith("__") and not a.endswith("__"):
        return mangle(owner, a)
    pc, pf = w.method(concrete, a)
    if pf is not None:
        if not w.is_property(pf):
            raise Refuse(f"{a} is a method, not a property")
        body = strip_doc(pf.body)
        if len(body) != 1 or not isinstance(body[0], ast.Return) or body[0].value is None:
            raise Refuse(f"property {a} is not a single return")
        return attr_of(w, body[0].value, "self", pc, concrete)
    return a


def repr_table(w, name):
    owner, fn = w.method(name, "_yaml_repr")
    if fn is None:
        raise Refuse(f"{name} has no _yaml_repr")
    args = [a.arg for a in fn.args.args]
    if len(args) != 2:
        raise Refuse(f"{name}._yaml_repr signature {args}")
    body = strip_doc(fn.body)
    if len(body) != 1 or not isinstance(body[0], ast.Return) or not isinstance(body[0].value, ast.Dict):
        raise Refuse(f"{name}._yaml_repr is not a single `return {{...}}`")
    out = []
    for k, v in zip(body[0].value.keys, body[0].value.values):
        if not (isinstance(k, ast.Constant) and isinstance(k.value, str)):
            raise Refuse("non-literal key in _yaml_repr")
        out.append((k.value, attr_of(w, v, args[1], owner, name)))
    return sorted(out)      # ruamel sorts mapping keys on output; the dict order is not observable


# ------------------------------------------------------------------ defaults as YAML trees
def cstr(s):
    if any(ord(c) > 126 or ord(c) < 32 for c in s):
        raise Refuse("non-printable / non-ASCII name")
    return '(zs "' + s.replace('"', '""') + '")'


def yaml_of(w, e):
    if isinstance(e, ast.Constant):
        v = e.value
        if v is None:
            return "YNull"
        if v is True or v is False:
            return f"(YBool {str(v).lower()})"
        if isinstance(v, int):
            return f"(YNum (NInt ({v})))"
        if isinstance(v, float):
            f = Fraction(v)
            return f"(YNum (NFlt (({f.numerator}) # {f.denominator})))"
        if isinstance(v, str):
            return f"(YStr {cstr(v)})"
        raise Refuse("default constant " + repr(v))
    if isinstance(e, ast.Attribute) and isinstance(e.value, ast.Name) and e.value.id in w.enum_members:
        if e.attr not in w.enum_members[e.value.id]:
            raise Refuse(f"{e.value.id}.{e.attr} is not a member")
        return f"(YTag {cstr(e.value.id)} {cstr(e.attr)})"
    if isinstance(e, ast.List):
        return "(YSeq [" + "; ".join(yaml_of(w, x) for x in e.elts) + "])"
    if isinstance(e, ast.Dict):
        if any(k is None for k in e.keys):
            raise Refuse("dict unpacking in default")
        return "(YMap None [" + "; ".join(f"({yaml_of(w, k)}, {yaml_of(w, v)})" for k, v in zip(e.keys, e.values)) + "])"
    if isinstance(e, ast.Call) and isinstance(e.func, ast.Name) and e.func.id in w.cls and not e.args:
        kws = []
        for k in e.keywords:
            if k.arg is None:
                raise Refuse("**kwargs in default")
            kws.append(f"(YStr {cstr(k.arg)}, {yaml_of(w, k.value)})")
        return f"(YMap (Some {cstr(e.func.id)}) [" + "; ".join(kws) + "])"
    raise Refuse("default expression " + ast.unparse(e))


# ------------------------------------------------------------------ __init__ analysis
def is_none_test(e, name):
    return (isinstance(e, ast.Compare) and isinstance(e.left, ast.Name) and e.left.id == name and len(e.ops) == 1
            and isinstance(e.ops[0], ast.Is) and isinstance(e.comparators[0], ast.Constant)
            and e.comparators[0].value is None)


def is_not_none_test(e):
    if (isinstance(e, ast.Compare) and isinstance(e.left, ast.Name) and len(e.ops) == 1
            and isinstance(e.ops[0], ast.IsNot) and isinstance(e.comparators[0], ast.Constant)
            and e.comparators[0].value is None):
        return e.left.id
    return None


def new_of(w, e):
    if isinstance(e, ast.Call) and isinstance(e.func, ast.Name) and e.func.id in w.cls and not e.args and not e.keywords:
        return e.func.id
    return None


def only_asserts_or_prints(stmts):
    for s in stmts:
        if isinstance(s, ast.Assert):
            continue
        if isinstance(s, ast.Expr) and isinstance(s.value, ast.Call) and isinstance(s.value.func, ast.Name) \
                and s.value.func.id == "print":
            continue
        return False
    return True


def init_table(w, name):
    owner, fn = w.method(name, "__init__")
    if fn is None or owner in CONFIG_ROOTS:
        raise Refuse(f"{name} has no __init__ of its own")
    a = fn.args
    if a.vararg or a.kwarg or a.kwonlyargs or a.posonlyargs:
        raise Refuse(f"{name}.__init__ has */** parameters")
    names = [x.arg for x in a.args]
    if not names or names[0] != "self":
        raise Refuse(f"{name}.__init__ first parameter")
    params = names[1:]
    defaults = [None] * (len(params) - len(a.defaults)) + list(a.defaults)
    body = strip_doc(fn.body)

    # pass-through subclass:  super().__init__(p1, p2, ...) with its own parameters in order
    if len(body) == 1 and isinstance(body[0], ast.Expr) and isinstance(body[0].value, ast.Call):
        c = body[0].value
        f = c.func
        if (isinstance(f, ast.Attribute) and f.attr == "__init__" and isinstance(f.value, ast.Call)
                and isinstance(f.value.func, ast.Name) and f.value.func.id == "super" and not f.value.args):
            base = w.mro(owner)[1] if len(w.mro(owner)) > 1 else None
            if base is None:
                raise Refuse("super() without known base")
            bparams = init_table(w, base)
            passed = [x.id if isinstance(x, ast.Name) else None for x in c.args]
            kw = {k.arg: (k.value.id if isinstance(k.value, ast.Name) else None) for k in c.keywords}
            out = []
            used = set()
            for i, (bn, bd, battr, bkind) in enumerate(bparams):
                src = passed[i] if i < len(passed) else kw.get(bn)
                if src is None:
                    if bd is None:
                        raise Refuse(f"{name}: base parameter {bn} not passed")
                    continue
                if src not in params or src in used:
                    raise Refuse(f"{name}: super().__init__ argument {src}")
                used.add(src)
                out.append((src, battr, bkind))
            res = []
            for p, d in zip(params, defaults):
                hit = [o for o in out if o[0] == p]
                attr, kind = (hit[0][1], hit[0][2]) if hit else ("", "KPlain")
                res.append((p, None if d is None else yaml_of(w, d), attr, kind))
            return res

    state = {p: {"ornew": None, "intwrap": False, "sortedset": False, "groups": False} for p in params}
    stores = {}          # param -> (attr, kind)
    groups_done = False

    def target_attr(t):
        return attr_of(w, t, "self", owner, name)

    def store(t, value):
        # value: expression assigned to self.<t>
        if isinstance(value, ast.Name) and value.id in state:
            p = value.id
            st = state[p]
            if st["ornew"]:
                kind = f"(KOrNew {cstr(st['ornew'])})"
            elif st["intwrap"] and st["sortedset"]:
                kind = "KLabels"
            elif st["intwrap"] or st["sortedset"]:
                raise Refuse(f"{name}: partial label normalisation of {p}")
            else:
                kind = "KPlain"
            put(p, target_attr(t), kind)
            return
        if isinstance(value, ast.IfExp):
            p = is_not_none_test(value.test)
            if p is None and isinstance(value.test, ast.Compare) and isinstance(value.test.left, ast.Name) \
                    and is_none_test(value.test, value.test.left.id):
                # normalised spelling `<default> if p is None else p`: the same rule with the branches exchanged
                p = value.test.left.id
                value = ast.IfExp(test=value.test, body=value.orelse, orelse=value.body)
            if p in state and isinstance(value.body, ast.Name) and value.body.id == p:
                if isinstance(value.orelse, ast.Name) and value.orelse.id in state:
                    put(p, target_attr(t), f"(KOrParam {cstr(value.orelse.id)})")
                    return
                c = new_of(w, value.orelse)
                if c:
                    put(p, target_attr(t), f"(KOrNew {cstr(c)})")
                    return
            raise Refuse(f"{name}: conditional store " + ast.unparse(value))
        # anything not mentioning a parameter is internal state
        used = {n.id for n in ast.walk(value) if isinstance(n, ast.Name)}
        if used & set(state):
            raise Refuse(f"{name}: store computed from a parameter: " + ast.unparse(value))

    def put(p, attr, kind):
        if p in stores:
            raise Refuse(f"{name}: parameter {p} stored twice")
        stores[p] = (attr, kind)

    for s in body:
        if isinstance(s, ast.Pass) or isinstance(s, ast.Assert):
            continue
        if isinstance(s, ast.Expr) and isinstance(s.value, ast.Call):
            f = s.value.func
            if isinstance(f, ast.Attribute) and f.attr == "_register_permanently":
                continue
            if isinstance(f, ast.Name) and f.id == "print":
                continue
            raise Refuse(f"{name}.__init__ call " + ast.unparse(s))
        if isinstance(s, (ast.Assign, ast.AnnAssign)):
            if isinstance(s, ast.Assign):
                if len(s.targets) != 1:
                    raise Refuse("multiple assignment targets")
                t, v = s.targets[0], s.value
            else:
                t, v = s.target, s.value
                if v is None:
                    continue
            if isinstance(t, ast.Name):
                if t.id in state:
                    # p = sorted(set(p))
                    if (isinstance(v, ast.Call) and isinstance(v.func, ast.Name) and v.func.id == "sorted"
                            and len(v.args) == 1 and not v.keywords and isinstance(v.args[0], ast.Call)
                            and isinstance(v.args[0].func, ast.Name) and v.args[0].func.id == "set"
                            and len(v.args[0].args) == 1 and isinstance(v.args[0].args[0], ast.Name)
                            and v.args[0].args[0].id == t.id):
                        state[t.id]["sortedset"] = True
                        continue
                    raise Refuse(f"{name}: parameter {t.id} reassigned: " + ast.unparse(v))
                used = {n.id for n in ast.walk(v) if isinstance(n, ast.Name)}
                if used & set(state):
                    raise Refuse(f"{name}: local computed from a parameter: " + ast.unparse(s))
                continue      # local derived from attributes only (e.g. labels, duplicates)
            store(t, v)
            continue
        if isinstance(s, ast.If):
            # if p is None: p = Cls()
            done = False
            for p in state:
                if is_none_test(s.test, p) and not s.orelse and len(s.body) == 1 and isinstance(s.body[0], ast.Assign) \
                        and len(s.body[0].targets) == 1 and isinstance(s.body[0].targets[0], ast.Name) \
                        and s.body[0].targets[0].id == p and new_of(w, s.body[0].value):
                    state[p]["ornew"] = new_of(w, s.body[0].value)
                    done = True
                # if isinstance(p, int): p = [p]
                t = s.test
                if (isinstance(t, ast.Call) and isinstance(t.func, ast.Name) and t.func.id == "isinstance"
                        and len(t.args) == 2 and isinstance(t.args[0], ast.Name) and t.args[0].id == p
                        and isinstance(t.args[1], ast.Name) and t.args[1].id == "int" and not s.orelse
                        and len(s.body) == 1 and ast.unparse(s.body[0]) == f"{p} = [{p}]"):
                    state[p]["intwrap"] = True
                    done = True
            if done:
                continue
            if name == "SegmentationClassGroups" and ast.unparse(s) == canon_stmt_text(GROUPS_BLOCK, "self, groups") and not groups_done:
                groups_done = True
                put("groups", mangle(owner, "__group_dictionary"), "KGroups")
                continue
            if not s.orelse and only_asserts_or_prints(s.body):
                used = {n.id for n in ast.walk(s.test) if isinstance(n, ast.Name)}
                continue
            raise Refuse(f"{name}.__init__: unrecognised if: " + ast.unparse(s)[:120])
        raise Refuse(f"{name}.__init__: statement " + type(s).__name__)

    res = []
    for p, d in zip(params, defaults):
        attr, kind = stores.get(p, ("", "KPlain"))       # an unstored parameter has no attribute: tables_ok fails
        res.append((p, None if d is None else yaml_of(w, d), attr, kind))
    return res


# ------------------------------------------------------------------ (de)serialisation scheme
def ret_src(w, cls, meth):
    c, fn = w.method(cls, meth)
    if fn is None:
        raise Refuse(f"{cls}.{meth} not found")
    body = strip_doc(fn.body)
    body = [s for s in body if not isinstance(s, ast.Assert)]
    return body


def scheme(w):
    b = ret_src(w, "SupportsConfig", "to_yaml")
    tag_ok = (len(b) == 1 and isinstance(b[0], ast.Return) and ast.unparse(b[0].value) in (
        "representer.represent_mapping('!' + cls.__name__, cls._yaml_repr(node))",
        "representer.represent_mapping(f'!{cls.__name__}', cls._yaml_repr(node))"))
    b = ret_src(w, "SupportsConfig", "from_yaml")
    kw_ok = (len(b) == 2 and ast.unparse(b[0]) == "data = constructor.construct_mapping(node, deep=True)"
             and ast.unparse(b[1]) == "return cls(**data)")
    b = ret_src(w, "_Enum_Compare", "to_yaml")
    out_ok = (len(b) == 1 and isinstance(b[0], ast.Return) and ast.unparse(b[0].value) in (
        "representer.represent_scalar('!' + cls.__name__, str(node.name))",
        "representer.represent_scalar('!' + cls.__name__, node.name)",
        "representer.represent_scalar(f'!{cls.__name__}', str(node.name))"))
    b = ret_src(w, "_Enum_Compare", "from_yaml")
    in_ok = len(b) == 1 and isinstance(b[0], ast.Return) and ast.unparse(b[0].value) == "cls[node.value]"
    no_override = True
    for _, py in CLASSES + ENUMS:
        for c in w.mro(py):
            if c in CONFIG_ROOTS:
                continue
            for n in w.cls[c].body:
                if isinstance(n, ast.FunctionDef) and n.name in ("to_yaml", "from_yaml", "_register_permanently",
                                                                  "__init_subclass__"):
                    no_override = False
    return tag_ok, kw_ok, out_ok, in_ok, no_override


def cbool(b):
    return "true" if b else "false"


@unit("ConfigTables", "panoptica/{utils/config,utils/constants,panoptica_evaluator,instance_matcher,"
                      "instance_approximator,utils/edge_case_handling,utils/label_group,utils/segmentation_class}.py")
def config_tables():
    w = World()
    out = ["From Coq Require String.", "Import String.StringSyntax.",
           "From Pan Require Import Base.Common Model.Config.", "Local Open Scope string_scope.",
           "Definition gen_tables : tables := {|"]
    for field, py in CLASSES:
        if py not in w.cls:
            raise Refuse(f"class {py} not found")
        chain = w.mro(py)
        if "SupportsConfig" not in chain:
            raise Refuse(f"{py} does not derive from SupportsConfig")
        r = repr_table(w, py)
        ps = init_table(w, py)
        rs = "; ".join(f"({cstr(k)}, {cstr(a)})" for k, a in r)
        pss = ";\n      ".join(
            "{| p_name := %s; p_default := %s; p_attr := %s; p_kind := %s |}"
            % (cstr(n), "None" if d is None else f"Some {d}", cstr(a), k) for n, d, a, k in ps)
        out.append(f"  {field} := {{| ct_cls := {cstr(py)};\n    ct_repr := [{rs}];\n    ct_params := [{pss}] |}};")
    for field, py in ENUMS:
        if "_Enum_Compare" not in w.mro(py):
            raise Refuse(f"{py} does not derive from _Enum_Compare")
        ms = "; ".join(cstr(m) for m in w.enum_members[py])
        out.append(f"  {field} := {{| e_cls := {cstr(py)}; e_members := [{ms}] |}};")
    tag_ok, kw_ok, out_ok, in_ok, no_override = scheme(w)
    out.append(f"  f_tag_is_class_name := {cbool(tag_ok)}; f_load_by_kwargs := {cbool(kw_ok)};")
    out.append(f"  f_enum_out_by_name := {cbool(out_ok)}; f_enum_in_by_name := {cbool(in_ok)};")
    out.append(f"  f_no_override := {cbool(no_override)}")
    out.append("|}.")
    return "\n".join(out) + "\n"
