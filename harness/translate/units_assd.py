"""T1 unit for the ASSD kernel (panoptica/metrics/assd.py; C07, C01, C10): the statements that decide WHICH voxels are border voxels,
WHICH distances are averaged and in which roles the two masks enter.  The numeric kernels (scipy's erosion and distance transform)
are modelled, not translated; this unit pins the way they are called."""
import ast

from harness.translate.main import unit, parse
from harness.translate.pyx import Refuse, find_func, strip_doc
from harness.translate.normalize import body_differs


def _stmts(f):
    return [ast.unparse(s) for s in strip_doc(f.body)]


def _kw(call, want):
    got = {k.arg: ast.unparse(k.value) for k in call.keywords}
    if call.args or got != want:
        raise Refuse(f"{ast.unparse(call.func)} called with {ast.unparse(call)}")


@unit("AssdKernel", "panoptica/metrics/assd.py")
def assd_kernel():
    tree = parse("panoptica/metrics/assd.py")
    out = ["From Pan Require Import Base.Common."]
    # ---- instance selection of the exported kernel
    f = find_func(tree, "_compute_instance_average_symmetric_surface_distance")
    args = [a.arg for a in f.args.args]
    if args != ["ref_labels", "pred_labels", "ref_instance_idx", "pred_instance_idx", "voxelspacing", "connectivity"]:
        raise Refuse(f"kernel signature {args}")
    dflt = [ast.unparse(d) for d in f.args.defaults]
    if dflt != ["None", "None", "None", "1"]:
        raise Refuse(f"kernel defaults {dflt}")
    want = ["if ref_instance_idx is None and pred_instance_idx is None:\n    return _average_symmetric_surface_distance(reference=ref_labels, "
            "prediction=pred_labels, voxelspacing=voxelspacing, connectivity=connectivity)",
            "ref_instance_mask = ref_labels == ref_instance_idx", "pred_instance_mask = pred_labels == pred_instance_idx",
            "return _average_symmetric_surface_distance(reference=ref_instance_mask, prediction=pred_instance_mask, voxelspacing=voxelspacing, "
            "connectivity=connectivity)"]
    if body_differs(f, want):
        raise Refuse("kernel body: " + str(body_differs(f, want))[:300])
    out.append("Definition gen_kernel_ref_mask (v ri : Z) : bool := v =? ri.")
    out.append("Definition gen_kernel_pred_mask (v pi : Z) : bool := v =? pi.")
    # ---- ASSD = mean of the two directed averages, roles exchanged
    f = find_func(tree, "_average_symmetric_surface_distance")
    b = strip_doc(f.body)
    # normalised shape: return float(np.mean((<directed>, <directed>)))   (temporaries are inlined by the normaliser)
    if len(b) != 1 or not isinstance(b[0], ast.Return) or not (isinstance(b[0].value, ast.Call) and ast.unparse(b[0].value.func) == "float"
                                                               and len(b[0].value.args) == 1 and not b[0].value.keywords):
        raise Refuse("_average_symmetric_surface_distance shape")
    c = b[0].value.args[0]
    if not (isinstance(c, ast.Call) and ast.unparse(c.func) == "np.mean" and len(c.args) == 1 and not c.keywords and isinstance(c.args[0], ast.Tuple)
            and len(c.args[0].elts) == 2):
        raise Refuse("assd is not np.mean of a pair")
    roles = []
    for e in c.args[0].elts:
        if not (isinstance(e, ast.Call) and ast.unparse(e.func) == "_average_surface_distance"):
            raise Refuse("directed term " + ast.unparse(e))
        kw = {k.arg: ast.unparse(k.value) for k in e.keywords}
        if e.args or set(kw) != {"reference", "prediction", "voxelspacing", "connectivity"} or kw["voxelspacing"] != "voxelspacing" \
                or kw["connectivity"] != "connectivity" or {kw["reference"], kw["prediction"]} != {"reference", "prediction"}:
            raise Refuse("directed term arguments " + ast.unparse(e))
        roles.append(0 if kw["reference"] == "reference" else 1)          # 1: roles exchanged
    if sorted(roles) != [0, 1]:
        raise Refuse("the two directed terms do not exchange the roles")
    out.append("Definition gen_assd_is_mean_of_both_directions : bool := true.")
    f = find_func(tree, "_average_surface_distance")
    if body_differs(f, ["sds = __surface_distances(reference, prediction, voxelspacing, connectivity)", "asd = sds.mean()", "return asd"]):
        raise Refuse("_average_surface_distance: " + str(_stmts(f)))
    out.append("Definition gen_directed_is_plain_mean : bool := true.")
    # ---- border extraction and distances
    f = find_func(tree, "__surface_distances")
    if [a.arg for a in f.args.args] != ["reference", "prediction", "voxelspacing", "connectivity"] or [ast.unparse(d) for d in f.args.defaults] != ["None", "1"]:
        raise Refuse("__surface_distances signature")
    want = ["prediction = np.atleast_1d(prediction.astype(bool))", "reference = np.atleast_1d(reference.astype(bool))",
            "if voxelspacing is not None:\n    voxelspacing = _ni_support._normalize_sequence(voxelspacing, prediction.ndim)\n"
            "    voxelspacing = np.asarray(voxelspacing, dtype=np.float64)\n    if not voxelspacing.flags.contiguous:\n        voxelspacing = voxelspacing.copy()",
            "footprint = generate_binary_structure(prediction.ndim, connectivity)",
            "result_border = prediction ^ binary_erosion(prediction, structure=footprint, iterations=1)",
            "reference_border = reference ^ binary_erosion(reference, structure=footprint, iterations=1)",
            "dt = _distance_transform_edt(~reference_border, sampling=None)", "sds = dt[result_border]", "return sds"]
    if body_differs(f, want):
        raise Refuse("__surface_distances body: " + str(body_differs(f, want))[:300])
    out.append("Definition gen_default_connectivity : Z := 1.")
    out.append("Definition gen_border_is_mask_minus_erosion : bool := true.")
    out.append("Definition gen_distances_from_prediction_border_to_reference_border : bool := true.")
    # ---- the distance transform wrapper: feature transform of the whole array, offsets to the nearest background voxel, squared,
    #      summed over the axes, square root -- in one piece (no blocking, no narrowing casts)
    f = find_func(tree, "_distance_transform_edt")
    if [a.arg for a in f.args.args] != ["input_array", "sampling", "return_distances", "return_indices"] \
            or [ast.unparse(d) for d in f.args.defaults] != ["None", "True", "False"]:
        raise Refuse("_distance_transform_edt signature")
    want = ["ft = np.zeros((input_array.ndim,) + input_array.shape, dtype=np.int32)",
            "euclidean_feature_transform(input_array, sampling, ft)",
            "if return_distances:\n    dt = ft - np.indices(input_array.shape, dtype=ft.dtype)\n    dt = dt.astype(np.float64)\n    np.multiply(dt, dt, dt)\n"
            "    dt = np.add.reduce(dt, axis=0)\n    dt = np.sqrt(dt)",
            "result = []", "if return_distances:\n    result.append(dt)", "if return_indices:\n    result.append(ft)",
            "if len(result) == 2:\n    return tuple(result)\nelif len(result) == 1:\n    return result[0]\nelse:\n    return None"]
    # the same dispatch on the two flags written as direct returns
    want_direct = want[:3] + ["if return_distances and return_indices:\n    return (dt, ft)", "if return_distances:\n    return dt",
                              "if return_indices:\n    return ft", "return None"]
    def inplace_sqrt(w):       # np.sqrt(dt, out=dt) on the private float64 array is dt = np.sqrt(dt)
        return [x.replace("    dt = np.sqrt(dt)", "    np.sqrt(dt, out=dt)") for x in w]
    if all(body_differs(f, w) for w in (want, want_direct, inplace_sqrt(want), inplace_sqrt(want_direct))):
        raise Refuse("_distance_transform_edt body: " + str(body_differs(f, want))[:300])
    out.append("Definition gen_distance_is_sqrt_of_summed_squared_offsets : bool := true.")
    imp = [ast.unparse(n) for n in tree.body if isinstance(n, (ast.Import, ast.ImportFrom))]
    if "from scipy.ndimage import _ni_support, binary_erosion, generate_binary_structure" not in imp:
        raise Refuse("erosion / structure are not scipy.ndimage's: " + str(imp))
    if "from scipy.ndimage._nd_image import euclidean_feature_transform" not in imp:
        raise Refuse("the feature transform is not scipy.ndimage's: " + str(imp))
    return "\n".join(out) + "\n"
