"""T1 unit "AggOps" (C16, C17): the lock/file instruction structure of panoptica_aggregator.py.

For the constructor, `evaluate` (+ `_save_one_subject` inlined), `make_statistic` and the atexit handler
the Python AST is turned into the structured instruction list of Model/Aggregator.v (`instr`): which
`_write_content / _load_first_column_entries / _read_first_row / os.remove / open` happen inside which
`with inevalfilelock:` / `with filelock:` blocks, in which order, under which file-state conditions, on which
of the two files, and with which content kind; plus the constant the buffer file name is built from and
whether every output-file operand denotes the same path (also when ".tsv" had to be appended).
Fail closed: anything not recognised raises Refuse."""
import ast

from harness.translate.main import unit, parse
from harness.translate.pyx import Refuse, find_func, strip_doc, dotted

SRC = "panoptica/panoptica_aggregator.py"
LOCKS = {"inevalfilelock": "LkE", "filelock": "LkF"}
FILEFUNCS = {"_write_content", "_load_first_column_entries", "_read_first_row", "os.remove", "open",
             "atexit.register", "Panoptica_Statistic.from_file"}
TRACKED = {"continue_file", "output_file", "out_file_path", "out_buffer_file", "self.__output_file", "self.__output_buffer_file"}


def _dn(e):
    try:
        return dotted(e)
    except Refuse:
        return None


def interesting(node):
    """does the subtree touch locks / files / control flow the model cares about?"""
    for n in ast.walk(node):
        if isinstance(n, (ast.With, ast.Return, ast.Raise, ast.Try, ast.While, ast.Global, ast.Nonlocal, ast.Assert)):
            return True
        if isinstance(n, ast.Call):
            d = _dn(n.func)
            if d in FILEFUNCS or (d or "").endswith(".evaluate") or d == "self._save_one_subject" \
                    or (d or "").endswith(".exists") or (d or "").endswith(".acquire") or (d or "").endswith(".release"):
                return True
        if isinstance(n, ast.Name) and n.id in LOCKS:
            return True
        if isinstance(n, (ast.Assign, ast.AugAssign, ast.AnnAssign)):
            tg = n.targets if isinstance(n, ast.Assign) else [n.target]
            for t in tg:
                if _dn(t) in TRACKED:
                    return True
            v = n.value
            while isinstance(v, ast.Call) and _dn(v.func) in ("str", "Path") and len(v.args) == 1 and not v.keywords:
                v = v.args[0]
            if v is not None and _dn(v) in TRACKED:          # a local alias of a tracked path
                return True
    return False


class Walker:
    def __init__(self, tree, env, noext=False):
        self.tree = tree
        self.env = dict(env)       # dotted name -> ("out", n_suffix) | ("buf", n_suffix)
        self.noext = noext
        self.uses = []             # path values used as file operands
        self.prefix = None
        self.vars = {}             # local var -> "firstrow" | "ids"
        self.fn_end = None

    # ---- file operands
    def path(self, e):
        if isinstance(e, ast.Call) and _dn(e.func) in ("str", "Path") and len(e.args) == 1 and not e.keywords:
            return self.path(e.args[0])
        d = _dn(e)
        if d in self.env:
            return self.env[d]
        raise Refuse("file operand " + ast.unparse(e)[:60])

    def fileid(self, e):
        v = self.path(e)
        self.uses.append(v)
        return "FOut" if v[0] == "out" else "FBuf"

    # ---- statements
    def block(self, stmts, top=False):
        out = []
        stmts = strip_doc(stmts)
        for i, s in enumerate(stmts):
            last = top and i == len(stmts) - 1
            out += self.stmt(s, last)
        return out

    def stmt(self, s, last=False):
        if not interesting(s):
            return []
        if isinstance(s, ast.With):
            if len(s.items) != 1 or s.items[0].optional_vars is not None:
                raise Refuse("with form")
            d = _dn(s.items[0].context_expr)
            if d not in LOCKS:
                raise Refuse("with on " + str(d))
            return [f"IWith {LOCKS[d]} {self.lst(self.block(s.body))}"]
        if isinstance(s, ast.If):
            return self.if_(s)
        if isinstance(s, ast.Return):
            if last:
                if s.value is not None and interesting(s.value):
                    raise Refuse("return value with effects")
                return []
            if s.value is not None:
                raise Refuse("early return with a value")
            return ["IReturn"]
        if isinstance(s, ast.Assert):
            src = ast.unparse(s.test).replace(" ", "")
            if src in ("output_file.parent.exists()", "extension=='tsv'"):   # directory / extension checks
                return []
            hv = [k for k, v in self.vars.items() if v == "firstrow"]
            if len(hv) == 1 and src in (f"header_hash==hash('+'.join({hv[0]}))", f"hash('+'.join({hv[0]}))==header_hash"):
                return ["IAssertHeader"]
            raise Refuse("assert " + src[:60])
        if isinstance(s, ast.AugAssign):
            d = _dn(s.target)
            if d == "out_file_path" and isinstance(s.op, ast.Add) and isinstance(s.value, ast.Constant) and s.value.value == ".tsv":
                k, n = self.env[d]
                self.env[d] = (k, n + 1)
                return []
            raise Refuse("augmented assignment " + ast.unparse(s)[:60])
        if isinstance(s, ast.AnnAssign):
            s = ast.Assign(targets=[s.target], value=s.value)
        if isinstance(s, ast.Assign):
            return self.assign(s)
        if isinstance(s, ast.Expr) and isinstance(s.value, ast.Call):
            return self.call(s.value)
        raise Refuse("statement " + type(s).__name__ + ": " + ast.unparse(s)[:60])

    def assign(self, s):
        if len(s.targets) != 1:
            raise Refuse("multiple assignment")
        t = _dn(s.targets[0])
        v = s.value
        if t == "continue_file":
            if isinstance(v, ast.Constant) and v.value is True:
                return ["ISetContinue"]
            raise Refuse("assignment to continue_file")
        if t in TRACKED:
            if t == "out_buffer_file":
                # Path(out_file_path).parent.joinpath(CONST + Path(out_file_path).name)
                ok = (isinstance(v, ast.Call) and isinstance(v.func, ast.Attribute) and v.func.attr == "joinpath"
                      and len(v.args) == 1 and isinstance(v.args[0], ast.BinOp) and isinstance(v.args[0].op, ast.Add)
                      and isinstance(v.args[0].left, ast.Constant) and isinstance(v.args[0].left.value, str))
                if not ok:
                    raise Refuse("buffer file name expression: " + ast.unparse(v)[:80])
                par, nm = v.func.value, v.args[0].right
                if not (isinstance(par, ast.Attribute) and par.attr == "parent" and isinstance(nm, ast.Attribute) and nm.attr == "name"):
                    raise Refuse("buffer file name expression shape")
                p1, p2 = self.path(par.value), self.path(nm.value)
                if p1 != p2 or p1[0] != "out":
                    raise Refuse("buffer file not derived from the output file")
                self.prefix = v.args[0].left.value
                self.env[t] = ("buf", p1[1])
                return []
            self.env[t] = self.path(v)
            return []
        if t == "continue_file" and isinstance(v, ast.Constant) and v.value is True:
            return ["ISetContinue"]
        if t is not None and "." not in t:
            # a local name for one of the tracked paths (out_path = Path(out_file_path)): an alias with the same value
            try:
                self.env[t] = self.path(v)
                return []
            except Refuse:
                self.env.pop(t, None)
        if isinstance(v, ast.Call):
            d = _dn(v.func)
            if d == "_read_first_row" and len(v.args) == 1 and not v.keywords:
                self.vars[t] = "firstrow"
                return [f"IReadFirstRow {self.fileid(v.args[0])}"]
            if d == "_load_first_column_entries" and len(v.args) == 1:
                skip = False
                for k in v.keywords:
                    if k.arg != "skip_header" or not isinstance(k.value, ast.Constant) or not isinstance(k.value.value, bool):
                        raise Refuse("load keyword")
                    skip = k.value.value
                self.vars[t] = "ids"
                return [f"ILoad {self.fileid(v.args[0])} {str(skip).lower()}"]
            if d == "Panoptica_Statistic.from_file" and len(v.args) == 1 and not v.keywords:
                return [f"IStatRead {self.fileid(v.args[0])}"]
            if d and d.endswith("__panoptica_evaluator.evaluate"):
                return ["IEvaluate"]
        raise Refuse("assignment " + ast.unparse(s)[:80])

    def call(self, c):
        d = _dn(c.func)
        if d == "_write_content" and len(c.args) == 2 and not c.keywords:
            f = self.fileid(c.args[0])
            a = ast.unparse(c.args[1]).replace(" ", "")
            ids = [k for k, v in self.vars.items() if v == "ids"]
            if a == "[header]":
                w = "WHeader"
            elif len(ids) == 1 and a == f"[[s]forsin{ids[0]}]":
                w = "WIds"
            elif a == "[[subject_name]]":
                w = "WClaim"
            elif a == "[content]" and self.vars.get("content") == "row":
                w = "WRow"
            else:
                raise Refuse("written content " + a[:60])
            return [f"IWrite {f} {w}"]
        if d == "os.remove" and len(c.args) == 1 and not c.keywords:
            return [f"IRemove {self.fileid(c.args[0])}"]
        if d == "atexit.register" and len(c.args) == 1 and _dn(c.args[0]) == "self.__exist_handler":
            return ["IAtexit"]
        if isinstance(c.func, ast.Attribute) and c.func.attr == "close" and isinstance(c.func.value, ast.Call) \
                and _dn(c.func.value.func) == "open":
            o = c.func.value
            if len(o.args) == 2 and isinstance(o.args[1], ast.Constant) and o.args[1].value == "a" and not o.keywords:
                return [f"ITouch {self.fileid(o.args[0])}"]
            raise Refuse("open() form")
        if d == "self._save_one_subject":
            if [ast.unparse(a) for a in c.args] != ["subject_name", "res"] or c.keywords:
                raise Refuse("_save_one_subject arguments")
            f = find_func(self.tree, "_save_one_subject", "Panoptica_Aggregator")
            if [a.arg for a in f.args.args] != ["self", "subject_name", "result_grouped"]:
                raise Refuse("_save_one_subject signature")
            w = Walker(self.tree, self.env, self.noext)
            # content must start with the subject name
            for n in ast.walk(f):
                if isinstance(n, ast.Assign) and _dn(n.targets[0]) == "content":
                    if ast.unparse(n.value).replace(" ", "") != "[subject_name]":
                        raise Refuse("row content does not start with the subject name")
                    w.vars["content"] = "row"
            r = w.block(f.body, top=True)
            self.uses += w.uses
            return r
        raise Refuse("call " + str(d) + ": " + ast.unparse(c)[:60])

    def if_(self, s):
        t = s.test
        src = ast.unparse(t).replace(" ", "")
        if src == "'.'inout_file_path":
            return self.block(s.orelse if self.noext else s.body)
        if src == "isinstance(output_file,str)":
            if len(s.body) != 1 or ast.unparse(s.body[0]).replace(" ", "") != "output_file=Path(output_file)" or s.orelse:
                raise Refuse("isinstance branch")
            return []
        neg = False
        if isinstance(t, ast.UnaryOp) and isinstance(t.op, ast.Not):
            neg, t = True, t.operand
        cond = None
        if isinstance(t, ast.Call) and isinstance(t.func, ast.Attribute) and t.func.attr == "exists" and not t.args:
            cond = ("CAbsent " if neg else "CExists ") + self.fileid(t.func.value)
        elif isinstance(t, ast.BoolOp) and isinstance(t.op, ast.And) and len(t.values) == 2 and not neg:
            a, b = t.values
            if (ast.unparse(a).replace(" ", "") == "self.__output_buffer_fileisnotNone" and isinstance(b, ast.Call)
                    and isinstance(b.func, ast.Attribute) and b.func.attr == "exists"
                    and _dn(b.func.value) == "self.__output_buffer_file"):
                cond = "CExists " + self.fileid(b.func.value)
        elif neg and _dn(t) is not None and self.vars.get(_dn(t)) == "firstrow":
            cond = "CFirstRowEmpty"            # `not header_list` (normalised form of len(header_list) == 0)
        elif not neg:
            hv = [k for k, v in self.vars.items() if v == "firstrow"]
            ids = [k for k, v in self.vars.items() if v == "ids"]
            if len(hv) == 1 and src == f"len({hv[0]})==0":
                cond = "CFirstRowEmpty"
            elif len(ids) == 1 and src == f"subject_namein{ids[0]}":
                cond = "CDupName"
            elif src == "continue_file":
                cond = "CContinue"
        if cond is None:
            raise Refuse("condition " + src[:60])
        env0 = dict(self.env)
        th = self.block(s.body)
        env1, self.env = self.env, dict(env0)
        el = self.block(s.orelse)
        if env1 != self.env:
            raise Refuse("branches rebind file names differently")
        return [f"IIf ({cond}) {self.lst(th)} {self.lst(el)}"]

    @staticmethod
    def lst(items):
        return "[" + "; ".join(items) + "]"


def _ctor(tree, noext):
    f = find_func(tree, "__init__", "Panoptica_Aggregator")
    names = [a.arg for a in f.args.args]
    if names != ["self", "panoptica_evaluator", "output_file", "log_times", "continue_file"]:
        raise Refuse("constructor signature " + str(names))
    dflt = [ast.unparse(d) for d in f.args.defaults]
    if dflt != ["False", "True"]:
        raise Refuse("constructor defaults " + str(dflt))
    w = Walker(tree, {"output_file": ("out", 0)}, noext)
    prog = w.block(f.body, top=True)
    fin = {k: w.env.get(k) for k in ("self.__output_file", "self.__output_buffer_file")}
    if fin["self.__output_file"] is None or fin["self.__output_buffer_file"] is None:
        raise Refuse("constructor does not set both file attributes")
    # every operand must denote the final output path / its buffer
    want = {"out": fin["self.__output_file"], "buf": fin["self.__output_buffer_file"]}
    consistent = all(u == want[u[0]] for u in w.uses) and want["buf"][1] == want["out"][1] \
        and want["out"][1] == (1 if noext else 0)
    return prog, w.env, w.prefix, consistent


@unit("AggOps", SRC)
def agg_ops():
    tree = parse(SRC)
    # module-level lock objects
    locks = {}
    for n in tree.body:
        if isinstance(n, ast.Assign) and len(n.targets) == 1 and isinstance(n.targets[0], ast.Name) \
                and n.targets[0].id in LOCKS:
            if not (isinstance(n.value, ast.Call) and _dn(n.value.func) == "Lock" and not n.value.args):
                raise Refuse("lock object definition " + ast.unparse(n)[:60])
            locks[n.targets[0].id] = True
    if set(locks) != set(LOCKS):
        raise Refuse("module-level locks " + str(sorted(locks)))
    prog_a, env_a, prefix_a, cons_a = _ctor(tree, noext=False)
    prog_b, env_b, prefix_b, cons_b = _ctor(tree, noext=True)
    if prog_a != prog_b or prefix_a != prefix_b or prefix_a is None:
        raise Refuse("constructor differs between the two extension cases")
    env = {k: ("out" if v[0] == "out" else "buf", 0) for k, v in env_a.items() if k.startswith("self.")}

    def method(name, args):
        f = find_func(tree, name, "Panoptica_Aggregator")
        if [a.arg for a in f.args.args] != args:
            raise Refuse(f"{name} signature")
        w = Walker(tree, env)
        return w.block(f.body, top=True)

    ev = method("evaluate", ["self", "prediction_arr", "reference_arr", "subject_name"])
    st = method("make_statistic", ["self"])
    ax = method("_Panoptica_Aggregator__exist_handler", ["self"]) if False else None
    f = find_func(tree, "__exist_handler", "Panoptica_Aggregator")
    ax = Walker(tree, env).block(f.body, top=True)
    out = ["From Pan Require Import Model.Aggregator."]
    out.append(f"Definition gen_prog_ctor : list instr := {Walker.lst(prog_a)}.")
    out.append(f"Definition gen_prog_evaluate : list instr := {Walker.lst(ev)}.")
    out.append(f"Definition gen_prog_stat : list instr := {Walker.lst(st)}.")
    out.append(f"Definition gen_prog_atexit : list instr := {Walker.lst(ax)}.")
    out.append("Definition gen_buf_prefix : list Z := [" + "; ".join(str(ord(c)) for c in prefix_a) + "].")
    out.append(f"Definition gen_operands_consistent : bool := {str(bool(cons_a and cons_b)).lower()}.")
    return "\n".join(out) + "\n"
