"""Fail-closed translation of a small Python expression/statement subset into Gallina text.

Every construct that is not explicitly handled raises Refuse; nothing is guessed.  Types are tracked
so that comparisons pick the right Coq operator: 'Z' (python int), 'Q' (python float, exact),
'bool', and ('opt', T).  The environment maps python names and `self.<attr>` chains to
(coq_term, type)."""
import ast
from fractions import Fraction


class Refuse(Exception):
    pass


def find_func(tree, name, cls=None):
    body = tree.body
    if cls is not None:
        for n in body:
            if isinstance(n, ast.ClassDef) and n.name == cls:
                body = n.body
                break
        else:
            raise Refuse(f"class {cls} not found")
    for n in body:
        if isinstance(n, (ast.FunctionDef,)) and n.name == name:
            return n
    raise Refuse(f"function {cls}.{name} not found")


def strip_doc(stmts):
    out = []
    for s in stmts:
        if isinstance(s, ast.Expr) and isinstance(s.value, ast.Constant) and isinstance(s.value.value, str):
            continue
        out.append(s)
    return out


def dotted(e):
    if isinstance(e, ast.Name):
        return e.id
    if isinstance(e, ast.Attribute):
        return dotted(e.value) + "." + e.attr
    raise Refuse("not a dotted name: " + ast.dump(e)[:80])


def qlit(v):
    f = Fraction(v)  # exact value of the double / int
    n, d = f.numerator, f.denominator
    return f"({n} # {d})" if n >= 0 else f"(({n}) # {d})"


class Tr:
    def __init__(self, env, calls=None):
        self.env = env            # dotted name -> (term, type)
        self.calls = calls or {}  # dotted callee -> function(list of (term,type)) -> (term,type)

    def expr(self, e):
        if isinstance(e, ast.Constant):
            v = e.value
            if v is True or v is False:
                return ("true" if v else "false", "bool")
            if isinstance(v, int):
                return (f"({v})" if v < 0 else str(v), "Z")
            if isinstance(v, float):
                return (qlit(v), "Q")
            if v is None:
                return ("None", "none")
            raise Refuse(f"constant {v!r}")
        if isinstance(e, (ast.Name, ast.Attribute)):
            d = dotted(e)
            if d in self.env:
                return self.env[d]
            raise Refuse(f"unknown name {d}")
        if isinstance(e, ast.BoolOp):
            parts = [self.expr(v) for v in e.values]
            if any(t != "bool" for _, t in parts):
                raise Refuse("non-boolean operand of and/or")
            op = " && " if isinstance(e.op, ast.And) else " || "
            return ("(" + op.join(p for p, _ in parts) + ")", "bool")
        if isinstance(e, ast.UnaryOp) and isinstance(e.op, ast.Not):
            t, ty = self.expr(e.operand)
            if ty != "bool":
                raise Refuse("not on non-bool")
            return (f"(negb {t})", "bool")
        if isinstance(e, ast.UnaryOp) and isinstance(e.op, ast.USub):
            t, ty = self.expr(e.operand)
            if ty == "Z":
                return (f"(- {t})", "Z")
            if ty == "Q":
                return (f"(Qopp {t})", "Q")
            raise Refuse("unary minus")
        if isinstance(e, ast.Compare):
            if len(e.ops) != 1:
                raise Refuse("comparison chain")
            return self.compare(e.ops[0], e.left, e.comparators[0])
        if isinstance(e, ast.BinOp):
            l, lt = self.expr(e.left)
            r, rt = self.expr(e.right)
            return self.binop(e.op, l, lt, r, rt)
        if isinstance(e, ast.IfExp):
            c, ct = self.expr(e.test)
            a, at = self.expr(e.body)
            b, bt = self.expr(e.orelse)
            if ct != "bool":
                raise Refuse("ifexp test type")
            a, b, ty = self.unify(a, at, b, bt)
            return (f"(if {c} then {a} else {b})", ty)
        if isinstance(e, ast.Call):
            d = dotted(e.func)
            if d in self.calls and not e.keywords:
                return self.calls[d]([self.expr(a) for a in e.args])
            if d in self.calls:
                return self.calls[d]([self.expr(a) for a in e.args], {k.arg: self.expr(k.value) for k in e.keywords})
            raise Refuse(f"call {d}")
        raise Refuse("expression " + type(e).__name__)

    def unify(self, a, at, b, bt):
        if at == bt:
            return a, b, at
        if at == "Z" and bt == "Q":
            return f"(inject_Z {a})", b, "Q"
        if at == "Q" and bt == "Z":
            return a, f"(inject_Z {b})", "Q"
        if at == "Q" and bt == "F":
            return f"(FQ {a})", b, "F"
        if at == "F" and bt == "Q":
            return a, f"(FQ {b})", "F"
        if at == "none" and isinstance(bt, tuple) and bt[0] == "opt":
            return a, b, bt
        if bt == "none" and isinstance(at, tuple) and at[0] == "opt":
            return a, b, at
        raise Refuse(f"cannot unify {at} and {bt}")

    def compare(self, op, le, re_):
        l, lt = self.expr(le)
        r, rt = self.expr(re_)
        if isinstance(op, (ast.Is, ast.IsNot)):
            if rt != "none" or not (isinstance(lt, tuple) and lt[0] == "opt"):
                raise Refuse("is/is not only against None on an option")
            t = f"(match {l} with None => true | Some _ => false end)"
            return (t if isinstance(op, ast.Is) else f"(negb {t})", "bool")
        l, r, ty = self.unify(l, lt, r, rt)
        if ty == "Z":
            m = {ast.Eq: "({l} =? {r})", ast.NotEq: "(negb ({l} =? {r}))", ast.Lt: "({l} <? {r})",
                 ast.LtE: "({l} <=? {r})", ast.Gt: "({r} <? {l})", ast.GtE: "({r} <=? {l})"}
        elif ty == "Q":
            m = {ast.Eq: "(Qeq_bool {l} {r})", ast.NotEq: "(negb (Qeq_bool {l} {r}))",
                 ast.Lt: "(negb (Qle_bool {r} {l}))", ast.LtE: "(Qle_bool {l} {r})",
                 ast.Gt: "(negb (Qle_bool {l} {r}))", ast.GtE: "(Qle_bool {r} {l})"}
        elif ty == "bool":
            m = {ast.Eq: "(eqb {l} {r})", ast.NotEq: "(negb (eqb {l} {r}))"}
        else:
            raise Refuse(f"comparison at type {ty}")
        if type(op) not in m:
            raise Refuse("comparison operator " + type(op).__name__)
        return (m[type(op)].format(l=l, r=r), "bool")

    def binop(self, op, l, lt, r, rt):
        if isinstance(op, ast.Div):
            # python true division of ints/floats: exact rational here, rounding is applied by the caller's model
            if lt == "Z":
                l = f"(inject_Z {l})"
            if rt == "Z":
                r = f"(inject_Z {r})"
            return (f"(Qdiv {l} {r})", "Q")
        l, r, ty = self.unify(l, lt, r, rt)
        if ty == "Z":
            m = {ast.Add: "({l} + {r})", ast.Sub: "({l} - {r})", ast.Mult: "({l} * {r})"}
        elif ty == "Q":
            m = {ast.Add: "(Qplus {l} {r})", ast.Sub: "(Qminus {l} {r})", ast.Mult: "(Qmult {l} {r})"}
        else:
            raise Refuse(f"arithmetic at type {ty}")
        if type(op) not in m:
            raise Refuse("operator " + type(op).__name__)
        return (m[type(op)].format(l=l, r=r), ty)

    # ---- statements: if/elif/else chains ending in return/raise -> nested if-then-else
    def block(self, stmts, ret, on_raise, fallthrough=None):
        """ret(expr_node)->coq text for a return; on_raise(exc_name)->coq text."""
        stmts = strip_doc(stmts)
        if not stmts:
            if fallthrough is None:
                raise Refuse("block falls through")
            return fallthrough
        s, rest = stmts[0], stmts[1:]
        if isinstance(s, ast.Return):
            return ret(s.value)
        if isinstance(s, ast.Raise):
            exc = s.exc
            name = dotted(exc.func) if isinstance(exc, ast.Call) else dotted(exc)
            return on_raise(name)
        if isinstance(s, ast.If):
            c, ct = self.expr(s.test)
            if ct != "bool":
                raise Refuse("if test type")
            after = self.block(rest, ret, on_raise, fallthrough) if rest or fallthrough is not None else None
            a = self.block(s.body, ret, on_raise, after)
            b = self.block(s.orelse, ret, on_raise, after) if s.orelse else after
            if b is None:
                raise Refuse("if without else falls through")
            return f"(if {c} then {a} else {b})"
        if isinstance(s, ast.Pass):
            return self.block(rest, ret, on_raise, fallthrough)
        if isinstance(s, ast.Assign) and len(s.targets) == 1 and isinstance(s.targets[0], ast.Name):
            # straight-line local binding: substitute (no loops, so this is a let)
            val = self.expr(s.value)
            saved = dict(self.env)
            self.env[s.targets[0].id] = val
            try:
                return self.block(rest, ret, on_raise, fallthrough)
            finally:
                self.env = saved
        raise Refuse("statement " + type(s).__name__)
