"""T1 units for the metric table and the overlap formulas (C06, C03, C14)."""
import ast

from harness.translate.main import unit, parse
from harness.translate.pyx import Refuse, Tr, find_func, strip_doc, dotted


# ------------------------------------------------------------------ MetricTable
def _beats(tree, cls):
    f = find_func(tree, "score_beats_threshold", cls)
    body = strip_doc(f.body)
    if len(body) != 1 or not isinstance(body[0], __import__("ast").Return):
        raise Refuse("score_beats_threshold: expected a single return")
    args = [a.arg for a in f.args.args]
    if args != ["self", "matching_score", "matching_threshold"]:
        raise Refuse(f"score_beats_threshold signature {args}")
    if cls == "Metric" and ast.unparse(body[0].value) == "self.value.score_beats_threshold(matching_score, matching_threshold)":
        return _beats(tree, "_Metric")        # the enum member delegates to the _Metric it wraps (same arguments, same order)
    env = {"self.increasing": ("(negb decr)", "bool"), "self.decreasing": ("decr", "bool"),
           "matching_score": ("s", "Q"), "matching_threshold": ("t", "Q")}
    t, ty = Tr(env).expr(body[0].value)
    if ty != "bool":
        raise Refuse("score_beats_threshold does not return a bool")
    return t


@unit("MetricTable", "panoptica/metrics/metrics.py")
def metric_table():
    tree = parse("panoptica/metrics/metrics.py")
    flags = {}
    for n in tree.body:
        if isinstance(n, ast.ClassDef) and n.name == "Metric":
            for s in n.body:
                if isinstance(s, ast.Assign) and isinstance(s.value, ast.Call) and getattr(s.value.func, "id", None) == "_Metric":
                    a = s.value.args
                    if len(a) != 4 or not isinstance(a[2], ast.Constant) or not isinstance(a[2].value, bool):
                        raise Refuse("_Metric(...) argument shape")
                    if a[0].value != s.targets[0].id:
                        raise Refuse("metric name differs from member name")
                    flags[s.targets[0].id] = (a[2].value, dotted(a[3]))
    if not flags:
        raise Refuse("no Metric members found")
    # `increasing` must be the negation of `decreasing` in both classes
    for cls in ("_Metric", "Metric"):
        f = find_func(tree, "increasing", cls)
        b = strip_doc(f.body)
        if len(b) != 1 or not isinstance(b[0], ast.Return):
            raise Refuse("increasing shape")
        src = ast.unparse(b[0].value)
        if src not in ("not self.decreasing", "self.value.increasing"):
            raise Refuse("increasing is not `not self.decreasing`: " + src)
    out = ["From Pan Require Import Model.MetricTable."]
    out.append(f"Definition gen_beats_Metric (decr : bool) (s t : Q) : bool := {_beats(tree, 'Metric')}.")
    out.append(f"Definition gen_beats__Metric (decr : bool) (s t : Q) : bool := {_beats(tree, '_Metric')}.")
    out.append("Definition gen_decreasing (m : metric) : bool := match m with "
               + " | ".join(f"{k} => {str(v[0]).lower()}" for k, v in flags.items()) + " end.")
    out.append("Definition gen_metric_function : list (metric * list Z) := ["
               + "; ".join(f"({k}, [{'; '.join(str(ord(c)) for c in v[1])}])" for k, v in flags.items()) + "].")
    return "\n".join(out) + "\n"


# ------------------------------------------------------------------ MetricFormulas
def _formula(rel, fname, ref_name, pred_name):
    """Body of a mask-level metric function as a rational function of four counts:
    sr = np.sum(reference), sp = np.sum(prediction), ni = #(ref and pred), nu = #(ref or pred).
    Result: (zero-branch condition -> 0.0, otherwise the exact quotient; rounding is one IEEE division)."""
    tree = parse(rel)
    f = find_func(tree, fname)
    names = [a.arg for a in f.args.args]
    if names[:2] != [ref_name, pred_name]:
        raise Refuse(f"{fname} signature {names}")

    def np_sum(args, kw=None):
        (t, ty), = args
        m = {"REF": "sr", "PRED": "sp", "AND": "ni", "OR": "nu"}
        if ty != "arr" or t not in m:
            raise Refuse("np.sum of " + t)
        return (m[t], "Z")

    def count_nonzero(args, kw=None):
        # equals np.sum only for BOOLEAN arrays (the results of logical_and / logical_or), not for the label arrays themselves
        (t, ty), = args
        m = {"AND": "ni", "OR": "nu"}
        if ty != "arr" or t not in m:
            raise Refuse("np.count_nonzero of " + t)
        return (m[t], "Z")

    def logical(kind):
        def g(args, kw=None):
            if sorted(t for t, _ in args) != ["PRED", "REF"]:
                raise Refuse("logical op on " + str(args))
            return (kind, "arr")
        return g

    def to_float(args, kw=None):
        (t, ty), = args
        if ty != "Z":
            raise Refuse("float() of non-int")
        return (f"(inject_Z {t})", "Q")

    tr = Tr({ref_name: ("REF", "arr"), pred_name: ("PRED", "arr")},
            {"np.sum": np_sum, "np.count_nonzero": count_nonzero, "np.logical_and": logical("AND"), "np.logical_or": logical("OR"), "float": to_float})

    def ret(e):
        t, ty = tr.expr(e)
        if ty == "Z":
            t = f"(inject_Z {t})"
        elif ty != "Q":
            raise Refuse("return type " + str(ty))
        return t
    return tr.block(f.body, ret, lambda n: (_ for _ in ()).throw(Refuse("raise in formula")))


@unit("MetricFormulas", "panoptica/metrics/{dice,iou,relative_volume_difference}.py")
def metric_formulas():
    out = ["From Pan Require Import Base.Common."]
    for nm, rel, fn, r, p in [
        ("dice", "panoptica/metrics/dice.py", "_compute_dice_coefficient", "reference", "prediction"),
        ("iou", "panoptica/metrics/iou.py", "_compute_iou", "reference_arr", "prediction_arr"),
        ("rvd", "panoptica/metrics/relative_volume_difference.py", "_compute_relative_volume_difference", "reference", "prediction"),
    ]:
        out.append(f"Definition gen_{nm} (sr sp ni nu : Z) : Q := {_formula(rel, fn, r, p)}.")
    # instance wrappers: with both indices None they must pass the arrays through unchanged
    for rel, fn, inner in [
        ("panoptica/metrics/dice.py", "_compute_instance_volumetric_dice", "_compute_dice_coefficient"),
        ("panoptica/metrics/iou.py", "_compute_instance_iou", "_compute_iou"),
        ("panoptica/metrics/relative_volume_difference.py", "_compute_instance_relative_volume_difference", "_compute_relative_volume_difference"),
    ]:
        f = find_func(parse(rel), fn)
        b = strip_doc(f.body)
        if not (b and isinstance(b[0], ast.If)):
            raise Refuse(fn + " shape")
        cond = ast.unparse(b[0].test)
        if cond != "ref_instance_idx is None and pred_instance_idx is None":
            raise Refuse(fn + " guard: " + cond)
        r0 = b[0].body[0]
        if not (isinstance(r0, ast.Return) and isinstance(r0.value, ast.Call) and dotted(r0.value.func) == inner):
            raise Refuse(fn + " passthrough")
        a = f.args.args
        kws = {k.arg: ast.unparse(k.value) for k in r0.value.keywords}
        pos = [ast.unparse(x) for x in r0.value.args]
        innerf = find_func(parse(rel), inner)
        pn = [x.arg for x in innerf.args.args][:2]
        got = [kws.get(pn[0], pos[0] if pos else None), kws.get(pn[1], pos[1] if len(pos) > 1 else None)]
        if got != [a[0].arg, a[1].arg]:
            raise Refuse(fn + " passes " + str(got))
    return "\n".join(out) + "\n"

