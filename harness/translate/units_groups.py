"""T1 unit for class groups (C12): label extraction, undefined-label check, per-group dispatch."""
import ast
from harness.translate.normalize import body_differs

from harness.translate.main import unit, parse
from harness.translate.pyx import Refuse, Tr, find_func, strip_doc, dotted


@unit("Groups", "panoptica/utils/label_group.py, panoptica/utils/segmentation_class.py, panoptica/panoptica_evaluator.py")
def groups():
    lg = parse("panoptica/utils/label_group.py")
    out = ["From Pan Require Import Base.Common."]
    f = find_func(lg, "extract_label", "LabelGroup")
    b = [ast.unparse(s) for s in strip_doc(f.body)]
    want = ["array = array.copy()", "array[np.isin(array, self.value_labels, invert=True)] = 0",
            "if set_to_binary:\n    array[array != 0] = 1", "return array"]
    if b != want:
        raise Refuse("extract_label: " + str(b))
    out.append("Definition gen_extract (inls binar : bool) (x : Z) : Z := if inls then (if binar then (if x =? 0 then 0 else 1) else x) else 0.")
    for cls, flag in (("LabelGroup", "False"), ("LabelMergeGroup", "True")):
        c = find_func(lg, "__call__", cls)
        src = ast.unparse(strip_doc(c.body)[0])
        if src != f"return self.extract_label(array, set_to_binary={flag})":
            raise Refuse(f"{cls}.__call__: {src}")
    out.append("Definition gen_binar (is_merge_group : bool) : bool := is_merge_group.")
    init = ast.unparse(find_func(lg, "__init__", "LabelGroup"))
    for need in ["assert all((v > 0 for v in self.__value_labels))", "value_labels = sorted(set(value_labels))",
                 "assert not self.__single_instance or len(value_labels) == 1"]:     # normalised spelling of `if single: assert ..`
        if need not in init:
            raise Refuse("LabelGroup.__init__: missing " + need.split("\n")[0])
    anyc = find_func(lg, "__call__", "_LabelGroupAny")
    if body_differs(anyc, ["array = array.copy()", "return array"]):
        raise Refuse("_LabelGroupAny.__call__")
    sc = parse("panoptica/utils/segmentation_class.py")
    h = find_func(sc, "has_defined_labels_for", "SegmentationClassGroups")
    hs = ast.unparse(h)
    for need in ["arr_labels = arr if isinstance(arr, list) else [i for i in np.unique(arr) if i != 0]", "for al in arr_labels:\n        if al not in self.labels:\n            if raise_error:\n                raise AssertionError("]:
        if need not in hs:
            raise Refuse("has_defined_labels_for: missing " + need.split("\n")[0])
    if "labels = [value_label for lg in self.__group_dictionary.values() for value_label in lg.value_labels]" not in ast.unparse(find_func(sc, "__init__", "SegmentationClassGroups")):
        raise Refuse("SegmentationClassGroups labels")
    ini = find_func(sc, "__init__", "SegmentationClassGroups")
    inis = [ast.unparse(x) for x in ini.body]
    lab = "labels = [value_label for lg in self.__group_dictionary.values() for value_label in lg.value_labels]"
    # the label list is taken from the dictionary AFTER it was built (keys that fold to one name keep one group), stored unchanged,
    # and nothing else assigns self.__labels (besides the empty initialisation before the dictionary is filled)
    if lab not in inis or "self.__labels = labels" not in inis or inis.index("self.__labels = labels") < inis.index(lab):
        raise Refuse("SegmentationClassGroups.__init__: self.__labels is not the label list of the built dictionary")
    built = max(i for i, x in enumerate(inis) if "__group_dictionary" in x and i != inis.index(lab))
    if built > inis.index(lab):
        raise Refuse("SegmentationClassGroups.__init__: the dictionary changes after the labels were collected")
    empty = ("self.__labels = []", "self.__labels: list[int] = []")
    for x in ini.body:
        for n in ast.walk(x):
            if isinstance(n, ast.Attribute) and n.attr.endswith("__labels") and isinstance(n.ctx, ast.Store) \
                    and ast.unparse(x) not in empty + ("self.__labels = labels",):
                raise Refuse("SegmentationClassGroups.__init__: another store to self.__labels")
    prop = ast.unparse(find_func(sc, "labels", "SegmentationClassGroups"))
    if "return self.__labels" not in prop:
        raise Refuse("SegmentationClassGroups.labels")
    out.append("(* self.__labels: the value labels of the groups in the built dictionary, in dictionary order *)")
    out.append("Definition gen_ctor_labels (d : list (list Z * list Z)) : list Z := flat_map (fun ng => snd ng) d.")
    ev = parse("panoptica/panoptica_evaluator.py")
    e = ast.unparse(find_func(ev, "evaluate", "Panoptica_Evaluator"))
    for need in ["self.__segmentation_class_groups.has_defined_labels_for(processing_pair.prediction_arr, raise_error=True)",
                 "self.__segmentation_class_groups.has_defined_labels_for(processing_pair.reference_arr, raise_error=True)",
                 "for group_name, label_group in self.__segmentation_class_groups.items():"]:
        if need not in e:
            raise Refuse("evaluate: missing " + need[:60])
    g = find_func(ev, "_evaluate_group", "Panoptica_Evaluator")
    gs = ast.unparse(g)
    # the group's single-instance flag, read directly in the test or through a name bound once to it
    flag = "single_instance_mode" if "single_instance_mode = label_group.single_instance" in gs else "label_group.single_instance"
    if flag == "single_instance_mode" and sum(1 for n in ast.walk(g) if isinstance(n, ast.Name) and n.id == flag and isinstance(n.ctx, ast.Store)) != 1:
        raise Refuse("_evaluate_group: single_instance_mode is rebound")
    for need in ["prediction_arr_grouped = label_group(processing_pair.prediction_arr)", "reference_arr_grouped = label_group(processing_pair.reference_arr)",
                 "decision_threshold = self.__decision_threshold", "decision_threshold=decision_threshold"]:
        if need not in gs:
            raise Refuse("_evaluate_group: missing " + need[:60])
    ifs = [n for n in g.body if isinstance(n, ast.If) and flag in ast.unparse(n.test)]
    if len(ifs) != 1:
        raise Refuse("single-instance branch")
    body = [ast.unparse(s) for s in ifs[0].body]
    if body != ["processing_pair_grouped = MatchedInstancePair(prediction_arr=processing_pair_grouped.prediction_arr, reference_arr=processing_pair_grouped.reference_arr)",
                "decision_threshold = 0.0 if self.__decision_metric is None or self.__decision_metric.increasing else np.inf"]:
        raise Refuse("single-instance body " + str(body))

    def isinst(args, kw=None):
        return ("matched", "bool")
    tr = Tr({flag: ("single", "bool")}, {"isinstance": isinst})
    test = ifs[0].test
    src = ast.unparse(test)
    if src != flag + " and (not isinstance(processing_pair, MatchedInstancePair))":
        raise Refuse("single-instance test " + src)
    out.append("Definition gen_use_single (single matched : bool) : bool := single && negb matched.")
    out.append("(* forced decision threshold in single-instance mode: None = +inf *)")
    out.append("Definition gen_single_threshold (no_metric increasing : bool) : option Q := if no_metric || increasing then Some 0%Q else None.")
    return "\n".join(out) + "\n"
