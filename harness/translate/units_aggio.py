"""T1 unit for the aggregator's file helpers (C16, C17, C18): rows are written and read through the csv module with the same
dialect, names are compared as read back (first column of the parsed rows), writes append."""
import ast

from harness.translate.main import unit, parse
from harness.translate.pyx import Refuse, find_func, strip_doc
from harness.translate.normalize import body_differs


def _body(tree, name):
    return [ast.unparse(s) for s in strip_doc(find_func(tree, name).body)]


@unit("AggIO", "panoptica/panoptica_aggregator.py")
def agg_io():
    tree = parse("panoptica/panoptica_aggregator.py")
    head = "if isinstance(file, Path):\n    file = str(file)"
    rd = "rd = csv.reader(tsvfile, delimiter='\\t', lineterminator='\\n')"
    fn = find_func(tree, "_load_first_column_entries")
    want = [head,
            "with open(str(file), 'r', encoding='utf8', newline='') as tsvfile:\n    " + rd + "\n    rows = [row for row in rd]\n"
            "    if skip_header:\n        rows = rows[1:]\n    if len(rows) == 0:\n        id_list = []\n    else:\n        id_list = list([row[0] for row in rows])",
            "n_id = len(id_list)", "assert n_id == len(list(set(id_list))), 'file has duplicate entries!'", "return id_list"]
    if body_differs(fn, want):
        raise Refuse("_load_first_column_entries: " + str(body_differs(fn, want))[:300])
    fn = find_func(tree, "_read_first_row")
    want = [head,
            "with open(str(file), 'r', encoding='utf8', newline='') as tsvfile:\n    " + rd + "\n    rows = [row for row in rd]\n"
            "    if len(rows) == 0:\n        row = []\n    else:\n        row = rows[0]", "return row"]
    # the same value computed after the file is closed (the rows are a local list by then)
    want_after = [head, "with open(str(file), 'r', encoding='utf8', newline='') as tsvfile:\n    " + rd + "\n    rows = [row for row in rd]",
                  "return rows[0] if len(rows) > 0 else []"]
    if body_differs(fn, want) and body_differs(fn, want_after):
        raise Refuse("_read_first_row: " + str(body_differs(fn, want))[:300])
    fn = find_func(tree, "_write_content")
    want = [head,
            "with open(str(file), 'a', encoding='utf8', newline='') as tsvfile:\n    writer = csv.writer(tsvfile, delimiter='\\t', lineterminator='\\n')\n"
            "    for c in content:\n        writer.writerow(c)"]
    # csv's writerows is the loop over writerow
    want_rows = [head, want[1].replace("    for c in content:\n        writer.writerow(c)", "    writer.writerows(content)")]
    if body_differs(fn, want) and body_differs(fn, want_rows):
        raise Refuse("_write_content: " + str(body_differs(fn, want))[:300])
    out = ["From Pan Require Import Base.Common.",
           "(* rows are written and parsed by the csv module with delimiter TAB (9) and line terminator LF (10); writes append *)",
           "Definition gen_delimiter : Z := 9.", "Definition gen_lineterminator : Z := 10.",
           "Definition gen_write_appends : bool := true.",
           "(* the claimed / recorded names are the first cells of the PARSED rows; duplicates are rejected *)",
           "Definition gen_names_are_first_parsed_cells : bool := true.", "Definition gen_duplicates_rejected : bool := true."]
    return "\n".join(out) + "\n"
