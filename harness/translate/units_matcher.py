"""T1 units for the matchers (C03, C14, C04): loop bodies as decision functions, the label-map
predicates, the sort call, the integer pair code, fresh-label allocation."""
import ast

from harness.translate.main import unit, parse
from harness.translate.pyx import Refuse, Tr, find_func, strip_doc, dotted
from harness.translate.normalize import fold, body_differs


def _ilm_pred(tree, name):
    """InstanceLabelMap.contains_or / contains_and as a boolean function of (pred_in, ref_in)."""
    f = find_func(tree, name, "InstanceLabelMap")
    body = strip_doc(f.body)
    # (normalised spelling: `True if x is None else x in m` is written `x is None or x in m`)
    PIN, RIN = "pred_label is None or pred_label in self.labelmap", "ref_label is None or ref_label in self.labelmap.values()"
    # the two membership tests may be bound to names first or written where they are used, and the result may be returned through
    # early returns (`if not pred_in: return False`): the body is read as a decision tree over (pred_in, ref_in); both tests are pure
    tr = Tr({"pred_in": ("pin", "bool"), "ref_in": ("rin", "bool")})

    def interp(stmts):
        if not stmts:
            raise Refuse(name + ": a path ends without a return")
        st, _ = fold(stmts[0], {PIN: "pred_in", RIN: "ref_in"})
        if isinstance(st, ast.Return) and st.value is not None:
            t, ty = tr.expr(st.value)
            if ty != "bool":
                raise Refuse(name + " type")
            return t
        if isinstance(st, ast.Assign) and len(st.targets) == 1 and isinstance(st.targets[0], ast.Name) and isinstance(st.value, ast.Name) \
                and st.targets[0].id == st.value.id and st.value.id in ("pred_in", "ref_in"):
            return interp(stmts[1:])
        if isinstance(st, ast.If):
            c, ty = tr.expr(st.test)
            if ty != "bool":
                raise Refuse(name + " test type")
            return f"(if {c} then {interp(list(stmts[0].body))} else {interp(list(stmts[0].orelse) + list(stmts[1:]))})"
        raise Refuse(name + " body: " + ast.unparse(stmts[0])[:80])
    t = interp(list(body))
    if [a.arg for a in f.args.args] != ["self", "pred_label", "ref_label"]:
        raise Refuse(name + " signature")
    return t


@unit("MatcherLoop", "panoptica/instance_matcher.py, panoptica/utils/instancelabelmap.py, panoptica/_functionals.py")
def matcher_loop():
    ilm = parse("panoptica/utils/instancelabelmap.py")
    out = ["From Pan Require Import Base.Common."]
    out.append(f"Definition gen_contains_or (pin rin : bool) : bool := {_ilm_pred(ilm, 'contains_or')}.")
    out.append(f"Definition gen_contains_and (pin rin : bool) : bool := {_ilm_pred(ilm, 'contains_and')}.")
    for nm, want in [("contains_pred", "return pred_label in self.labelmap"), ("contains_ref", "return ref_label in self.labelmap.values()"),
                     ("get_pred_labels_matched_to_ref", "return [k for k, v in self.labelmap.items() if v == ref_label]"),
                     ("get_one_to_one_dictionary", "return self.labelmap")]:
        f = find_func(ilm, nm, "InstanceLabelMap")
        if ast.unparse(strip_doc(f.body)[0]) != want:
            raise Refuse(nm + ": " + ast.unparse(strip_doc(f.body)[0]))
    # add_labelmap_entry: raises iff some p is mapped to another reference; then stores
    f = find_func(ilm, "add_labelmap_entry", "InstanceLabelMap")
    loop = [s for s in f.body if isinstance(s, ast.For)]
    if len(loop) != 1 or ast.unparse(loop[0].iter) != "pred_labels":
        raise Refuse("add_labelmap_entry loop")
    lb = loop[0].body
    if not (len(lb) == 2 and isinstance(lb[0], ast.If) and ast.unparse(lb[0].test) == "p in self.labelmap and self.labelmap[p] != ref_label"
            and isinstance(lb[0].body[0], ast.Raise) and ast.unparse(lb[1]) == "self.labelmap[p] = ref_label"):
        raise Refuse("add_labelmap_entry body")
    if [a.arg for a in f.args.args] != ["self", "pred_labels", "ref_label"]:
        raise Refuse("add_labelmap_entry signature")

    mt = parse("panoptica/instance_matcher.py")
    # ---- naive loop
    f = find_func(mt, "_match_instances", "NaiveThresholdMatching")
    loops = [s for s in f.body if isinstance(s, ast.For)]
    if len(loops) != 1:
        raise Refuse("naive loop count")
    lp = loops[0]
    if ast.unparse(lp.target) != "(matching_score, (ref_label, pred_label))":
        raise Refuse("naive loop header " + ast.unparse(lp.target))
    how = _candidates(f, lp, "naive")
    calls = {
        # contains_or(pred, ref) is gen_contains_or of the two memberships that contains_pred / contains_ref return
        "labelmap.contains_or": lambda a, k=None: _args(a, ["p", "r"], ("(gen_contains_or cp cr)", "bool")),
        "labelmap.contains_pred": lambda a, k=None: _args(a, ["p"], ("cp", "bool")),
        "labelmap.contains_ref": lambda a, k=None: _args(a, ["r"], ("cr", "bool")),
        "self._matching_metric.score_beats_threshold": lambda a, k=None: _args(a, ["s", "thr"], ("beat", "bool")),
    }
    env = {"pred_label": ("p", "lab"), "ref_label": ("r", "lab"), "matching_score": ("s", "sc"),
           "self._matching_threshold": ("thr", "sc"), "self._allow_many_to_one": ("m2o", "bool")}
    out.append("Inductive gen_action := GSkip | GAdd | GNone.")
    out.append("(* cp = contains_pred(pred_label), cr = contains_ref(ref_label) *)")
    out.append("Definition gen_naive_step (m2o cp cr beat : bool) : gen_action := " + _loop_body(lp.body, Tr(env, calls)) + ".")
    # what comes before the loop: candidates computed by _calc_matching_metric_of_overlapping_labels(pred, ref, ref_labels, metric)
    src = ast.unparse(f)
    if how == "named" and "pred_arr, ref_arr = (unmatched_instance_pair.prediction_arr, unmatched_instance_pair.reference_arr)" not in src:
        raise Refuse("naive arrays")
    # ---- merge loop
    f = find_func(mt, "_match_instances", "MaximizeMergeMatching")
    loops = [s for s in f.body if isinstance(s, ast.For)]
    lp = loops[0]
    if ast.unparse(lp.target) != "(matching_score, (ref_label, pred_label))":
        raise Refuse("merge loop header")
    _candidates(f, lp, "merge")
    out.append("Inductive gen_maction := MSkip | MMerge | MSeed | MNone.")
    out.append("Definition gen_merge_step (decr : bool) (cp cr beat : bool) (new_better_eq new_eq : bool) : gen_maction := "
               + _merge_body(lp.body) + ".")
    g = find_func(mt, "new_combination_score", "MaximizeMergeMatching")
    want = ["pred_labels.append(new_pred_label)",
            "score = self._matching_metric(unmatched_instance_pair.reference_arr, prediction_arr=unmatched_instance_pair.prediction_arr, ref_instance_idx=ref_label, pred_instance_idx=pred_labels)",
            "return score"]
    if body_differs(g, want):
        raise Refuse("new_combination_score: " + str(body_differs(g, want)))
    # ---- sort call and candidate scores
    fn = parse("panoptica/_functionals.py")
    f = find_func(fn, "_calc_matching_metric_of_overlapping_labels")
    src = ast.unparse(f)
    if "return sorted(mm_pairs, key=lambda x: x[0], reverse=not matching_metric.decreasing)" not in src \
            and "mm_pairs = sorted(mm_pairs, key=lambda x: x[0], reverse=not matching_metric.decreasing)\n    return mm_pairs" not in src \
            and "mm_pairs.sort(key=lambda x: x[0], reverse=not matching_metric.decreasing)\n    return mm_pairs" not in src:
        raise Refuse("sort call")       # list.sort and sorted are the same stable sort
    if "mm_values = pool.starmap(matching_metric.value, instance_pairs)" not in src:
        raise Refuse("starmap call")
    call_ = "_calc_overlapping_labels(prediction_arr=prediction_arr, reference_arr=reference_arr, ref_labels=ref_labels)"
    # one scoring task per overlapping pair, (reference label, prediction label) in this order (either spelling of the unpacking)
    if f"instance_pairs = [(reference_arr, prediction_arr, i[0], i[1]) for i in {call_}]" not in src \
            and f"instance_pairs = [(reference_arr, prediction_arr, ref_label, pred_label) for ref_label, pred_label in {call_}]" not in src:
        raise Refuse("instance_pairs")
    # the scores are paired with the labels of the SAME candidate, in candidate order (either spelling)
    import re
    if "mm_pairs = [(i, (instance_pairs[idx][2], instance_pairs[idx][3])) for idx, i in enumerate(mm_values)]" not in src \
            and not re.search(r"mm_pairs = \[\((\w+), \((\w+)\[2\], \2\[3\]\)\) for \1, \2 in zip\(mm_values, instance_pairs\)\]", src):
        raise Refuse("mm_pairs")
    out.append("Definition gen_sort_best_first_stable : bool := true.")
    # ---- pair code
    f = find_func(fn, "_calc_overlapping_labels")
    want = ["overlap_arr = prediction_arr.astype(np.uint64)", "max_ref = int(max(ref_labels)) + 1",
            "overlap_arr = overlap_arr * max_ref + reference_arr", "overlap_arr[reference_arr == 0] = 0",
            "return [(int(i) % max_ref, int(i) // max_ref) for i in np.unique(overlap_arr) if i > max_ref]"]
    # the decoding must be done on Python integers: `i % max_ref` on the np.uint64 scalar is float64 arithmetic in numpy 1.x (inexact
    # beyond 2^53, defect D20), and only int(i) % max_ref is the Z.modulo / Z.div that gen_decode states
    if body_differs(f, want):
        raise Refuse("_calc_overlapping_labels: " + str(body_differs(f, want)))
    out.append("Definition gen_code_width : Z := 64.")
    out.append("Definition gen_code (p r maxref : Z) : Z := if r =? 0 then 0 else p * (maxref + 1) + r.")
    out.append("Definition gen_decode (i maxref : Z) : Z * Z := (i mod (maxref + 1), i / (maxref + 1)).")
    out.append("Definition gen_keep (i maxref : Z) : bool := (maxref + 1) <? i.")
    # ---- map_instance_labels: fresh labels
    f = find_func(mt, "map_instance_labels")
    src = ast.unparse(f)
    need = ["label_counter = int(max(ref_labels)) + 1", "pred_labelmap = labelmap.get_one_to_one_dictionary()",
            "missed_pred_labels = [p for p in pred_labels if p not in pred_labelmap]",
            "for p in missed_pred_labels:\n        pred_labelmap[p] = label_counter\n        label_counter += 1",
            "prediction_arr_relabeled = _map_labels(prediction_arr, pred_labelmap)"]
    alt = {"for p in missed_pred_labels:\n        pred_labelmap[p] = label_counter\n        label_counter += 1":
           "for new_label, p in enumerate(missed_pred_labels, start=label_counter):\n        pred_labelmap[p] = new_label"}
    for n in need:
        if n not in src and not (n in alt and alt[n] in src):
            raise Refuse("map_instance_labels: missing `" + n.split("\n")[0] + "`")
    out.append("Definition gen_fresh_start (maxref : Z) : Z := maxref + 1.")
    f = find_func(fn, "_map_labels")
    want = ["max_value = max(int(arr.max()), int(max(label_map.keys())), int(max(label_map.values()))) + 1",
            "dtype = np.promote_types(arr.dtype, np.min_scalar_type(max_value))",
            "k = np.array(list(label_map.keys()), dtype=dtype)", "v = np.array(list(label_map.values()), dtype=dtype)",
            "mapping_ar = np.arange(max_value, dtype=dtype)", "mapping_ar[k] = v", "return mapping_ar[arr]"]
    if body_differs(f, want):
        raise Refuse("_map_labels: " + str(body_differs(f, want)))
    out.append("Definition gen_map_labels_is_lut_in_wide_dtype : bool := true.")
    return "\n".join(out) + "\n"


def _candidates(f, lp, which):
    """the loop runs over _calc_matching_metric_of_overlapping_labels(pred_arr, ref_arr, ref_labels, matching_metric=self._matching_metric),
    written in the loop header or bound to a name (once) before the loop"""
    it = lp.iter
    if isinstance(it, ast.Name):
        defs = [s for s in ast.walk(f) if isinstance(s, ast.Assign) and any(isinstance(t, ast.Name) and t.id == it.id for t in s.targets)]
        if len(defs) != 1:
            raise Refuse(which + " candidates are rebound")
        it = defs[0].value
    if not (isinstance(it, ast.Call) and ast.unparse(it.func) == "_calc_matching_metric_of_overlapping_labels"):
        raise Refuse(which + " candidates call")
    names = ["prediction_arr", "reference_arr", "ref_labels", "matching_metric"]
    got = {names[i]: ast.unparse(a) for i, a in enumerate(it.args)}
    got.update({k.arg: ast.unparse(k.value) for k in it.keywords})
    direct = {"prediction_arr": "unmatched_instance_pair.prediction_arr", "reference_arr": "unmatched_instance_pair.reference_arr"}
    named = {"prediction_arr": "pred_arr", "reference_arr": "ref_arr"}
    rest = {"ref_labels": "ref_labels", "matching_metric": "self._matching_metric"}
    if got == {**direct, **rest}:
        return "direct"
    if got != {**named, **rest}:
        raise Refuse(which + " candidates call arguments " + str(got))
    return "named"


def _args(args, want, result):
    if [t for t, _ in args] != want:
        raise Refuse(f"call arguments {[t for t, _ in args]} expected {want}")
    return result


def _loop_body(stmts, tr):
    """if-chains with `continue` and labelmap.add_labelmap_entry(pred_label, ref_label)"""
    stmts = strip_doc(stmts)
    if not stmts:
        return "GNone"
    s, rest = stmts[0], stmts[1:]
    if isinstance(s, ast.Continue):
        return "GSkip"
    if isinstance(s, ast.Expr) and isinstance(s.value, ast.Call) and dotted(s.value.func) == "labelmap.add_labelmap_entry":
        if [ast.unparse(a) for a in s.value.args] != ["pred_label", "ref_label"] or rest:
            raise Refuse("add_labelmap_entry call")
        return "GAdd"
    if isinstance(s, ast.If):
        c, ty = tr.expr(s.test)
        a = _loop_body(s.body, tr)
        if s.orelse:
            b = _loop_body(s.orelse, tr)
            if rest:
                raise Refuse("statements after if/else")
        else:
            b = _loop_body(rest, tr)
            if a == "GNone" or (a != "GSkip" and rest):
                # the then-branch falls through into the rest
                raise Refuse("fall-through branch")
        return f"(if {c} then {a} else {b})"
    if isinstance(s, ast.Assign) and len(s.targets) == 1 and isinstance(s.targets[0], ast.Name) and rest:
        # a local name for a (pure) condition: substituted into the rest of the body
        name = s.targets[0].id
        if name in tr.env:
            raise Refuse("loop body re-assigns " + name)
        t, ty = tr.expr(s.value)
        if ty != "bool":
            raise Refuse("local assignment of a non-boolean in the loop body")
        tr.env[name] = (f"({t})", ty)
        try:
            return _loop_body(rest, tr)
        finally:
            del tr.env[name]
    raise Refuse("loop statement " + type(s).__name__)


def _merge_body(stmts):
    """the merge loop: continue / contains_ref branch with strict direction-aware improvement / seed branch"""
    stmts = strip_doc(stmts)
    if len(stmts) != 2 or not all(isinstance(s, ast.If) for s in stmts):
        raise Refuse("merge loop shape")
    s0, s1 = stmts
    if ast.unparse(s0.test) != "labelmap.contains_pred(pred_label=pred_label)" or not isinstance(strip_doc(s0.body)[0], ast.Continue):
        raise Refuse("merge skip branch")
    if ast.unparse(s1.test) != "labelmap.contains_ref(ref_label)":
        raise Refuse("merge ref branch")
    body = strip_doc(s1.body)
    b0 = [ast.unparse(s) for s in body[:2]]
    if b0 != ["pred_labels_ = labelmap.get_pred_labels_matched_to_ref(ref_label)",
              "new_score = self.new_combination_score(pred_labels_, pred_label, ref_label, unmatched_instance_pair)"]:
        raise Refuse("merge prologue " + str(b0))
    cond = body[2]
    if not (isinstance(cond, ast.If) and not cond.orelse):
        raise Refuse("merge accept test")
    acc = [ast.unparse(s) for s in cond.body]
    if acc != ["labelmap.add_labelmap_entry(pred_label, ref_label)", "score_ref[ref_label] = new_score"]:
        raise Refuse("merge accept body " + str(acc))

    def beats(args, kw=None):
        if [t for t, _ in args] != ["new", "old"]:
            raise Refuse("merge score_beats_threshold args " + str(args))
        return ("new_better_eq", "bool")
    src = ast.unparse(cond.test).replace("score_ref[ref_label]", "OLD__")
    tr = Tr({"new_score": ("new", "sc"), "OLD__": ("old", "sc")}, {"self._matching_metric.score_beats_threshold": beats})
    # comparisons new != old / new == old on scores become the boolean new_eq
    test = ast.parse(src, mode="eval").body
    t = _score_bool(test, tr)
    if len(s1.orelse) != 1 or not isinstance(s1.orelse[0], ast.If):
        raise Refuse("merge seed branch")
    sd = s1.orelse[0]
    if ast.unparse(sd.test) != "self._matching_metric.score_beats_threshold(matching_score, self._matching_threshold)" or sd.orelse:
        raise Refuse("merge seed test")
    sb = [ast.unparse(s) for s in strip_doc(sd.body)]
    if sb != ["labelmap.add_labelmap_entry(pred_label, ref_label)", "score_ref[ref_label] = matching_score"]:
        raise Refuse("merge seed body")
    return f"(if cp then MSkip else (if cr then (if {t} then MMerge else MNone) else (if beat then MSeed else MNone)))"


def _score_bool(e, tr):
    if isinstance(e, ast.BoolOp):
        op = " && " if isinstance(e.op, ast.And) else " || "
        return "(" + op.join(_score_bool(v, tr) for v in e.values) + ")"
    if isinstance(e, ast.UnaryOp) and isinstance(e.op, ast.Not):
        return f"(negb {_score_bool(e.operand, tr)})"
    if isinstance(e, ast.Compare) and len(e.ops) == 1:
        l, r = ast.unparse(e.left), ast.unparse(e.comparators[0])
        if {l, r} == {"new_score", "OLD__"}:
            if isinstance(e.ops[0], ast.NotEq):
                return "(negb new_eq)"
            if isinstance(e.ops[0], ast.Eq):
                return "new_eq"
            # a bare > or < ignores the metric's direction: express it through the direction flag
            gt_new = (isinstance(e.ops[0], ast.Gt) and l == "new_score") or (isinstance(e.ops[0], ast.Lt) and r == "new_score")
            lt_new = (isinstance(e.ops[0], ast.Lt) and l == "new_score") or (isinstance(e.ops[0], ast.Gt) and r == "new_score")
            if gt_new:   # new > old: strictly better iff the metric is increasing
                return "(if decr then (negb new_better_eq) else (new_better_eq && negb new_eq))"
            if lt_new:
                return "(if decr then (new_better_eq && negb new_eq) else (negb new_better_eq))"
        raise Refuse("score comparison " + ast.unparse(e))
    t, ty = tr.expr(e)
    if ty != "bool":
        raise Refuse("merge test type")
    return t
