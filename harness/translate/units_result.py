"""T1 units: edge case handling, result calculators, zero-instance early exit, tp/decision filter
(C08, C13, C02, C01)."""
import ast

from harness.translate.main import unit, parse
from harness.translate.pyx import Refuse, Tr, find_func, strip_doc, dotted


def dn(e):
    """dotted name of a call target, None for computed targets such as (a != 0).astype"""
    try:
        return dotted(e)
    except Refuse:
        return None

ECR = ["INF", "NAN", "ZERO", "ONE", "NONE"]
SCEN = ["NO_INSTANCES", "EMPTY_PRED", "EMPTY_REF", "NORMAL"]
METRICS = ["DSC", "IOU", "ASSD", "clDSC", "RVD"]


def _class(tree, name):
    for n in tree.body:
        if isinstance(n, ast.ClassDef) and n.name == name:
            return n
    raise Refuse(f"class {name} not found")


def _enum_members(tree, name):
    out = []
    for s in _class(tree, name).body:
        if isinstance(s, ast.Assign) and len(s.targets) == 1 and isinstance(s.targets[0], ast.Name):
            if isinstance(s.value, ast.Call) and dotted(s.value.func) == "auto":
                out.append(s.targets[0].id)
    return out


@unit("EdgeCase", "panoptica/utils/edge_case_handling.py")
def edge_case():
    tree = parse("panoptica/utils/edge_case_handling.py")
    out = ["From Pan Require Import Base.Common Base.Sx Model.MetricTable Model.EdgeCase."]
    if _enum_members(tree, "EdgeCaseResult") != ECR:
        raise Refuse("EdgeCaseResult members " + str(_enum_members(tree, "EdgeCaseResult")))
    if _enum_members(tree, "EdgeCaseZeroTP") != SCEN:
        raise Refuse("EdgeCaseZeroTP members")
    # --- EdgeCaseResult.__call__ value table
    f = find_func(tree, "__call__", "EdgeCaseResult")
    b = strip_doc(f.body)
    if len(b) == 2 and isinstance(b[0], ast.If) and isinstance(b[0].test, ast.Compare) and len(b[0].test.comparators) == 1 \
            and isinstance(b[0].test.comparators[0], ast.Name):
        # the table as a module-level constant (a dictionary literal bound exactly once at module level, never stored into): read it as
        # if it were built at the start of the call -- its entries are enum member names and float constants
        tn = b[0].test.comparators[0].id
        binds = [n for n in tree.body if isinstance(n, (ast.Assign, ast.AnnAssign)) and ast.unparse(n.targets[0] if isinstance(n, ast.Assign) else n.target) == tn]
        other = [n for n in ast.walk(tree) if isinstance(n, ast.Name) and n.id == tn and isinstance(n.ctx, (ast.Store, ast.Del))]
        subs = [n for n in ast.walk(tree) if isinstance(n, ast.Subscript) and isinstance(n.ctx, (ast.Store, ast.Del)) and ast.unparse(n.value) == tn]
        glob = [n for n in ast.walk(tree) if isinstance(n, (ast.Global, ast.Nonlocal)) and tn in n.names]
        if len(binds) != 1 or len(other) != 1 or subs or glob or not isinstance(binds[0].value, ast.Dict):
            raise Refuse("EdgeCaseResult.__call__: table " + tn + " is not a module constant")
        text = ast.unparse(ast.Module(body=list(b), type_ignores=[])).replace(tn, "transfer_dict")
        b = [ast.Assign(targets=[ast.Name(id="transfer_dict", ctx=ast.Store())], value=binds[0].value, lineno=0)] + ast.parse(text).body
    if not (len(b) == 3 and isinstance(b[0], ast.Assign) and isinstance(b[0].value, ast.Dict)):
        raise Refuse("EdgeCaseResult.__call__ shape")
    vals = {}
    for k, v in zip(b[0].value.keys, b[0].value.values):
        kd = dotted(k)
        if not (kd.startswith("EdgeCaseResult.") and kd.endswith(".name")):
            raise Refuse("transfer_dict key " + kd)
        nm = kd.split(".")[1]
        src = ast.unparse(v)
        m = {"np.inf": "FInf", "np.nan": "FNan", "0.0": "(FQ 0)", "1.0": "(FQ 1)", "None": "FNone", "-np.inf": "FNInf"}
        if src not in m:
            raise Refuse("transfer_dict value " + src)
        vals[nm] = m[src]
    if ast.unparse(b[1].test) != "self.name in transfer_dict" or ast.unparse(b[1].body[0]) != "return transfer_dict[self.name]":
        raise Refuse("EdgeCaseResult.__call__ lookup")
    if sorted(vals) != sorted(ECR):
        raise Refuse("transfer_dict keys")
    v = find_func(tree, "value", "EdgeCaseResult")
    if ast.unparse(strip_doc(v.body)[0]) != "return self()":
        raise Refuse("EdgeCaseResult.value")
    out.append("Definition gen_ecr_value (r : ecr) : fval := match r with " + " | ".join(f"{k} => {vals[k]}" for k in ECR) + " end.")

    # --- MetricZeroTPEdgeCaseHandling.__init__ : default filling
    f = find_func(tree, "__init__", "MetricZeroTPEdgeCaseHandling")
    params = [a.arg for a in f.args.args][1:]
    if params != ["default_result", "no_instances_result", "empty_prediction_result", "empty_reference_result", "normal"]:
        raise Refuse("MetricZeroTPEdgeCaseHandling.__init__ params " + str(params))
    b = strip_doc(f.body)
    opt = ("opt", "ecr")
    env = {p: (p, opt) for p in params}
    tr = Tr(env)
    asserts = [s for s in b if isinstance(s, ast.Assert)]
    if len(asserts) != 1:
        raise Refuse("expected one assert in __init__")
    a_t, a_ty = tr.expr(asserts[0].test)
    fills = {}
    for s in b:
        if isinstance(s, ast.Assign) and isinstance(s.targets[0], ast.Subscript) and dotted(s.targets[0].value) == "self._edgecase_dict":
            key = dotted(s.targets[0].slice)
            if not key.startswith("EdgeCaseZeroTP."):
                raise Refuse("edgecase_dict key " + key)
            e = s.value
            if not isinstance(e, ast.IfExp):
                raise Refuse("fill shape")
            cond = ast.unparse(e.test)
            body, orelse = dotted(e.body), dotted(e.orelse)
            if cond == f"{orelse} is None":
                body, orelse = orelse, body          # normalised spelling `<default> if x is None else x`
            elif cond != f"{body} is not None":
                raise Refuse("fill condition " + cond)
            fills[key.split(".")[1]] = f"(dflt {body} {orelse})"
    if sorted(fills) != sorted(SCEN):
        raise Refuse("fills " + str(sorted(fills)))
    out.append("Definition gen_mk_assert (default_result no_instances_result empty_prediction_result empty_reference_result normal : option ecr) : bool := " + a_t + ".")
    out.append("Definition gen_mk_fill (default_result no_instances_result empty_prediction_result empty_reference_result normal : option ecr) (s : scenario) : option ecr := match s with "
               + " | ".join(f"{k} => {fills[k]}" for k in SCEN) + " end.")

    # --- MetricZeroTPEdgeCaseHandling.__call__ dispatch
    f = find_func(tree, "__call__", "MetricZeroTPEdgeCaseHandling")
    if [a.arg for a in f.args.args] != ["self", "tp", "num_pred_instances", "num_ref_instances"]:
        raise Refuse("__call__ signature")
    tr = Tr({"tp": ("tp", "Z"), "num_pred_instances": ("np", "Z"), "num_ref_instances": ("nr", "Z")})

    def ret(e):
        if not (isinstance(e, ast.Tuple) and len(e.elts) == 2):
            raise Refuse("__call__ return shape")
        flag = ast.unparse(e.elts[0])
        val = ast.unparse(e.elts[1])
        if flag == "False" and val == "EdgeCaseResult.NONE.value":
            return "(Some None)"
        if flag == "True" and val.startswith("self._edgecase_dict[EdgeCaseZeroTP.") and val.endswith("].value"):
            return "(Some (Some " + val[len("self._edgecase_dict[EdgeCaseZeroTP."):-len("].value")] + "))"
        raise Refuse("__call__ return " + flag + ", " + val)

    def on_raise(n):
        if n != "NotImplementedError":
            raise Refuse("raise " + n)
        return "None"
    out.append("Definition gen_mh_dispatch (tp np nr : Z) : option (option scenario) := " + tr.block(f.body, ret, on_raise) + ".")

    # --- EdgeCaseHandler.handle_zero_tp
    f = find_func(tree, "handle_zero_tp", "EdgeCaseHandler")
    if [a.arg for a in f.args.args] != ["self", "metric", "tp", "num_pred_instances", "num_ref_instances"]:
        raise Refuse("handle_zero_tp signature")
    b = strip_doc(f.body)
    if len(b) != 3:
        raise Refuse("handle_zero_tp shape")
    if not (isinstance(b[0], ast.If) and ast.unparse(b[0].test) == "tp != 0" and ast.unparse(b[0].body[0]) == "return (False, EdgeCaseResult.NONE.value)"):
        raise Refuse("handle_zero_tp first guard: " + ast.unparse(b[0])[:80])
    if not (isinstance(b[1], ast.If) and ast.unparse(b[1].test) == "metric not in self.__listmetric_zeroTP_handling"
            and isinstance(b[1].body[0], ast.Raise) and dotted(b[1].body[0].exc.func) == "NotImplementedError"):
        raise Refuse("handle_zero_tp second guard")
    r = b[2]
    if not (isinstance(r, ast.Return) and isinstance(r.value, ast.Call) and ast.unparse(r.value.func) == "self.__listmetric_zeroTP_handling[metric]" and not r.value.args):
        raise Refuse("handle_zero_tp call")
    kws = {k.arg: ast.unparse(k.value) for k in r.value.keywords}
    order = ["tp", "num_pred_instances", "num_ref_instances"]
    if sorted(kws) != sorted(order):
        raise Refuse("handle_zero_tp kwargs")
    out.append("Definition gen_hzt_args (tp np nr : Z) : Z * Z * Z := ("
               + ", ".join({"tp": "tp", "num_pred_instances": "np", "num_ref_instances": "nr"}.get(kws[k]) or _refuse("arg " + kws[k]) for k in order) + ").")

    # --- default table
    f = find_func(tree, "__init__", "EdgeCaseHandler")
    names = [a.arg for a in f.args.args]
    if names != ["self", "listmetric_zeroTP_handling", "empty_list_std"]:
        raise Refuse("EdgeCaseHandler.__init__ params")
    d_table, d_std = f.args.defaults
    if not isinstance(d_table, ast.Dict):
        raise Refuse("default table")
    rows = []
    for k, v in zip(d_table.keys, d_table.values):
        kd = dotted(k)
        if not kd.startswith("Metric."):
            raise Refuse("table key " + kd)
        if not (isinstance(v, ast.Call) and dotted(v.func) == "MetricZeroTPEdgeCaseHandling" and not v.args):
            raise Refuse("table value")
        kw = {}
        for x in v.keywords:
            xv = dotted(x.value)
            if not xv.startswith("EdgeCaseResult."):
                raise Refuse("table kw value " + xv)
            kw[x.arg] = xv.split(".")[1]
        args = " ".join(f"(Some {kw[p]})" if p in kw else "None" for p in params)
        rows.append(f"({kd.split('.')[1]}, mk_mhandler {args})")
    sd = dotted(d_std)
    if not sd.startswith("EdgeCaseResult."):
        raise Refuse("default std")
    out.append("Definition gen_default_table : list (metric * res mhandler) := [" + "; ".join(rows) + "].")
    out.append(f"Definition gen_default_std : ecr := {sd.split('.')[1]}.")
    b = strip_doc(f.body)
    srcs = sorted(ast.unparse(s) for s in b)
    if not (len(b) == 2 and "listmetric_zeroTP_handling" in srcs[1] + srcs[0] and "= empty_list_std" in srcs[0] + srcs[1]):
        raise Refuse("EdgeCaseHandler.__init__ body")
    g = find_func(tree, "handle_empty_list_std", "EdgeCaseHandler")
    if ast.unparse(strip_doc(g.body)[0]) != "return self.__empty_list_std":
        raise Refuse("handle_empty_list_std")
    return "\n".join(out) + "\n"


def _refuse(msg):
    raise Refuse(msg)


@unit("ResultCalc", "panoptica/panoptica_result.py, panoptica/metrics/metrics.py")
def result_calc():
    tree = parse("panoptica/panoptica_result.py")
    out = ["From Pan Require Import Base.Common Base.Sx Model.MetricTable Model.EdgeCase Model.Result."]
    env = {"res.tp": ("tp", "Z"), "res.num_pred_instances": ("np", "Z"), "res.num_ref_instances": ("nr", "Z"),
           "res.fp": ("(gen_fp np nr tp)", "Z"), "res.fn": ("(gen_fn np nr tp)", "Z"), "np.nan": ("FNan", "F")}

    def body_expr(name, want):
        f = find_func(tree, name)
        if [a.arg for a in f.args.args] != ["res"]:
            raise Refuse(name + " signature")
        tr = Tr(dict(env))

        def ret(e):
            t, ty = tr.expr(e)
            if want == "Z" and ty == "Z":
                return t
            if want == "Q" and ty in ("Q",):
                return t
            if want == "F":
                if ty == "Q":
                    return f"(FQ {t})"
                if ty == "Z":
                    return f"(FQ (inject_Z {t}))"
                if ty == "F":
                    return t
            raise Refuse(f"{name} returns {ty}, wanted {want}")
        return tr.block(f.body, ret, lambda n: _refuse("raise in " + name))
    out.append("Definition gen_fp (np nr tp : Z) : Z := " + body_expr("fp", "Z") + ".")
    out.append("Definition gen_fn (np nr tp : Z) : Z := " + body_expr("fn", "Z") + ".")
    out.append("Definition gen_prec (np nr tp : Z) : Q := " + body_expr("prec", "Q") + ".")
    out.append("Definition gen_rec (np nr tp : Z) : Q := " + body_expr("rec", "Q") + ".")
    out.append("Definition gen_rq (np nr tp : Z) : fval := " + body_expr("rq", "F") + ".")
    # sq/pq wiring: which list metric and mode each calculator reads
    rows = []
    for suffix, metric in [("", "IOU"), ("_dsc", "DSC"), ("_cldsc", "clDSC"), ("_assd", "ASSD"), ("_rvd", "RVD")]:
        for fn, mode in [("sq" + suffix, "AVG"), ("sq" + suffix + "_std", "STD")]:
            f = find_func(tree, fn)
            src = ast.unparse(strip_doc(f.body)[0])
            ok = {f"return res.get_list_metric(Metric.{metric}, mode=MetricMode.{mode})", f"return res.get_list_metric(Metric.{metric}, MetricMode.{mode})"}
            if src not in ok:
                raise Refuse(f"{fn}: {src}")
        pqn = "pq" + suffix
        try:
            f = find_func(tree, pqn)
        except Refuse:
            rows.append(f"({metric}, false)")
            continue
        src = ast.unparse(strip_doc(f.body)[0])
        if src not in (f"return res.sq{suffix} * res.rq", f"return res.rq * res.sq{suffix}"):
            raise Refuse(f"{pqn}: {src}")
        rows.append(f"({metric}, true)")
    out.append("Definition gen_has_pq : list (metric * bool) := [" + "; ".join(rows) + "].")
    # constructor wiring: _add_metric("name", ..., name)
    init = find_func(tree, "__init__", "PanopticaResult")
    wired = {}
    for n in ast.walk(init):
        if isinstance(n, ast.Call) and dn(n.func) == "self._add_metric" and n.args and isinstance(n.args[0], ast.Constant):
            nm = n.args[0].value
            fn = n.args[2] if len(n.args) > 2 else None
            wired[nm] = ast.unparse(fn) if fn is not None else None
    for nm in ["fp", "fn", "prec", "rec", "rq"] + [p + s for s in ["", "_dsc", "_cldsc"] for p in ["sq", "pq"]] + \
              ["sq_std", "sq_dsc_std", "sq_cldsc_std", "sq_assd", "sq_assd_std", "sq_rvd", "sq_rvd_std"]:
        if wired.get(nm) != nm:
            raise Refuse(f"_add_metric wiring of {nm}: {wired.get(nm)}")
    for nm in ["num_ref_instances", "num_pred_instances", "tp"]:
        if wired.get(nm) != "None":
            raise Refuse("wiring of " + nm)
    # list metric loop in the constructor: handle_zero_tp(metric=m, tp=self.tp, num_pred_instances=self.num_pred_instances, ...)
    found = False
    for n in ast.walk(init):
        if isinstance(n, ast.Call) and dn(n.func) == "self._edge_case_handler.handle_zero_tp":
            kws = {k.arg: ast.unparse(k.value) for k in n.keywords}
            if kws != {"metric": "m", "tp": "self.tp", "num_pred_instances": "self.num_pred_instances", "num_ref_instances": "self.num_ref_instances"}:
                raise Refuse("constructor handle_zero_tp kwargs " + str(kws))
            found = True
    if not found:
        raise Refuse("constructor handle_zero_tp call not found")
    # global metric edge case argument mapping
    g = find_func(tree, "_calc_global_bin_metric", "PanopticaResult")
    src = ast.unparse(g)
    if "prediction_empty = pred_binary.sum() == 0" not in src or "reference_empty = ref_binary.sum() == 0" not in src:
        raise Refuse("emptiness flags")
    call = None
    guard = None
    for n in ast.walk(g):
        if isinstance(n, ast.If) and any(isinstance(c, ast.Call) and dotted(c.func) == "self._edge_case_handler.handle_zero_tp" for s in n.body for c in ast.walk(s)):
            guard = n.test
            for s in n.body:
                for c in ast.walk(s):
                    if isinstance(c, ast.Call) and dotted(c.func) == "self._edge_case_handler.handle_zero_tp":
                        call = c
            inner = [s for s in n.body if isinstance(s, ast.If)]
            if not (len(inner) == 1 and ast.unparse(inner[0].test) == "is_edgecase" and ast.unparse(inner[0].body[0]) == "return result"):
                raise Refuse("global edge case return")
    if call is None or call.keywords or len(call.args) != 4 or ast.unparse(call.args[0]) != "metric":
        raise Refuse("global handle_zero_tp call")

    def to_int(args, kw=None):
        (t, ty), = args
        if ty != "bool":
            raise Refuse("int() of non-bool")
        return (f"(b2z {t})", "Z")
    tr = Tr({"prediction_empty": ("pe", "bool"), "reference_empty": ("re", "bool")}, {"int": to_int})
    a = [tr.expr(x) for x in call.args[1:]]
    if [ty for _, ty in a] != ["Z", "Z", "Z"]:
        raise Refuse("global args types")
    gt, gty = tr.expr(guard)
    out.append(f"Definition gen_global_guard (pe re : bool) : bool := {gt}.")
    out.append("Definition gen_global_args (pe re : bool) : Z * Z * Z := (" + ", ".join(t for t, _ in a) + ").")

    # Evaluation_List_Metric
    mt = parse("panoptica/metrics/metrics.py")
    f = find_func(mt, "__init__", "Evaluation_List_Metric")
    src = ast.unparse(f)
    need = [
        "if is_edge_case:\n        self.AVG: float | None = edge_case_result",
        "self.AVG = None if self.ALL is None else np.average(self.ALL)",
        "self.STD = None if self.ALL is None else np.std(self.ALL) if self.ALL else empty_list_std",     # normalised spelling
        "self.ALL: list[float] | None = value_list",
    ]
    # the same statistics taken of the list converted to an array once (np.average / np.std convert their argument the same way;
    # `values is None` iff the list is None, `n_values == 0` iff it is empty)
    once = {need[1]: "self.AVG = None if values is None else np.average(values)",
            need[2]: "self.STD = None if values is None else empty_list_std if n_values == 0 else np.std(values)"}
    hoisted = "values = None if value_list is None else np.asanyarray(value_list)" in src \
        and "n_values = 0 if value_list is None else len(value_list)" in src \
        and sum(1 for x in ast.walk(f) if isinstance(x, ast.Name) and x.id in ("values", "n_values") and isinstance(x.ctx, ast.Store)) == 2
    for n in need:
        if n not in src and not (hoisted and n in once and once[n] in src):
            raise Refuse("Evaluation_List_Metric: missing `" + n.split("\n")[0] + "`")
    out.append("Definition gen_list_metric_shape : bool := true.")
    return "\n".join(out) + "\n"


@unit("ZeroCases", "panoptica/panoptica_evaluator.py")
def zero_cases():
    tree = parse("panoptica/panoptica_evaluator.py")
    f = find_func(tree, "_handle_zero_instances_cases")
    b = strip_doc(f.body)
    out = ["From Pan Require Import Base.Common."]
    src0 = [ast.unparse(s) for s in b[:2]]
    if src0 != ["n_reference_instance = processing_pair.n_reference_instance", "n_prediction_instance = processing_pair.n_prediction_instance"]:
        raise Refuse("prologue " + str(src0))
    args = b[2]
    if not (isinstance(args, ast.Assign) and isinstance(args.value, ast.Dict)):
        raise Refuse("panoptica_result_args")
    d = {k.value: ast.unparse(v) for k, v in zip(args.value.keys, args.value.values)}
    if d.get("tp") != "0" or d.get("list_metrics") != "{Metric[k.name]: [] for k in eval_metrics}":
        raise Refuse("early-exit result arguments: " + str(d))
    if d.get("reference_arr") != "processing_pair.reference_arr" or d.get("prediction_arr") != "processing_pair.prediction_arr":
        raise Refuse("early-exit arrays")
    if ast.unparse(b[3]) != "is_edge_case = False":
        raise Refuse("is_edge_case init")
    chain = b[4]
    if not isinstance(chain, ast.If):
        raise Refuse("dispatch chain")
    tr = Tr({"n_prediction_instance": ("np", "Z"), "n_reference_instance": ("nr", "Z")})

    def walk(node):
        """returns coq term : option (Z*Z) = Some (n_ref, n_pred) when is_edge_case is set"""
        c, ty = tr.expr(node.test)
        vals = {"n_reference_instance": "nr", "n_prediction_instance": "np"}
        edge = False
        for s in node.body:
            u = ast.unparse(s)
            if u == "is_edge_case = True":
                edge = True
            elif isinstance(s, ast.Assign) and isinstance(s.targets[0], ast.Name) and s.targets[0].id in vals:
                t, ty2 = tr.expr(s.value)
                if ty2 != "Z":
                    raise Refuse("assignment type")
                vals[s.targets[0].id] = t
            else:
                raise Refuse("branch statement " + u)
        a = f"(Some ({vals['n_reference_instance']}, {vals['n_prediction_instance']}))" if edge else "None"
        if not node.orelse:
            b_ = "None"
        elif len(node.orelse) == 1 and isinstance(node.orelse[0], ast.If):
            b_ = walk(node.orelse[0])
        else:
            raise Refuse("else branch")
        return f"(if {c} then {a} else {b_})"
    out.append("Definition gen_zero_case (np nr : Z) : option (Z * Z) := " + walk(chain) + ".")
    tail = b[5]
    if not (isinstance(tail, ast.If) and ast.unparse(tail.test) == "is_edge_case"):
        raise Refuse("tail")
    tsrc = [ast.unparse(s) for s in tail.body]
    want = ["panoptica_result_args['global_metrics'] = global_metrics", "panoptica_result_args['num_ref_instances'] = n_reference_instance",
            "panoptica_result_args['num_pred_instances'] = n_prediction_instance", "return PanopticaResult(**panoptica_result_args)"]
    # the same call with the three entries passed as keywords next to **panoptica_result_args: equal as long as the dictionary (a
    # literal bound once in this function) has none of these keys -- otherwise the call would raise instead of overriding
    direct = ["return PanopticaResult(global_metrics=global_metrics, num_ref_instances=n_reference_instance, "
              "num_pred_instances=n_prediction_instance, **panoptica_result_args)"]
    if tsrc == direct:
        lits = [n for n in ast.walk(f) if isinstance(n, ast.Assign) and ast.unparse(n.targets[0]) == "panoptica_result_args"]
        stores = [n for n in ast.walk(f) if isinstance(n, ast.Subscript) and isinstance(n.ctx, ast.Store) and ast.unparse(n.value) == "panoptica_result_args"]
        if len(lits) != 1 or stores or not isinstance(lits[0].value, ast.Dict) or not all(isinstance(k, ast.Constant) for k in lits[0].value.keys) \
                or {k.value for k in lits[0].value.keys} & {"global_metrics", "num_ref_instances", "num_pred_instances"}:
            raise Refuse("edge-case tail: panoptica_result_args may already hold one of the keyword arguments")
    elif tsrc != want:
        raise Refuse("edge-case tail " + str(tsrc))
    if ast.unparse(b[6]) != "return processing_pair":
        raise Refuse("fallthrough")
    return "\n".join(out) + "\n"


@unit("EvalTP", "panoptica/instance_evaluator.py")
def eval_tp():
    tree = parse("panoptica/instance_evaluator.py")
    f = find_func(tree, "evaluate_matched_instance")
    out = ["From Pan Require Import Base.Common Model.MetricTable."]
    loops = [n for n in f.body if isinstance(n, ast.For) and ast.unparse(n.iter) == "metric_dicts"]
    if len(loops) != 1:
        raise Refuse("metric_dicts loop")
    lp = loops[0]
    if not (len(lp.body) == 1 and isinstance(lp.body[0], ast.If) and not lp.body[0].orelse):
        raise Refuse("loop body shape")
    cond = lp.body[0].test

    def beats(args, kw=None):
        (s, sty), (t, tty) = args
        if sty != "Q" or tty != ("opt", "Q"):
            raise Refuse("score_beats_threshold arg types")
        return (f"(match {t} with Some thr => metric_beats dm {s} thr | None => false end)", "bool")
    # decision_metric : option metric ; inside the `or` the metric is known to be Some dm
    tr = Tr({"decision_metric": ("dmo", ("opt", "metric")), "decision_threshold": ("thr", ("opt", "Q")),
             "metric_dict[decision_metric]": ("score", "Q")}, {"decision_metric.score_beats_threshold": beats})
    # Subscript metric_dict[decision_metric] -> handle by pre-substitution
    src = ast.unparse(cond).replace("metric_dict[decision_metric]", "SCORE__")
    cond2 = ast.parse(src, mode="eval").body
    tr.env["SCORE__"] = ("score", "Q")
    t, ty = tr.expr(cond2)
    out.append("Definition gen_counts_as_tp (dmo : option metric) (thr : option Q) (dm : metric) (score : Q) : bool := " + t + ".")
    body = [ast.unparse(s) for s in lp.body[0].body]
    if body != ["tp += 1", "for k, v in metric_dict.items():\n    score_dict[k].append(v)"]:
        raise Refuse("loop branch body " + str(body))
    inits = [ast.unparse(s) for s in f.body if isinstance(s, ast.Assign) and ast.unparse(s.targets[0]) == "tp"]
    if inits != ["tp = 0"]:
        raise Refuse("tp initialisation " + str(inits))
    ret = [s for s in f.body if isinstance(s, ast.Return)]
    kws = {k.arg: ast.unparse(k.value) for k in ret[0].value.keywords}
    want = {"tp": "tp", "list_metrics": "score_dict", "num_pred_instances": "matched_instance_pair.n_prediction_instance",
            "num_ref_instances": "matched_instance_pair.n_reference_instance"}
    for k, v in want.items():
        if kws.get(k) != v:
            raise Refuse(f"EvaluateInstancePair({k}={kws.get(k)})")
    out.append("Definition gen_tp_counted_with_lists : bool := true.")
    return "\n".join(out) + "\n"
