"""T1: regenerate coq/theories/Gen/*.v from /repo's working tree.  One function per unit; a unit whose
source falls outside the translator's subset is *refused* (a stub is written, the GenEq lemma then
cannot compile, and the check records that the unit is tied by correspondence only)."""
import ast
import json
from pathlib import Path

from harness.common import REPO, VERIF
from harness.translate.pyx import Refuse, Tr, find_func, strip_doc, dotted

GEN = VERIF / "coq" / "theories" / "Gen"
HEADER = ("(* GENERATED from {src} by harness/translate on every check run -- do not edit *)\n"
          "From Coq Require Import ZArith QArith Bool List.\nImport ListNotations.\n"
          "Open Scope Z_scope.\nOpen Scope bool_scope.\n")


def parse(rel):
    from harness.translate.normalize import normalize
    return normalize(ast.parse((REPO / rel).read_text()))


UNITS = {}


def unit(name, src):
    def deco(f):
        UNITS[name] = (f, src)
        return f
    return deco



def load_units():
    import importlib
    for f in sorted((VERIF / "harness" / "translate").glob("units_*.py")):
        importlib.import_module(f"harness.translate.{f.stem}")


def regenerate():
    load_units()
    GEN.mkdir(parents=True, exist_ok=True)
    status = {}
    for name, (f, src) in UNITS.items():
        try:
            body = HEADER.format(src=src) + f()
            status[name] = "ok"
        except Refuse as e:
            body = f"(* refused: {str(e)[:300]} *)\n"
            status[name] = "refused: " + str(e)[:300]
        except (SyntaxError, FileNotFoundError, KeyError, AttributeError, IndexError, TypeError) as e:
            body = f"(* refused: {type(e).__name__} {str(e)[:300]} *)\n"
            status[name] = f"refused: {type(e).__name__} {str(e)[:300]}"
        p = GEN / f"{name}.v"
        if not p.exists() or p.read_text() != body:
            p.write_text(body)
    (VERIF / "harness" / "translate" / "status.json").write_text(json.dumps(status, indent=1))
    return status


if __name__ == "__main__":
    # run as a module-like script: make sure the canonical module object is used by the unit files
    import sys
    sys.path.insert(0, str(VERIF))
    from harness.translate import main as _m
    print(json.dumps(_m.regenerate(), indent=1))
