"""T1 unit for the label selection of _Metric.__call__ (C06, C01): which voxels a (reference label, prediction label(s)) pair
selects, when the selection applies at all, and in which order the two masks reach the metric function."""
import ast

from harness.translate.main import unit, parse
from harness.translate.pyx import Refuse, find_func, strip_doc


def _is_not_none(e, name):
    return (isinstance(e, ast.Compare) and isinstance(e.left, ast.Name) and e.left.id == name and len(e.ops) == 1
            and isinstance(e.ops[0], ast.IsNot) and isinstance(e.comparators[0], ast.Constant) and e.comparators[0].value is None)


def _copy_of(e, name):
    """`name.copy()` or plain `name` (the copy is irrelevant for the value)"""
    if isinstance(e, ast.Name) and e.id == name:
        return True
    return (isinstance(e, ast.Call) and isinstance(e.func, ast.Attribute) and e.func.attr == "copy" and not e.args and not e.keywords
            and isinstance(e.func.value, ast.Name) and e.func.value.id == name)


def _cond(e):
    """boolean structure over the two 'given' flags"""
    if isinstance(e, ast.BoolOp):
        op = " && " if isinstance(e.op, ast.And) else " || "
        return "(" + op.join(_cond(v) for v in e.values) + ")"
    if _is_not_none(e, "ref_instance_idx"):
        return "ri_given"
    if _is_not_none(e, "pred_instance_idx"):
        return "pi_given"
    raise Refuse("selection condition: " + ast.unparse(e))


@unit("MetricCall", "panoptica/metrics/metrics.py")
def metric_call():
    tree = parse("panoptica/metrics/metrics.py")
    f = find_func(tree, "__call__", "_Metric")
    args = [a.arg for a in f.args.args]
    if args[:5] != ["self", "reference_arr", "prediction_arr", "ref_instance_idx", "pred_instance_idx"]:
        raise Refuse(f"__call__ signature {args}")
    body = strip_doc(f.body)
    if len(body) != 2 or not isinstance(body[0], ast.If) or body[0].orelse or not isinstance(body[1], ast.Return):
        raise Refuse("__call__ shape: expected `if <selection>: ...` followed by one return")
    cond = _cond(body[0].test)
    ref_mask = pred_mask = None
    wrapped = False
    for s in body[0].body:
        if isinstance(s, ast.Assign) and len(s.targets) == 1 and isinstance(s.targets[0], ast.Name):
            t, v = s.targets[0].id, s.value
            if t == "reference_arr":
                if not (isinstance(v, ast.Compare) and len(v.ops) == 1 and isinstance(v.ops[0], ast.Eq) and _copy_of(v.left, "reference_arr")
                        and isinstance(v.comparators[0], ast.Name) and v.comparators[0].id == "ref_instance_idx"):
                    raise Refuse("reference mask: " + ast.unparse(s))
                ref_mask = "(v =? ri)"
                continue
            if t == "prediction_arr":
                if not (isinstance(v, ast.Call) and ast.unparse(v.func) == "np.isin" and len(v.args) == 2 and not v.keywords
                        and _copy_of(v.args[0], "prediction_arr") and isinstance(v.args[1], ast.Name) and v.args[1].id == "pred_instance_idx"):
                    raise Refuse("prediction mask: " + ast.unparse(s))
                pred_mask = "(memZ v pis)"
                continue
            raise Refuse("assignment in the selection branch: " + ast.unparse(s))
        if isinstance(s, ast.If) and not s.orelse and ast.unparse(s.test) == "isinstance(pred_instance_idx, int)" and len(s.body) == 1 \
                and ast.unparse(s.body[0]) == "pred_instance_idx = [pred_instance_idx]":
            wrapped = True
            continue
        raise Refuse("statement in the selection branch: " + ast.unparse(s))
    if ref_mask is None or pred_mask is None or not wrapped:
        raise Refuse("selection branch incomplete")
    r = body[1].value
    if not (isinstance(r, ast.Call) and ast.unparse(r.func) == "self._metric_function" and len(r.args) == 3 and isinstance(r.args[2], ast.Starred)
            and all(isinstance(a, ast.Name) for a in r.args[:2]) and len(r.keywords) == 1 and r.keywords[0].arg is None):
        raise Refuse("return: " + ast.unparse(r))
    order = [{"reference_arr": 0, "prediction_arr": 1}.get(a.id) for a in r.args[:2]]
    if None in order:
        raise Refuse("metric function arguments: " + ast.unparse(r))
    out = ["From Pan Require Import Base.Common.",
           f"Definition gen_select_when (ri_given pi_given : bool) : bool := {cond}.",
           f"Definition gen_ref_mask (v ri : Z) : bool := {ref_mask}.",
           f"Definition gen_pred_mask (v : Z) (pis : list Z) : bool := {pred_mask}.",
           f"Definition gen_call_order : list Z := [{order[0]}; {order[1]}]."]
    return "\n".join(out) + "\n"
