"""T1 unit for the crops (C10, C01, C07): bounding-box slice arithmetic of _get_bbox_nd, the paired crop and its two call sites."""
import ast

from harness.translate.main import unit, parse
from harness.translate.pyx import Refuse, Tr, find_func, strip_doc, dotted
from harness.translate.normalize import body_differs


@unit("Crop", "panoptica/utils/numpy_utils.py, panoptica/_functionals.py, panoptica/utils/processing_pair.py, panoptica/instance_evaluator.py")
def crop():
    nu = parse("panoptica/utils/numpy_utils.py")
    f = find_func(nu, "_get_bbox_nd")
    out = ["From Pan Require Import Base.Common."]
    src = ast.unparse(f)
    for need in ["for ax in itertools.combinations(reversed(range(N)), N - 1):\n        out.extend(np.where(np.any(a=img, axis=ax))[0][[0, -1]])",
                 "px_dist = np.ones(N, dtype=np.uint8) * px_dist"]:
        if need not in src:
            raise Refuse("_get_bbox_nd: missing " + need.split("\n")[0])
    # one slice per axis: either the index of the lower bound runs in steps of two (out[i], out[i + 1], axis i // 2)
    # or the axis runs (out[2 * d], out[2 * d + 1], axis d)
    gens = [g for n in ast.walk(f) if isinstance(n, (ast.GeneratorExp, ast.ListComp)) for g in n.generators if not g.ifs]
    gens += [n for n in ast.walk(f) if isinstance(n, ast.For)]              # the same loop written as a statement
    gens = [g for g in gens if isinstance(g.target, ast.Name)]
    forms = {}
    for g in gens:
        v, it = g.target.id, ast.unparse(g.iter)
        if it == "range(0, len(out), 2)":
            forms = {f"out[{v}]": "LO__", f"out[{v} + 1]": "HI__", f"px_dist[{v} // 2]": "PAD__", f"shp[{v} // 2]": "SHAPE__"}
        elif it == "range(len(out) // 2)":
            forms = {f"out[2 * {v}]": "LO__", f"out[2 * {v} + 1]": "HI__", f"px_dist[{v}]": "PAD__", f"shp[{v}]": "SHAPE__"}
    if not forms:
        raise Refuse("_get_bbox_nd: missing for i in range(0, len(out), 2)")
    sl = None
    for n in ast.walk(f):
        if isinstance(n, ast.Call) and dotted(n.func) == "slice" and len(n.args) == 2:
            sl = n
    if sl is None:
        raise Refuse("slice(...) not found")

    def mx(args, kw=None):
        (a, ta), (b, tb) = args
        return (f"(Z.max {a} {b})", "Z")

    def mn(args, kw=None):
        (a, ta), (b, tb) = args
        return (f"(Z.min {a} {b})", "Z")
    text = [ast.unparse(a) for a in sl.args]
    sub = dict(sorted(forms.items(), key=lambda kv: -len(kv[0])))       # longer patterns first (out[2 * d + 1] before out[2 * d])
    terms = []
    for t in text:
        for k, v in sub.items():
            t = t.replace(k, v)
        e = ast.parse(t, mode="eval").body
        tr = Tr({"LO__": ("lo", "Z"), "HI__": ("hi", "Z"), "PAD__": ("pad", "Z"), "SHAPE__": ("shape", "Z")}, {"max": mx, "min": mn})
        c, ty = tr.expr(e)
        if ty != "Z":
            raise Refuse("slice bound type")
        terms.append(c)
    out.append(f"Definition gen_crop_start (lo hi pad shape : Z) : Z := {terms[0]}.")
    out.append(f"Definition gen_crop_stop (lo hi pad shape : Z) : Z := {terms[1]}.")
    fn = parse("panoptica/_functionals.py")
    g = find_func(fn, "_get_paired_crop")
    want = ["assert prediction_arr.shape == reference_arr.shape", "combined = np.logical_or(prediction_arr != 0, reference_arr != 0)",
            "if not combined.any():\n    combined = np.ones_like(combined)", "return _get_bbox_nd(combined, px_dist=px_pad)"]
    if body_differs(g, want):
        raise Refuse("_get_paired_crop: " + str(body_differs(g, want)))
    pad = g.args.defaults[0]
    if not (isinstance(pad, ast.Constant) and isinstance(pad.value, int)):
        raise Refuse("px_pad default")
    out.append(f"Definition gen_px_pad : Z := {pad.value}.")
    pp = parse("panoptica/utils/processing_pair.py")
    cd = ast.unparse(find_func(pp, "crop_data", "_ProcessingPair"))
    for need in ["self.crop = _get_paired_crop(self._prediction_arr, self._reference_arr)", "self._prediction_arr = self._prediction_arr[self.crop]",
                 "self._reference_arr = self._reference_arr[self.crop]"]:
        if need not in cd:
            raise Refuse("crop_data: missing " + need)
    ie = ast.unparse(find_func(parse("panoptica/instance_evaluator.py"), "_evaluate_instance"))
    for need in ["ref_arr = reference_arr == ref_idx", "pred_arr = prediction_arr == ref_idx", "crop = _get_paired_crop(pred_arr, ref_arr)",
                 "ref_arr = ref_arr[crop]", "pred_arr = pred_arr[crop]"]:
        if need not in ie:
            raise Refuse("_evaluate_instance: missing " + need)
    out.append("Definition gen_same_crop_for_both_arrays : bool := true.")
    return "\n".join(out) + "\n"
