"""T1 unit "Backend" (C05): from the working tree's AST
  * instance_approximator.py  ConnectedComponentsInstanceApproximator._approximate_instances:
      the default-backend rule (`CCABackend.cc3d if semantic_pair.n_dim >= 3 else CCABackend.scipy`)
      as a Coq function of ndim; the negative-label assertion of approximate_instances as a function
      of the minimum label;
  * utils/numpy_utils.py  _get_smallest_fitting_uint: the threshold chain as a function Z -> width;
  * _functionals.py  _connected_components: which library call serves each backend (callee resolved
      through the local imports, positional arguments, keywords) as a table.
Anything outside the handled shapes raises Refuse (fail closed, never guessed)."""
import ast

from harness.translate.main import unit, parse
from harness.translate.pyx import Refuse, Tr, find_func, strip_doc, dotted

WIDTHS = {"np.uint8": 8, "np.uint16": 16, "np.uint32": 32, "np.uint64": 64,
          "numpy.uint8": 8, "numpy.uint16": 16, "numpy.uint32": 32, "numpy.uint64": 64}
BACKENDS = {"CCABackend.cc3d": "Cc3d", "CCABackend.scipy": "Scipy"}


def _codes(s):
    return "[" + "; ".join(str(ord(c)) for c in s) + "]"


# ------------------------------------------------------------------ default backend rule
def _default_backend():
    tree = parse("panoptica/instance_approximator.py")
    f = find_func(tree, "_approximate_instances", "ConnectedComponentsInstanceApproximator")
    args = [a.arg for a in f.args.args]
    if args[:2] != ["self", "semantic_pair"]:
        raise Refuse(f"_approximate_instances signature {args}")
    body = strip_doc(f.body)
    # cca_backend = self.cca_backend ; if cca_backend is None: cca_backend = (<rule>)
    if not (len(body) >= 2 and isinstance(body[0], ast.Assign) and len(body[0].targets) == 1
            and isinstance(body[0].targets[0], ast.Name) and ast.unparse(body[0].value) == "self.cca_backend"):
        raise Refuse("expected `<var> = self.cca_backend` first")
    var = body[0].targets[0].id
    iff = body[1]
    if not (isinstance(iff, ast.If) and not iff.orelse and ast.unparse(iff.test) == f"{var} is None"
            and len(iff.body) == 1 and isinstance(iff.body[0], ast.Assign)
            and len(iff.body[0].targets) == 1 and ast.unparse(iff.body[0].targets[0]) == var):
        raise Refuse("expected `if <var> is None: <var> = <rule>`")
    # the variable must not be re-assigned afterwards, and must be what is passed on
    for s in body[2:]:
        for n in ast.walk(s):
            if isinstance(n, (ast.Assign, ast.AugAssign, ast.AnnAssign, ast.NamedExpr)):
                tg = n.targets if isinstance(n, ast.Assign) else [n.target]
                for t in tg:
                    for nn in ast.walk(t):
                        if isinstance(nn, ast.Name) and nn.id == var:
                            raise Refuse(f"{var} re-assigned after the default rule")
    calls = [n for s in body[2:] for n in ast.walk(s)
             if isinstance(n, ast.Call) and dotted_or_none(n.func) == "_connected_components"]
    if len(calls) != 2:
        raise Refuse(f"expected two _connected_components calls, found {len(calls)}")
    for c in calls:
        if c.keywords or len(c.args) != 2 or ast.unparse(c.args[1]) != var:
            raise Refuse("_connected_components is not called with the selected backend")
    # the constructor must store its argument unchanged
    init = find_func(tree, "__init__", "ConnectedComponentsInstanceApproximator")
    ib = strip_doc(init.body)
    if [ast.unparse(s) for s in ib] != ["self.cca_backend = cca_backend"]:
        raise Refuse("__init__ does not simply store cca_backend")
    # n_dim is the array's number of axes
    pp = parse("panoptica/utils/processing_pair.py")
    pinit = find_func(pp, "__init__", "_ProcessingPair")
    if not any(isinstance(s, ast.Assign) and ast.unparse(s) == "self.n_dim = reference_arr.ndim" for s in pinit.body):
        raise Refuse("_ProcessingPair.n_dim is not reference_arr.ndim")
    env = {"semantic_pair.n_dim": ("ndim", "Z")}
    env.update({k: (v, "backend") for k, v in BACKENDS.items()})
    t, ty = Tr(env).expr(iff.body[0].value)
    if ty != "backend":
        raise Refuse("default rule does not yield a backend")
    return t


def dotted_or_none(e):
    try:
        return dotted(e)
    except Refuse:
        return None


# ------------------------------------------------------------------ negative-label assertion
def _negative_assert():
    tree = parse("panoptica/instance_approximator.py")
    f = find_func(tree, "approximate_instances", "InstanceApproximator")
    body = strip_doc(f.body)
    asserts = [s for s in body if isinstance(s, ast.Assert)]
    if len(asserts) != 1:
        raise Refuse(f"expected exactly one assert in approximate_instances, found {len(asserts)}")
    a = asserts[0]
    # np.min of a scalar (the lower end of a label range) is that scalar
    MINVS = ("min(np.min(pred_label_range[0]), np.min(ref_label_range[0]))", "min(pred_label_range[0], ref_label_range[0])")

    class Fold(ast.NodeTransformer):
        """the normaliser inlines a temporary used once: fold the minimum over both label ranges back into the name min_value"""
        n = 0

        def visit_Call(self, node):
            if ast.unparse(node) in MINVS:
                Fold.n += 1
                return ast.Name(id="min_value", ctx=ast.Load())
            return self.generic_visit(node)
    test = Fold().visit(a.test)
    names = {n.id for n in ast.walk(test) if isinstance(n, ast.Name)}
    if names != {"min_value"}:
        raise Refuse("assert is not about min_value alone")
    # min_value must be the minimum over both label ranges' lower ends
    defs = [s for s in body if isinstance(s, ast.Assign) and ast.unparse(s.targets[0]) == "min_value"]
    if Fold.n == 0:
        if len(defs) != 1 or ast.unparse(defs[0].value) not in MINVS:
            raise Refuse("min_value is not min over both label ranges")
        if body.index(defs[0]) > body.index(a):
            raise Refuse("assert precedes min_value")
    elif defs:
        raise Refuse("min_value is rebound")
    # the assert must come before the algorithm is called
    call_idx = [i for i, s in enumerate(body) if any(isinstance(n, ast.Call) and dotted_or_none(n.func) == "self._approximate_instances" for n in ast.walk(s))]
    if not call_idx or call_idx[0] < body.index(a):
        raise Refuse("assert does not precede the call of the algorithm")
    t, ty = Tr({"min_value": ("min_value", "Z")}).expr(test)
    if ty != "bool":
        raise Refuse("assert test is not boolean")
    return t


# ------------------------------------------------------------------ dtype threshold chain
def _threshold_chain():
    tree = parse("panoptica/utils/numpy_utils.py")
    f = find_func(tree, "_get_smallest_fitting_uint")
    if [a.arg for a in f.args.args] != ["max_value"]:
        raise Refuse("_get_smallest_fitting_uint signature")
    body = strip_doc(f.body)
    tr = Tr({"max_value": ("max_value", "Z")})

    def width(e):
        if isinstance(e, ast.IfExp):                 # normalised spelling of an if / else that assigns one name
            c, ct = tr.expr(e.test)
            if ct != "bool":
                raise Refuse("threshold test is not boolean")
            return f"(if {c} then {width(e.body)} else {width(e.orelse)})"
        d = dotted(e)
        if d not in WIDTHS:
            raise Refuse(f"unknown dtype {d}")
        return str(WIDTHS[d])

    def chain(stmts):
        """decision tree of a statement list: `if` chains whose branches assign one name that is returned afterwards, or return the
        dtype directly (early returns); both spellings yield the same nested conditional"""
        stmts = strip_doc(stmts)
        if not stmts:
            raise Refuse("_get_smallest_fitting_uint: a path ends without returning a dtype")
        s, rest = stmts[0], stmts[1:]
        if isinstance(s, ast.Return) and s.value is not None:
            return width(s.value)
        if isinstance(s, ast.Assign) and len(s.targets) == 1 and isinstance(s.targets[0], ast.Name) and len(rest) >= 1 \
                and isinstance(rest[0], ast.Return) and isinstance(rest[0].value, ast.Name) and rest[0].value.id == s.targets[0].id:
            return width(s.value)
        if isinstance(s, ast.If):
            c, ct = tr.expr(s.test)
            if ct != "bool":
                raise Refuse("threshold test is not boolean")
            return f"(if {c} then {chain(list(s.body) + rest)} else {chain(list(s.orelse) + rest)})"
        raise Refuse("_get_smallest_fitting_uint: expected `if` chains that assign or return a dtype, found " + type(s).__name__)

    return chain(body)


# ------------------------------------------------------------------ library call table
def _call_table():
    tree = parse("panoptica/_functionals.py")
    f = find_func(tree, "_connected_components")
    if [a.arg for a in f.args.args] != ["array", "cca_backend"]:
        raise Refuse("_connected_components signature")
    body = strip_doc(f.body)
    if not (len(body) == 2 and isinstance(body[0], ast.If) and isinstance(body[1], ast.Return)):
        raise Refuse("_connected_components: expected dispatch followed by a return")
    ret = body[1].value
    if not (isinstance(ret, ast.Tuple) and len(ret.elts) == 2 and all(isinstance(e, ast.Name) for e in ret.elts)):
        raise Refuse("_connected_components does not return a pair of names")
    rnames = [e.id for e in ret.elts]
    # module-level imports that could alias the callee
    aliases = {}
    for n in tree.body:
        _collect_imports(n, aliases)
    table = {}
    node = body[0]
    while True:
        test = node.test
        if not (isinstance(test, ast.Compare) and len(test.ops) == 1 and isinstance(test.ops[0], ast.Eq)
                and ast.unparse(test.left) == "cca_backend"):
            raise Refuse("dispatch test is not `cca_backend == CCABackend.<member>`")
        member = dotted(test.comparators[0])
        if member not in BACKENDS or BACKENDS[member] in table:
            raise Refuse(f"unknown or repeated backend {member}")
        local = dict(aliases)
        stmts = strip_doc(node.body)
        calls = []
        for s in stmts:
            if isinstance(s, (ast.Import, ast.ImportFrom)):
                _collect_imports(s, local)
            elif isinstance(s, ast.Assign):
                calls.append(s)
            else:
                raise Refuse("statement " + type(s).__name__ + " in a backend branch")
        if len(calls) != 1:
            raise Refuse("expected exactly one assignment in a backend branch")
        a = calls[0]
        tg = a.targets[0]
        if not (len(a.targets) == 1 and isinstance(tg, ast.Tuple) and [ast.unparse(e) for e in tg.elts] == rnames):
            raise Refuse("the call's result is not unpacked into the returned pair")
        c = a.value
        if not isinstance(c, ast.Call):
            raise Refuse("backend branch does not call a library function")
        callee = dotted(c.func)
        head, _, rest = callee.partition(".")
        if head not in local:
            raise Refuse(f"callee {callee} is not imported")
        full = local[head] + ("." + rest if rest else "")
        pos = [ast.unparse(x) for x in c.args]
        if any(isinstance(x, ast.Starred) for x in c.args) or any(k.arg is None for k in c.keywords):
            raise Refuse("star arguments")
        kws = sorted((k.arg, ast.unparse(k.value)) for k in c.keywords)
        table[BACKENDS[member]] = (full, pos, kws)
        if len(node.orelse) == 1 and isinstance(node.orelse[0], ast.If):
            node = node.orelse[0]
            continue
        tail = strip_doc(node.orelse)
        if not (len(tail) == 1 and isinstance(tail[0], ast.Raise)):
            raise Refuse("dispatch does not end in a raise")
        break
    if set(table) != {"Cc3d", "Scipy"}:
        raise Refuse("dispatch does not cover both backends")

    def enc(e):
        full, pos, kws = e
        return ("(" + _codes(full) + ", [" + "; ".join(_codes(p) for p in pos) + "], ["
                + "; ".join("(" + _codes(k) + ", " + _codes(v) + ")" for k, v in kws) + "])")
    return ("match b with Cc3d => " + enc(table["Cc3d"]) + " | Scipy => " + enc(table["Scipy"]) + " end")


def _collect_imports(n, out):
    if isinstance(n, ast.Import):
        for a in n.names:
            out[a.asname or a.name.split(".")[0]] = a.name if a.asname else a.name.split(".")[0]
    elif isinstance(n, ast.ImportFrom) and n.level == 0 and n.module:
        for a in n.names:
            out[a.asname or a.name] = n.module + "." + a.name


@unit("Backend", "panoptica/instance_approximator.py, panoptica/_functionals.py, panoptica/utils/numpy_utils.py")
def backend_unit():
    out = ["From Pan Require Import Model.CCA."]
    out.append(f"Definition gen_default_backend (ndim : Z) : backend := {_default_backend()}.")
    out.append(f"Definition gen_negative_ok (min_value : Z) : bool := {_negative_assert()}.")
    out.append(f"Definition gen_smallest_fitting_uint (max_value : Z) : Z := {_threshold_chain()}.")
    out.append("Definition gen_backend_call (b : backend) : list Z * list (list Z) * list (list Z * list Z) := "
               + _call_table() + ".")
    return "\n".join(out) + "\n"
