"""Source normalisation applied before the translation units look at a file (part of the trusted translator).

The units recognise shapes of the library's source; rewrites that cannot change what the code computes should not make them
refuse.  Every rule below replaces a construct by another one with the same value and the same effects on lists, tuples, dicts,
strings and numbers (the only objects the units interpret); the normalised tree is never executed, it is only read by the units.

  R1  list([.. for ..]) / list(list(..))             ->  the inner list             (a copy of a fresh list)
  R2  len(list(X)) / len(tuple(X)), X = set(..)/[..] ->  len(X)
  R3  len(X) == 0   /  0 == len(X)                   ->  not X                      (containers only)
  R4  A if not C else B                              ->  B if C else A
      A if X is not None else B                      ->  B if X is None else A
  R4b True if C else E                               ->  C or E                     (E boolean: a membership / comparison)
  R4c D[k] if k in D else V                          ->  D.get(k, V)                (dicts)
  R4d [f(v) for v in X] if X else []                 ->  [f(v) for v in X]
  R4e f"lit{E}" (no conversion / format)             ->  "lit" + E                  (E a string)
  R4f list(d.keys()) / max(d.keys()) / ..            ->  list(d) / max(d) / ..          (dicts)
  R5  x = x                                          ->  (dropped)
  R5b if C: T = A else: T = B   (the same target)     ->  T = A if C else B
  R5c if C: assert A, M         (nothing else)       ->  assert not C or A, M       (with not (x is not None) -> x is None)
  R5d if len(X) > 0: / X if len(X) > 0 else          ->  if X: / X if X else        (containers, in a test position only)
  R5e if E == c1: .. elif E == c2: .. else: ..       ->  branches ordered by the constant (E pure, constants distinct)
  R5g if C: ..; return/raise  else: REST             ->  if C: ..; return/raise ; REST  (the else of a branch that cannot fall through)
  R5h if C: <assignments> else: <assignments> ; return E   ->  the return at the end of both branches
  R6  t = E ; S   where t is bound once in the function, read only inside S (for `if`/`for`: only inside the test /
      the iterable) and E is built from names, attributes, subscripts, constants, operators and calls to pure functions
                                                     ->  S[t := E]                  (a temporary for the next statement)
  R7  x = E ; return x                               ->  return E                   (x local)
  R8  t = None ; if ..: (.. t = E at the end of some branches ..) ; S(t)   with t read only in S
                                                     ->  the `if` with S[t := E] / S[t := None] at the end of every branch

`canon_text` additionally renames the local variables of a function by order of first binding; the units that compare whole
function bodies with an expected text compare the canonical texts of both."""
import ast
import copy

PURE_CALLS = {"len", "int", "float", "abs", "max", "min", "sum", "set", "list", "tuple", "sorted", "str", "bool", "round", "range",
              "isinstance", "zip", "enumerate"}
PURE_PREFIXES = ("np.", "math.", "numpy.")
# module-level private helpers of the library that are functions of their arguments (no file, lock or object state)
PURE_HELPERS = ("_average_", "__surface", "_compute_", "_get_", "_unique_", "_count_", "_calc_", "_connected_", "_round_")


def _dotted(e):
    if isinstance(e, ast.Name):
        return e.id
    if isinstance(e, ast.Attribute):
        d = _dotted(e.value)
        return None if d is None else d + "." + e.attr
    return None


def _is_call(e, name):
    return isinstance(e, ast.Call) and isinstance(e.func, ast.Name) and e.func.id == name and not e.keywords and len(e.args) == 1


def _pure(e) -> bool:
    """value expression without effects (so that it may be evaluated later, inside the next statement)"""
    for n in ast.walk(e):
        if isinstance(n, ast.Call):
            d = _dotted(n.func)
            if d is None:
                # a method of a pure value (x.mean(), x.copy(), x.astype(..)) is accepted for numpy-style readers only
                if isinstance(n.func, ast.Attribute) and n.func.attr in ("mean", "sum", "copy", "astype", "values", "keys", "items", "get"):
                    continue
                return False
            if d in PURE_CALLS or d.startswith(PURE_PREFIXES):
                continue
            if d.split(".")[-1] in ("mean", "sum", "copy", "astype", "values", "keys", "items", "get"):
                continue
            if "." not in d and d.startswith(PURE_HELPERS):
                # module-level private helpers of the library (_average_surface_distance, _connected_components, ...): functions
                # of their arguments
                continue
            return False
        if isinstance(n, (ast.Await, ast.Yield, ast.YieldFrom, ast.NamedExpr, ast.Lambda, ast.ListComp, ast.SetComp, ast.DictComp,
                          ast.GeneratorExp)):
            return False
    return True


class _Expr(ast.NodeTransformer):
    def visit_Call(self, node):
        self.generic_visit(node)
        # R4f: iterating a dict's keys: list(d.keys()) / max(d.keys()) / ... -> list(d) / max(d)
        if isinstance(node.func, ast.Name) and node.func.id in ("list", "max", "min", "sorted", "set", "tuple", "len", "sum", "any", "all") \
                and len(node.args) >= 1 and isinstance(node.args[0], ast.Call) and isinstance(node.args[0].func, ast.Attribute) \
                and node.args[0].func.attr == "keys" and not node.args[0].args and not node.args[0].keywords:
            node.args[0] = node.args[0].func.value
        # R13: np.logical_or / np.logical_and of two comparisons (boolean arrays) -> | / &
        if isinstance(node.func, ast.Attribute) and _dotted(node.func) in ("np.logical_or", "np.logical_and") and len(node.args) == 2 \
                and not node.keywords and all(isinstance(a, ast.Compare) for a in node.args):
            return ast.BinOp(left=node.args[0], op=ast.BitOr() if node.func.attr == "logical_or" else ast.BitAnd(), right=node.args[1])
        # R1
        if _is_call(node, "list") and (isinstance(node.args[0], ast.ListComp) or _is_call(node.args[0], "list")):
            return node.args[0]
        # R2
        if _is_call(node, "len"):
            a = node.args[0]
            if (_is_call(a, "list") or _is_call(a, "tuple")) and (_is_call(a.args[0], "set") or isinstance(a.args[0], (ast.ListComp, ast.List))):
                node.args[0] = a.args[0]
        return node

    def visit_ListComp(self, node):
        self.generic_visit(node)
        # R10: [x for x in E] -> list(E)
        if len(node.generators) == 1 and not node.generators[0].ifs and not node.generators[0].is_async \
                and isinstance(node.elt, ast.Name) and isinstance(node.generators[0].target, ast.Name) \
                and node.elt.id == node.generators[0].target.id:
            return ast.Call(func=ast.Name(id="list", ctx=ast.Load()), args=[node.generators[0].iter], keywords=[])
        return node

    def visit_Compare(self, node):
        self.generic_visit(node)
        # R3
        if len(node.ops) == 1 and isinstance(node.ops[0], ast.Eq):
            l, r = node.left, node.comparators[0]
            for a, b in ((l, r), (r, l)):
                if _is_call(a, "len") and isinstance(b, ast.Constant) and b.value == 0 and type(b.value) is int:
                    return ast.UnaryOp(op=ast.Not(), operand=a.args[0])
        return node

    def visit_IfExp(self, node):
        self.generic_visit(node)
        # R4
        t = node.test
        if isinstance(t, ast.UnaryOp) and isinstance(t.op, ast.Not):
            node = ast.IfExp(test=t.operand, body=node.orelse, orelse=node.body)
        elif isinstance(t, ast.Compare) and len(t.ops) == 1 and isinstance(t.ops[0], ast.IsNot) \
                and isinstance(t.comparators[0], ast.Constant) and t.comparators[0].value is None:
            node = ast.IfExp(test=ast.Compare(left=t.left, ops=[ast.Is()], comparators=t.comparators), body=node.orelse, orelse=node.body)
        if _is_len_pos(node.test):
            node = ast.IfExp(test=node.test.left.args[0], body=node.body, orelse=node.orelse)
        t = node.test
        # R4b
        if isinstance(node.body, ast.Constant) and node.body.value is True and isinstance(node.orelse, (ast.Compare, ast.BoolOp, ast.UnaryOp)):
            return ast.BoolOp(op=ast.Or(), values=[t, node.orelse])
        # R4c
        if isinstance(t, ast.Compare) and len(t.ops) == 1 and isinstance(t.ops[0], ast.In) and isinstance(node.body, ast.Subscript) \
                and ast.dump(node.body.value) == ast.dump(t.comparators[0]) and ast.dump(node.body.slice) == ast.dump(t.left):
            return ast.Call(func=ast.Attribute(value=t.comparators[0], attr="get", ctx=ast.Load()), args=[t.left, node.orelse], keywords=[])
        # R4d
        if isinstance(node.body, ast.ListComp) and isinstance(node.orelse, ast.List) and not node.orelse.elts and len(node.body.generators) == 1 \
                and not node.body.generators[0].ifs and ast.dump(node.body.generators[0].iter) == ast.dump(t):
            return node.body
        return node

    def visit_JoinedStr(self, node):
        self.generic_visit(node)
        # R4e
        parts = []
        for v in node.values:
            if isinstance(v, ast.Constant) and isinstance(v.value, str):
                parts.append(v)
            elif isinstance(v, ast.FormattedValue) and v.conversion == -1 and v.format_spec is None \
                    and isinstance(v.value, ast.Attribute) and v.value.attr in ("name", "stem", "suffix"):
                parts.append(v.value)
            else:
                return node
        if len(parts) == 2 and isinstance(parts[0], ast.Constant):
            return ast.BinOp(left=parts[0], op=ast.Add(), right=parts[1])
        return node


class _Subst(ast.NodeTransformer):
    def __init__(self, name, value):
        self.name, self.value, self.n = name, value, 0

    def visit_Name(self, node):
        if node.id == self.name and isinstance(node.ctx, ast.Load):
            self.n += 1
            return copy.deepcopy(self.value)
        return node


def _loads(node, name):
    return sum(1 for n in ast.walk(node) if isinstance(n, ast.Name) and n.id == name and isinstance(n.ctx, ast.Load))


def _stores(node, name):
    k = 0
    for n in ast.walk(node):
        if isinstance(n, ast.Name) and n.id == name and isinstance(n.ctx, (ast.Store, ast.Del)):
            k += 1
        if isinstance(n, ast.arg) and n.arg == name:
            k += 1
        if isinstance(n, (ast.Global, ast.Nonlocal)) and name in n.names:
            k += 2
    return k


def _negate(e):
    """logical negation in its simplest spelling"""
    if isinstance(e, ast.UnaryOp) and isinstance(e.op, ast.Not):
        return e.operand
    if isinstance(e, ast.Compare) and len(e.ops) == 1:
        flip = {ast.Is: ast.IsNot, ast.IsNot: ast.Is, ast.In: ast.NotIn, ast.NotIn: ast.In, ast.Eq: ast.NotEq, ast.NotEq: ast.Eq}
        for a, b in flip.items():
            if isinstance(e.ops[0], a):
                return ast.Compare(left=e.left, ops=[b()], comparators=e.comparators)
    return ast.UnaryOp(op=ast.Not(), operand=e)


def _is_len_pos(t):
    return isinstance(t, ast.Compare) and len(t.ops) == 1 and _is_call(t.left, "len") and isinstance(t.comparators[0], ast.Constant) \
        and ((isinstance(t.ops[0], ast.Gt) and t.comparators[0].value == 0) or (isinstance(t.ops[0], ast.NotEq) and t.comparators[0].value == 0)
             or (isinstance(t.ops[0], ast.GtE) and t.comparators[0].value == 1)) and type(t.comparators[0].value) is int


def _eq_chain(s):
    """(E, [(const, body)], else-body) for `if E == c1: .. elif E == c2: .. [else: ..]` with one pure E and distinct constants (>= 2)"""
    branches, expr, cur = [], None, s
    while True:
        t = cur.test
        if not (isinstance(t, ast.Compare) and len(t.ops) == 1 and isinstance(t.ops[0], ast.Eq) and isinstance(t.comparators[0], ast.Constant)
                and isinstance(t.comparators[0].value, (int, str)) and not isinstance(t.comparators[0].value, bool) and _pure(t.left)):
            return None
        if expr is None:
            expr = t.left
        elif ast.dump(expr) != ast.dump(t.left):
            return None
        branches.append((t.comparators[0].value, cur.body))
        if len(cur.orelse) == 1 and isinstance(cur.orelse[0], ast.If):
            cur = cur.orelse[0]
            continue
        tail = cur.orelse
        break
    if len(branches) < 2 or len({repr(c) for c, _ in branches}) != len(branches):
        return None
    return expr, branches, tail


def _sink(iff, t, default, use):
    """R8 helper: a copy of `iff` in which every path ends with `use` instantiated by the value t has on that path; None when t is
    assigned anywhere but as the last statement of a branch (or inside a loop / try / with)"""
    def inst(value):
        u = copy.deepcopy(use)
        return _Subst(t, value).visit(u)

    def block(stmts):
        stmts = list(stmts)
        for x in stmts[:-1]:
            if _stores(x, t):
                return None
        if not stmts:
            return [inst(default)]
        last = stmts[-1]
        if isinstance(last, ast.Assign) and len(last.targets) == 1 and isinstance(last.targets[0], ast.Name) and last.targets[0].id == t:
            return stmts[:-1] + [inst(last.value)]
        if isinstance(last, ast.If):
            b, o = block(last.body), block(last.orelse)
            if b is None or o is None:
                return None
            return stmts[:-1] + [ast.If(test=last.test, body=b, orelse=o)]
        if _stores(last, t):
            return None
        return stmts + [inst(default)]
    b, o = block(iff.body), block(iff.orelse)
    if b is None or o is None:
        return None
    return ast.If(test=iff.test, body=b, orelse=o)


def _inline_in(stmts, func):
    """R5, R6 on one statement list (recursively on nested lists)"""
    out = []
    i = 0
    stmts = list(stmts)
    while i < len(stmts):
        s = stmts[i]
        # R5
        if isinstance(s, ast.Assign) and len(s.targets) == 1 and isinstance(s.targets[0], ast.Name) \
                and isinstance(s.value, ast.Name) and s.value.id == s.targets[0].id:
            i += 1
            continue
        # R18: x = self.attr (or `not self.attr`), x bound once, no attribute of that name stored in this function: a local alias of an
        #      attribute that the function does not change -- every read of x is a read of the attribute
        if isinstance(s, ast.Assign) and len(s.targets) == 1 and isinstance(s.targets[0], ast.Name):
            x, v = s.targets[0].id, s.value
            core = v.operand if isinstance(v, ast.UnaryOp) and isinstance(v.op, ast.Not) else v
            d = _dotted(core)
            if isinstance(core, ast.Attribute) and d is not None and d.split(".")[0] == "self" and d.count(".") == 1 and _stores(func, x) == 1:
                root, last = d.split(".")[0], core.attr
                rest = stmts[i + 1:]
                attr_stored = any(isinstance(n, ast.Attribute) and n.attr == last and isinstance(n.ctx, (ast.Store, ast.Del)) for n in ast.walk(func))
                root_stored = any(isinstance(n, ast.Name) and n.id == root and isinstance(n.ctx, (ast.Store, ast.Del)) for n in ast.walk(func))
                uses = sum(_loads(r, x) for r in rest)
                if not attr_stored and not root_stored and uses >= 1 and _loads(func, x) == uses:
                    stmts[i + 1:] = [_Subst(x, v).visit(r) for r in rest]
                    i += 1
                    continue
        # R19: L.extend(E for v in X)  ->  for v in X: L.append(E)      (a generator argument is consumed element by element)
        if isinstance(s, ast.Expr) and isinstance(s.value, ast.Call) and isinstance(s.value.func, ast.Attribute) and s.value.func.attr == "extend" \
                and isinstance(s.value.func.value, ast.Name) and len(s.value.args) == 1 and not s.value.keywords \
                and isinstance(s.value.args[0], ast.GeneratorExp) and len(s.value.args[0].generators) == 1 \
                and not s.value.args[0].generators[0].ifs and not s.value.args[0].generators[0].is_async:
            g = s.value.args[0]
            app = ast.Expr(value=ast.Call(func=ast.Attribute(value=s.value.func.value, attr="append", ctx=ast.Load()), args=[g.elt], keywords=[]))
            stmts[i] = ast.For(target=g.generators[0].target, iter=g.generators[0].iter, body=[app], orelse=[], lineno=s.lineno)
            continue
        # R17: assert np.all([P for v in X])  ->  assert all(P for v in X)     (same truth value, also for an empty X)
        if isinstance(s, ast.Assert) and isinstance(s.test, ast.Call) and _dotted(s.test.func) == "np.all" and len(s.test.args) == 1 \
                and not s.test.keywords and isinstance(s.test.args[0], ast.ListComp):
            lc = s.test.args[0]
            stmts[i] = ast.Assert(test=ast.Call(func=ast.Name(id="all", ctx=ast.Load()), args=[ast.GeneratorExp(elt=lc.elt, generators=lc.generators)],
                                                keywords=[]), msg=s.msg, lineno=s.lineno)
            continue
        # R14: if A: continue; if B: continue  ->  if A or B: continue   (same order of evaluation; also break)
        if isinstance(s, ast.If) and not s.orelse and len(s.body) == 1 and isinstance(s.body[0], (ast.Continue, ast.Break)) \
                and i + 1 < len(stmts) and isinstance(stmts[i + 1], ast.If) and not stmts[i + 1].orelse and len(stmts[i + 1].body) == 1 \
                and type(stmts[i + 1].body[0]) is type(s.body[0]):
            a, b = s.test, stmts[i + 1].test
            vals = (a.values if isinstance(a, ast.BoolOp) and isinstance(a.op, ast.Or) else [a]) + \
                   (b.values if isinstance(b, ast.BoolOp) and isinstance(b.op, ast.Or) else [b])
            stmts[i:i + 2] = [ast.If(test=ast.BoolOp(op=ast.Or(), values=vals), body=s.body, orelse=[], lineno=s.lineno)]
            continue
        # R12: a loop over a literal table of atoms is unrolled:  for a, b in ((1, X), (2, Y)): S  ->  S[a:=1, b:=X]; S[a:=2, b:=Y]
        if isinstance(s, ast.For) and not s.orelse and isinstance(s.iter, (ast.Tuple, ast.List)) and 1 <= len(s.iter.elts) <= 12:
            names = [s.target.id] if isinstance(s.target, ast.Name) else (
                [e.id for e in s.target.elts] if isinstance(s.target, ast.Tuple) and all(isinstance(e, ast.Name) for e in s.target.elts) else None)

            def atom(e):
                return isinstance(e, ast.Constant) or (_dotted(e) is not None)
            rows = []
            for e in s.iter.elts:
                if names is not None and len(names) == 1 and isinstance(s.target, ast.Name) and atom(e):
                    rows.append([e])
                elif names is not None and isinstance(s.target, ast.Tuple) and isinstance(e, (ast.Tuple, ast.List)) \
                        and len(e.elts) == len(names) and all(atom(x) for x in e.elts):
                    rows.append(list(e.elts))
                else:
                    rows = None
                    break
            jumps = any(isinstance(n, (ast.Break, ast.Continue)) for b in s.body for n in ast.walk(b))
            after = stmts[i + 1:]
            if rows and names and not jumps and not any(_stores(b, nm) for b in s.body for nm in names) \
                    and not any(_loads(r, nm) for r in after for nm in names):
                unrolled = []
                for row in rows:
                    for b in s.body:
                        c = copy.deepcopy(b)
                        for nm, val in zip(names, row):
                            c = _Subst(nm, val).visit(c)
                        unrolled.append(c)
                stmts[i:i + 1] = unrolled
                continue
        # R11: if isinstance(x, Path): x = str(x)   dropped when every later read of x in this block is str(x)
        if isinstance(s, ast.If) and not s.orelse and len(s.body) == 1 and isinstance(s.test, ast.Call) and isinstance(s.test.func, ast.Name) \
                and s.test.func.id == "isinstance" and len(s.test.args) == 2 and not s.test.keywords \
                and isinstance(s.test.args[0], ast.Name) and isinstance(s.test.args[1], ast.Name) and s.test.args[1].id == "Path" \
                and isinstance(s.body[0], ast.Assign) and len(s.body[0].targets) == 1 and isinstance(s.body[0].targets[0], ast.Name) \
                and s.body[0].targets[0].id == s.test.args[0].id and _is_call(s.body[0].value, "str") \
                and isinstance(s.body[0].value.args[0], ast.Name) and s.body[0].value.args[0].id == s.test.args[0].id:
            x = s.test.args[0].id
            rest = stmts[i + 1:]
            wrapped = sum(1 for r in rest for n in ast.walk(r) if _is_call(n, "str") and isinstance(n.args[0], ast.Name) and n.args[0].id == x)
            if sum(_loads(r, x) for r in rest) == wrapped and not any(_stores(r, x) for r in rest):
                i += 1
                continue
        # R9: with a, b: S  ->  with a: with b: S   (the language defines the former as the latter)
        if isinstance(s, ast.With) and len(s.items) > 1:
            inner = ast.With(items=s.items[1:], body=s.body, lineno=s.lineno)
            stmts[i] = ast.With(items=s.items[:1], body=[inner], lineno=s.lineno)
            continue
        # R5b: if C: t = A else: t = B  ->  t = A if C else B
        if isinstance(s, ast.If) and len(s.body) == 1 and len(s.orelse) == 1 and all(
                isinstance(b, ast.Assign) and len(b.targets) == 1 and isinstance(b.targets[0], (ast.Name, ast.Subscript, ast.Attribute))
                for b in (s.body[0], s.orelse[0])) \
                and ast.dump(s.body[0].targets[0]) == ast.dump(s.orelse[0].targets[0]) \
                and not (isinstance(s.body[0].targets[0], ast.Name) and _loads(s.test, s.body[0].targets[0].id) > 0) \
                and (isinstance(s.body[0].targets[0], ast.Name) or _pure(s.body[0].targets[0])):
            stmts[i] = ast.Assign(targets=[s.body[0].targets[0]],
                                  value=_Expr().visit(ast.IfExp(test=s.test, body=s.body[0].value, orelse=s.orelse[0].value)), lineno=s.lineno)
            continue
        # R5c: if C: assert A, M  ->  assert not C or A, M
        if isinstance(s, ast.If) and not s.orelse and len(s.body) == 1 and isinstance(s.body[0], ast.Assert):
            stmts[i] = ast.Assert(test=ast.BoolOp(op=ast.Or(), values=[_negate(s.test), s.body[0].test]), msg=s.body[0].msg)
            continue
        # R5d: a non-emptiness test spelled with len
        if isinstance(s, ast.If) and _is_len_pos(s.test):
            s.test = s.test.left.args[0]
        # R5e: exclusive equality branches ordered by their constant
        if isinstance(s, ast.If):
            chain = _eq_chain(s)
            if chain is not None:
                expr, branches, tail = chain
                keyed = sorted(branches, key=lambda b: repr(b[0]))
                if [b[0] for b in keyed] != [b[0] for b in branches]:
                    node = list(tail)
                    for c, body in reversed(keyed):
                        node = [ast.If(test=ast.Compare(left=copy.deepcopy(expr), ops=[ast.Eq()], comparators=[ast.Constant(value=c)]), body=body, orelse=node)]
                    stmts[i] = node[0]
                    continue
        # R5h: a return that follows an if / else made of simple assignments only moves into both branches
        if isinstance(s, ast.If) and s.orelse and i + 1 < len(stmts) and isinstance(stmts[i + 1], ast.Return) \
                and all(isinstance(b, ast.Assign) and len(b.targets) == 1 and isinstance(b.targets[0], ast.Name) for b in s.body + s.orelse):
            ret = stmts[i + 1]
            stmts[i] = ast.If(test=s.test, body=s.body + [copy.deepcopy(ret)], orelse=s.orelse + [copy.deepcopy(ret)])
            del stmts[i + 1]
            continue
        # R5g: the else of a branch that cannot fall through is ordinary following code
        if isinstance(s, ast.If) and s.orelse and s.body and isinstance(s.body[-1], (ast.Return, ast.Raise, ast.Continue, ast.Break)):
            rest = s.orelse
            stmts[i] = ast.If(test=s.test, body=s.body, orelse=[])
            stmts[i + 1:i + 1] = rest
            continue
        # R8: t = None ; if ..: (.. t = E as the last statement of some branches ..) ; S(t)   with t read only in S
        #     ->  the if with S[t := E] in place of the assignments and S[t := None] at the end of the other branches
        if isinstance(s, ast.Assign) and len(s.targets) == 1 and isinstance(s.targets[0], ast.Name) and isinstance(s.value, ast.Constant) \
                and s.value.value is None and i + 2 < len(stmts) and isinstance(stmts[i + 1], ast.If) \
                and isinstance(stmts[i + 2], (ast.Expr, ast.Return, ast.Assign)):
            t, iff, use = s.targets[0].id, stmts[i + 1], stmts[i + 2]
            n_in_if = _stores(iff, t)
            if n_in_if >= 1 and _stores(func, t) == 1 + n_in_if and _loads(func, t) == _loads(use, t) > 0 and _stores(use, t) == 0:
                sunk = _sink(iff, t, s.value, use)
                if sunk is not None:
                    stmts[i + 1] = sunk
                    del stmts[i + 2]
                    i += 1
                    continue
        # R7: x = E ; return x  ->  return E   (x is a local: dead after the return, however often it was bound before)
        if isinstance(s, ast.Assign) and len(s.targets) == 1 and isinstance(s.targets[0], ast.Name) and i + 1 < len(stmts) \
                and isinstance(stmts[i + 1], ast.Return) and isinstance(stmts[i + 1].value, ast.Name) \
                and stmts[i + 1].value.id == s.targets[0].id \
                and not any(isinstance(n, (ast.Global, ast.Nonlocal)) and s.targets[0].id in n.names for n in ast.walk(func)):
            stmts[i + 1] = ast.Return(value=s.value)
            i += 1
            continue
        # R6
        if isinstance(s, ast.Assign) and len(s.targets) == 1 and isinstance(s.targets[0], ast.Name) and i + 1 < len(stmts) \
                and s.type_comment is None:
            t = s.targets[0].id
            nxt = stmts[i + 1]
            if isinstance(nxt, ast.If):
                zone, slot = nxt.test, "test"
            elif isinstance(nxt, ast.For):
                zone, slot = nxt.iter, "iter"
            elif isinstance(nxt, (ast.Return, ast.Assign, ast.AugAssign, ast.Expr, ast.Assert, ast.AnnAssign)):
                zone, slot = nxt, None
            else:
                zone, slot = None, None
            single = _stores(func, t) == 1 and _loads(func, t) == _loads(zone, t) > 0 if zone is not None else False
            # before a return the name is dead afterwards, however often it is bound on other paths
            dead_after = zone is not None and isinstance(nxt, ast.Return) and _loads(zone, t) > 0 \
                and not any(isinstance(n, (ast.Global, ast.Nonlocal)) and t in n.names for n in ast.walk(func)) \
                and not any(isinstance(n, ast.arg) and n.arg == t for n in ast.walk(func))
            if zone is not None and (single or dead_after) and _pure(s.value) and _stores(nxt, t) == 0:
                new = _Subst(t, s.value).visit(zone)
                if slot is not None:
                    setattr(nxt, slot, new)
                i += 1
                continue
        out.append(s)
        i += 1
    for s in out:
        for f in ("body", "orelse", "finalbody"):
            sub = getattr(s, f, None)
            if isinstance(sub, list) and sub and isinstance(sub[0], ast.stmt) and not isinstance(s, (ast.FunctionDef, ast.ClassDef, ast.AsyncFunctionDef)):
                setattr(s, f, _inline_in(sub, func) or [ast.Pass()])
        if isinstance(s, ast.Try):
            for h in s.handlers:
                h.body = _inline_in(h.body, func) or [ast.Pass()]
    return out


def _functions(tree):
    for n in ast.walk(tree):
        if isinstance(n, (ast.FunctionDef, ast.AsyncFunctionDef)):
            yield n


def normalize(tree):
    tree = _Expr().visit(tree)
    for f in list(_functions(tree)):
        for _ in range(6):
            before = ast.dump(f)
            f.body = _inline_in(f.body, f) or [ast.Pass()]
            if ast.dump(f) == before:
                break
    ast.fix_missing_locations(tree)
    return tree


class _Rename(ast.NodeTransformer):
    def __init__(self, m):
        self.m = m

    def visit_Name(self, node):
        if node.id in self.m:
            node.id = self.m[node.id]
        return node


def canon_func(func):
    """a copy of the (normalised) function with its local variables renamed by order of first binding"""
    func = copy.deepcopy(func)
    params = {a.arg for a in func.args.args + func.args.kwonlyargs + func.args.posonlyargs}
    if func.args.vararg:
        params.add(func.args.vararg.arg)
    if func.args.kwarg:
        params.add(func.args.kwarg.arg)
    order = []
    # first-binding order by source position
    binds = [(n.lineno, n.col_offset, n.id) for n in ast.walk(func)
             if isinstance(n, ast.Name) and isinstance(n.ctx, ast.Store) and n.id not in params and hasattr(n, "lineno")]
    for _, _, name in sorted(binds):
        if name not in order:
            order.append(name)
    m = {name: f"_v{i}" for i, name in enumerate(order)}
    _Rename(m).visit(func)
    return func


def canon_text(stmts_or_text, fname="f", args="*a, **k"):
    """canonical text of a function body given as statement text: normalised + locals renamed (for whole-body comparisons)"""
    if isinstance(stmts_or_text, str):
        body = "\n".join("    " + l for l in stmts_or_text.split("\n"))
        tree = ast.parse(f"def {fname}({args}):\n{body}\n")
    else:
        tree = ast.Module(body=[stmts_or_text], type_ignores=[])
    tree = normalize(tree)
    f = next(_functions(tree))
    f = canon_func(f)
    return [ast.unparse(s) for s in f.body]


def body_differs(func, want_stmts):
    """whole-body comparison up to normalisation and local renaming: [] if `func`'s body is the expected one, else the canonical
    statements of `func` that the expected body lacks (or a marker when only the order differs)"""
    from harness.translate.pyx import strip_doc
    f = copy.deepcopy(func)
    f.body = strip_doc(f.body) or [ast.Pass()]
    f.decorator_list = []
    f.returns = None
    got = canon_text(f)
    want = canon_text("\n".join(want_stmts), fname=func.name, args=ast.unparse(func.args))
    if got == want:
        return []
    return [x for x in got if x not in want] or ["<same statements, different order or count>"]


def fold(node, mapping):
    """replace every sub-expression whose text is a key of `mapping` by the name it maps to (undoes R6 for units that reason about a
    named intermediate value); returns (new node, number of replacements per name)"""
    count = {v: 0 for v in mapping.values()}

    class F(ast.NodeTransformer):
        def generic_visit(self, n):
            if isinstance(n, ast.expr):
                t = ast.unparse(n)
                if t in mapping:
                    count[mapping[t]] += 1
                    return ast.Name(id=mapping[t], ctx=ast.Load())
            return super().generic_visit(n)
    return F().visit(copy.deepcopy(node)), count


def canon_stmt_text(text, args="self, *a, **k"):
    """normalised text of a statement block given as text (for units that compare one block with an expected text)"""
    body = "\n".join("    " + l for l in text.split("\n"))
    tree = normalize(ast.parse(f"def f({args}):\n{body}\n"))
    return "\n".join(ast.unparse(x) for x in next(_functions(tree)).body)
