"""Correspondence between Panoptica_Evaluator.evaluate and Model.Pipeline (engine ops 101/102), shared by C01, C02, C09-C12."""
from __future__ import annotations

import itertools
import math
from fractions import Fraction

import numpy as np

from harness import common, impl
from harness.common import engine_run, fq, unfval


def approximate(pred, ref, backend):
    """semantic -> instance arrays through the implementation's approximator (its correctness is C05)."""
    import contextlib, io
    from panoptica import ConnectedComponentsInstanceApproximator
    from panoptica.utils.constants import CCABackend
    from panoptica.utils.processing_pair import SemanticPair
    with contextlib.redirect_stdout(io.StringIO()):
        ap = ConnectedComponentsInstanceApproximator(None if backend is None else getattr(CCABackend, backend))
        up = ap.approximate_instances(SemanticPair(pred.copy(), ref.copy()))
    return up.prediction_arr, up.reference_arr


def mcall(m, ref, pred, r, p):
    with np.errstate(all="ignore"):
        return float(impl.metric(m)(ref, pred, r, p))


def enc_cfg(cfg):
    kind = {"matched": 0}.get(cfg.get("input"), None)
    if kind is None:
        mk = cfg.get("matcher") or "naive"
        kind = 3 if mk == "merge" else (2 if cfg.get("m2o") else 1)
    dm = cfg.get("dmetric")
    dthr = cfg.get("dthr")
    return [kind, impl.METRICS.index(cfg.get("mmetric", "IOU")), fq(cfg.get("mthr", 0.5)),
            [impl.METRICS.index(m) for m in cfg.get("imetrics", ["DSC", "IOU", "ASSD", "RVD"])],
            [] if dm is None else [impl.METRICS.index(dm)], [] if dthr is None else [fq(dthr)],
            impl.enc_handler(cfg.get("table"), cfg.get("std", 1))]


DEFINITION_MISMATCHES = []     # per-instance ASSD values of the implementation that differ from the definition (filled by model_results)


def assd_definition(rm, pm):
    """ASSD of two masks by the exact model of C07 (engine op 701), None when a mask is empty"""
    if not rm.any() or not pm.any():
        return None
    from harness.props import c07
    mo = engine_run(701, [c07.model_in(rm, pm)], nproc=1)[0]
    if len(mo) != 2 or not mo[0] or not mo[1]:
        return None
    return float(c07.expected_value(mo[0], mo[1]))


def arr2(pred, ref):
    return [[int(a), int(b)] for a, b in zip(ref.ravel().tolist(), pred.ravel().tolist())]


def build_ext_match(cfg, pred, ref):
    """pair table (ASSD as matching metric) and union table (merge matcher) from the implementation's own metric calls."""
    mm = cfg.get("mmetric", "IOU")
    pairs = sorted({(int(r), int(p)) for r, p in zip(ref.ravel().tolist(), pred.ravel().tolist()) if r and p})
    pt = [[r, p, fq(mcall("ASSD", ref, pred, r, p))] for r, p in pairs] if mm == "ASSD" else []
    ut = []
    if (cfg.get("matcher") or "naive") == "merge":
        by_ref = {}
        for r, p in pairs:
            by_ref.setdefault(r, []).append(p)
        for r, ps in by_ref.items():
            ps = ps[:5]
            for k in range(2, len(ps) + 1):
                for sub in itertools.combinations(ps, k):
                    ut.append([r, list(sub), fq(mcall(mm, ref, pred, r, list(sub)))])
    return pt, ut


def model_result(cfg, pred, ref):
    """pred/ref: INSTANCE arrays (for semantic input pass the approximated ones). Returns ('ok', result sx) / ('err', code) / ('skip', why)."""
    ims = cfg.get("imetrics", ["DSC", "IOU", "ASSD", "RVD"])
    if cfg.get("input") == "matched":
        p2 = pred
    else:
        if not (pred != 0).any() or not (ref != 0).any():
            p2 = pred
        else:
            pt, ut = build_ext_match(cfg, pred, ref)
            o = engine_run(102, [[enc_cfg(cfg), [[], pt, ut], arr2(pred, ref)]], nproc=1)[0]
            if o[0] != 0:
                return ("err", o[1])
            p2 = np.array(o[1], dtype=np.int64).reshape(pred.shape)
    it = []
    common_labels = sorted(set(int(x) for x in np.unique(p2) if x) & set(int(x) for x in np.unique(ref) if x))
    for m in ("ASSD", "clDSC"):
        if m in ims:
            for l in common_labels:
                v = mcall(m, ref, p2, l, l)
                if np.isnan(v) or np.isinf(v):
                    return ("skip", f"{m} undefined for label {l}")
                it.append([impl.METRICS.index(m), l, fq(v)])
    c2 = dict(cfg)
    c2["input"] = "matched"
    o = engine_run(101, [[enc_cfg(c2), [it, [], []], arr2(p2, ref)]], nproc=1)[0]
    return ("ok", o[1]) if o[0] == 0 else ("err", o[1])


def sparse_map(a):
    """non-zero voxels in C order: [[coords], label]"""
    a = np.asarray(a)
    return [[list(map(int, c)), int(a[tuple(c)])] for c in np.argwhere(a != 0)]


def semantic_model_results(items):
    """items: (cfg, semantic pred, semantic ref).  The WHOLE semantic path inside the model (Model/Semantic.semantic_pipeline:
    connected components, then the instance pipeline); only for configurations that need no geometric metric values
    (threshold matcher on IoU/Dice, instance metrics among IoU/Dice/RVD).  Returns ('ok', result)/('err', code)/('skip', why)."""
    out = [None] * len(items)
    batch, where = [], []
    for i, (cfg, pred, ref) in enumerate(items):
        ims = cfg.get("imetrics", ["DSC", "IOU", "ASSD", "RVD"])
        if (cfg.get("matcher") or "naive") != "naive" or cfg.get("mmetric", "IOU") not in ("IOU", "DSC") \
                or any(m not in ("IOU", "DSC", "RVD") for m in ims) or cfg.get("dmetric") not in (None, "IOU", "DSC", "RVD"):
            out[i] = ("skip", "needs geometric metric values")
            continue
        if pred.min() < 0 or ref.min() < 0:
            out[i] = ("skip", "negative labels")
            continue
        bk = cfg.get("backend")
        batch.append([enc_cfg(cfg), [[], [], []], [] if bk is None else [0 if bk == "cc3d" else 1], pred.ndim, sparse_map(pred), sparse_map(ref)])
        where.append(i)
    for i, o in zip(where, engine_run(103, batch) if batch else []):
        out[i] = ("ok", o[1]) if o[0] == 0 else ("err", o[1])
    return out


def compare(cfg, r, mo):
    """r: impl.canon_result dict, mo: model result sx. Returns list of difference strings (counts/lists exact, aggregates 2^-30)."""
    diffs = []
    for key, idx in (("num_pred_instances", 0), ("num_ref_instances", 1), ("tp", 2), ("fp", 3), ("fn", 4)):
        if r.get(key) != mo[idx]:
            diffs.append(f"{key}: implementation {r.get(key)} model {mo[idx]}")
    if not impl.same_float(r.get("rq"), unfval(mo[7]), tol=0):
        diffs.append(f"rq: implementation {r.get('rq')} model {unfval(mo[7])}")
    seen = set()
    for e in mo[8]:
        m = impl.METRICS[e[0]]
        seen.add(m)
        ie = r["metrics"].get(m)
        if ie is None:
            diffs.append(f"{m}: missing in implementation")
            continue
        mall = sorted(Fraction(q[0], q[1]) for q in e[4])
        iall = sorted(Fraction(x) for x in ie["all"] if not (np.isnan(x) or np.isinf(x)))
        if len(iall) != len(ie["all"]) or mall != iall:
            diffs.append(f"{m} per-instance values: implementation {ie['all']} model {[float(x) for x in mall]}")
        if not impl.same_float(ie.get("sq"), unfval(e[1])):
            diffs.append(f"sq[{m}]: implementation {ie.get('sq')} model {unfval(e[1])}")
        mv = unfval(e[2])
        iv = ie.get("std")
        if isinstance(mv, Fraction):
            if iv is None or np.isnan(iv) or abs(Fraction(iv) ** 2 - mv) > Fraction(1, 2 ** 28) * max(1, mv):
                diffs.append(f"std[{m}]^2: implementation {iv} model variance {float(mv)}")
        elif not impl.same_float(iv, mv):
            diffs.append(f"std[{m}]: implementation {iv} model {mv}")
        if m in impl.PQ_KEY:
            if ("pq" in ie) != (len(e[3]) == 1):
                diffs.append(f"pq[{m}] presence differs")
            elif len(e[3]) == 1 and not impl.same_float(ie.get("pq"), unfval(e[3][0])):
                diffs.append(f"pq[{m}]: implementation {ie.get('pq')} model {unfval(e[3][0])}")
    for m in r["metrics"]:
        if m not in seen:
            diffs.append(f"{m}: reported by the implementation only")
    return diffs


def bookkeeping(r, from_masks=True):
    """C02's identities checked directly on an implementation result (canon dict)."""
    bad = []
    tp, fp, fn = r.get("tp"), r.get("fp"), r.get("fn")
    npi, nri = r.get("num_pred_instances"), r.get("num_ref_instances")
    if tp + fp != npi:
        bad.append(f"tp+fp={tp + fp} != num_pred={npi}")
    if tp + fn != nri:
        bad.append(f"tp+fn={tp + fn} != num_ref={nri}")
    if not (0 <= tp <= min(npi, nri)):
        bad.append(f"tp={tp} outside [0, min({npi},{nri})]")
    for m, e in r["metrics"].items():
        if len(e["all"]) != tp:
            bad.append(f"{m} list has {len(e['all'])} entries, tp={tp}")
        if tp > 0 and e["all"] and any(x != x or x in (float("inf"), float("-inf")) for x in e["all"]):
            # an undefined per-instance score (e.g. clDice of skeletons that miss each other) stays in the list; its aggregates are
            # undefined as well -- only the length identity above applies
            continue
        if tp > 0 and e["all"]:
            vals = [Fraction(x) for x in e["all"]]
            mu = sum(vals) / len(vals)
            var = sum((v - mu) ** 2 for v in vals) / len(vals)
            if not impl.same_float(e.get("sq"), mu):
                bad.append(f"sq[{m}]={e.get('sq')} is not the mean {float(mu)}")
            sd = e.get("std")
            # population standard deviation: numpy's two-pass value is within a few ulps of the exact one (no cancellation)
            sd_exact = math.sqrt(float(var))
            if sd is None or sd != sd or abs(sd - sd_exact) > 1e-10 * max(1.0, abs(float(mu)), sd_exact):
                bad.append(f"std[{m}]={sd} is not the population std {sd_exact!r} of the {len(vals)} per-instance values")
            if m in ("IOU", "DSC") and any(v < 0 or v > 1 for v in vals):
                bad.append(f"{m} value outside [0,1]")
            if m in impl.PQ_KEY and "pq" in e and r.get("rq") is not None:
                if not impl.same_float(e["pq"], Fraction(e["sq"]) * Fraction(r["rq"])):
                    bad.append(f"pq[{m}]={e['pq']} != sq*rq")
                if m in ("IOU", "DSC") and not (0 <= e["pq"] <= 1):
                    bad.append(f"pq[{m}] outside [0,1]")
    if tp > 0:
        want = Fraction(tp) / (Fraction(tp) + Fraction(fp, 2) + Fraction(fn, 2))
        if r.get("rq") is None or Fraction(r["rq"]) != Fraction(float(want)) and not impl.same_float(r["rq"], want, tol=Fraction(1, 2 ** 50)):
            bad.append(f"rq={r.get('rq')} != tp/(tp+fp/2+fn/2)={float(want)}")
        if not (0 < r["rq"] <= 1):
            bad.append("rq outside (0,1]")
        if from_masks and "IOU" in r["metrics"] and "DSC" in r["metrics"] and "sq" in r["metrics"]["IOU"] and "sq" in r["metrics"]["DSC"]:
            if r["metrics"]["DSC"]["sq"] < r["metrics"]["IOU"]["sq"] - 1e-12:
                bad.append("sq_dsc < sq")
    return bad


TRIPLES = []      # (op, input, output) of the engine calls made by model_results, for the vm_compute cross-check


def model_results(items):
    """Batched version of model_result: items = [(cfg, pred, ref)] -> list of ('ok', sx) / ('err', code) / ('skip', why)."""
    n = len(items)
    out = [None] * n
    p2s = [None] * n
    m_in, m_idx = [], []
    for i, (cfg, pred, ref) in enumerate(items):
        if cfg.get("input") == "matched" or not (pred != 0).any() or not (ref != 0).any():
            p2s[i] = pred
            continue
        try:
            pt, ut = build_ext_match(cfg, pred, ref)
        except Exception as e:  # noqa
            out[i] = ("skip", "ext: " + repr(e)[:60])
            continue
        m_in.append([enc_cfg(cfg), [[], pt, ut], arr2(pred, ref)])
        m_idx.append(i)
    m_out = engine_run(102, m_in)
    for i, inp, o in zip(m_idx, m_in, m_out):
        if len(TRIPLES) < 400:
            TRIPLES.append((102, inp, o))
        if o[0] != 0:
            out[i] = ("err", o[1])
        else:
            p2s[i] = np.array(o[1], dtype=np.int64).reshape(items[i][1].shape)
    e_in, e_idx = [], []
    for i, (cfg, pred, ref) in enumerate(items):
        if out[i] is not None:
            continue
        p2 = p2s[i]
        ims = cfg.get("imetrics", ["DSC", "IOU", "ASSD", "RVD"])
        it = []
        common_labels = sorted(set(int(x) for x in np.unique(p2) if x) & set(int(x) for x in np.unique(ref) if x))
        bad = None
        for m in ("ASSD", "clDSC"):
            if m in ims:
                for l in common_labels:
                    try:
                        v = mcall(m, ref, p2, l, l)
                    except Exception as e:  # noqa
                        bad = f"{m} raised for label {l}"
                        break
                    if np.isnan(v) or np.isinf(v):
                        bad = f"{m} undefined for label {l}"
                        break
                    it.append([impl.METRICS.index(m), l, fq(v)])
                    if m == "ASSD" and ref.size <= 600 and len(DEFINITION_MISMATCHES) < 20:
                        # the geometric value handed to the pipeline model is the implementation's own; for small inputs it is also
                        # checked against the definition (the exact model of C07), so that the end-to-end comparison does not
                        # inherit an error of the kernel
                        e = assd_definition(ref == l, p2 == l)
                        if e is not None and abs(v - e) > 1e-9 * max(1.0, abs(e)):
                            DEFINITION_MISMATCHES.append({"cfg": cfg, "pred": pred, "ref": ref, "label": l, "implementation_assd": float(v),
                                                          "definition_assd": e})
        if bad:
            out[i] = ("skip", bad)
            continue
        c2 = dict(cfg)
        c2["input"] = "matched"
        e_in.append([enc_cfg(c2), [it, [], []], arr2(p2, ref)])
        e_idx.append(i)
    e_out = engine_run(101, e_in)
    for i, inp, o in zip(e_idx, e_in, e_out):
        if len(TRIPLES) < 800:
            TRIPLES.append((101, inp, o))
        out[i] = ("ok", o[1]) if o[0] == 0 else ("err", o[1])
    return out
