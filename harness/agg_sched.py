"""Controlled scheduler for panoptica.panoptica_aggregator (C16, C17).

Nothing in /repo is edited: at run time the module-level names of panoptica.panoptica_aggregator are
replaced (locks, file helpers, os, open, print, atexit, Panoptica_Statistic) by instrumented versions
in which every logical step is a *scheduling point*.  Real `Panoptica_Aggregator(...)`, `evaluate()`
and `make_statistic()` run in real threads, but a thread only passes a scheduling point when the
scheduler grants it one step, so an interleaving is a list of thread ids; a thread whose next step
is the acquisition of a lock held by another thread is *blocked* and does not move.  A crash
abandons the threads of a session (they unwind with a BaseException at their current point without
performing any further file operation); the files stay as they are.

The same scenario is run through the extracted Coq model (engine op 1601/1701) and the file states
are compared after every event; the oracles (op 1602/1702) are the predicates proved in Coq.
"""
from __future__ import annotations

import builtins
import csv
import json
import os
import threading
from pathlib import Path

from harness import common


class Killed(BaseException):
    pass


class Stuck(Exception):
    """the scheduler granted a step and the worker neither reached the next scheduling point nor returned: it blocks
    somewhere the instrumentation does not see (e.g. on a lock object that is not one of the instrumented ones)"""


STEP_TIMEOUT = 20.0
LOST_CONTROL = {"flag": False, "why": ""}


class Worker:
    def __init__(self, sched, name, fn):
        self.sched = sched
        self.name = name
        self.fn = fn
        self.state = "new"          # new | waiting | running | done | killed
        self.pending = None         # (kind, obj) at a scheduling point
        self.result = None
        self.error = None
        self.kill = False
        self.in_helper = 0
        self.steps = 0
        self.thread = threading.Thread(target=self._run, daemon=True)
        self.thread._agg_worker = self

    def _run(self):
        try:
            self.result = self.fn()
            end = "done"
        except Killed:
            end = "killed"
        except BaseException as e:  # noqa: the outcome is data
            self.error = e
            end = "done"
        with self.sched.cv:
            self.state = end
            self.pending = None
            self.sched.cv.notify_all()


class Sched:
    def __init__(self):
        self.cv = threading.Condition()
        self.turn = None
        self.trace = []

    # ---- worker side
    def point(self, kind, obj=None):
        w = getattr(threading.current_thread(), "_agg_worker", None)
        if w is None or w.sched is not self or w.in_helper:
            return
        with self.cv:
            w.state = "waiting"
            w.pending = (kind, obj)
            self.cv.notify_all()
            while self.turn is not w and not w.kill:
                self.cv.wait()
            if w.kill:
                raise Killed()
            self.turn = None
            w.state = "running"
            w.pending = None
            w.steps += 1

    # ---- scheduler side
    def spawn(self, name, fn):
        import time
        w = Worker(self, name, fn)
        w.thread.start()
        deadline = time.time() + STEP_TIMEOUT
        with self.cv:
            while w.state in ("new", "running"):
                self.cv.wait(1.0)
                if time.time() > deadline and w.state in ("new", "running"):
                    raise Stuck(f"worker {name} did not reach its first scheduling point")
        return w

    def blocked(self, w):
        if w.state != "waiting":
            return False
        kind, obj = w.pending
        return kind == "acq" and obj.holder is not None and obj.holder is not w

    def step(self, w):
        """grant one step; returns the kind of the step performed, or None when w did not move"""
        with self.cv:
            if w.state != "waiting" or self.blocked(w):
                return None
            kind = w.pending[0]
            import time
            self.turn = w
            w.state = "running"
            self.cv.notify_all()
            deadline = time.time() + STEP_TIMEOUT
            while w.state == "running":
                self.cv.wait(1.0)
                if time.time() > deadline and w.state == "running":
                    raise Stuck(f"worker {w.name} was granted a '{kind}' step and blocks outside the instrumented operations")
            return kind

    def kill(self, w):
        with self.cv:
            if w.state in ("done", "killed"):
                return
            import time
            w.kill = True
            self.cv.notify_all()
            deadline = time.time() + 5.0
            while w.state not in ("done", "killed") and time.time() < deadline:
                self.cv.wait(0.5)
        w.thread.join(1 if w.state not in ("done", "killed") else 5)


class ILock:
    """stand-in for the module-level multiprocessing.Lock objects"""

    def __init__(self, sched, name):
        self.sched = sched
        self.name = name
        self.holder = None
        self.plain = threading.Lock()     # used when the acquiring thread is not under this lock's scheduler

    def scheduled(self):
        w = getattr(threading.current_thread(), "_agg_worker", None)
        return w is not None and w.sched is self.sched and not w.in_helper

    def __enter__(self):
        w = getattr(threading.current_thread(), "_agg_worker", None)
        if not self.scheduled():
            # a lock object that outlived its scheduler (created lazily / cached by the code under test), or the main thread
            self.plain.acquire()
            self.holder = w if w is not None else "main"
            return self
        self.sched.point("acq", self)
        if self.holder is not None:
            raise RuntimeError(f"scheduler error: lock {self.name} granted while held")
        self.holder = w
        return self

    def __exit__(self, et, ev, tb):
        if self.plain.locked():
            self.holder = None
            self.plain.release()
            return False
        if et is None or not issubclass(et, Killed):
            self.sched.point("rel", self)
        self.holder = None
        return False

    def acquire(self, *a, **k):
        self.__enter__()
        return True

    def release(self):
        self.__exit__(None, None, None)

    def reset_if_held_by(self, workers):
        if self.holder in workers:
            self.holder = None
            if self.plain.locked():
                self.plain.release()


class _OsProxy:
    def __init__(self, sched):
        self._sched = sched

    def remove(self, p):
        self._sched.point("remove", str(p))
        return os.remove(p)

    def __getattr__(self, k):
        return getattr(os, k)


class _AtexitStub:
    def __init__(self):
        self.handlers = []

    def register(self, f, *a, **k):
        self.handlers.append((f, a, k))
        return f

    def unregister(self, f):
        self.handlers = [h for h in self.handlers if h[0] is not f]


class StatSnapshot:
    def __init__(self, lines, real_subjects, real_error):
        self.lines = lines
        self.real_subjects = real_subjects
        self.real_error = real_error


class Instrument:
    """install()/uninstall() the wrappers in panoptica.panoptica_aggregator's namespace"""

    NAMES = ["filelock", "inevalfilelock", "Lock", "_write_content", "_load_first_column_entries", "_read_first_row",
             "os", "open", "print", "atexit", "Panoptica_Statistic"]

    def __init__(self):
        import panoptica.panoptica_aggregator as PA
        self.PA = PA
        self.saved = None
        self.sched = None
        self.use_real_stat = False

    def install(self):
        PA = self.PA
        if self.saved is None:
            self.saved = {n: PA.__dict__[n] for n in self.NAMES if n in PA.__dict__}
        self.fresh()

    def fresh(self):
        """new scheduler + new lock objects (a new process after a crash starts with free locks)"""
        PA, saved = self.PA, self.saved
        s = self.sched = Sched()
        self.lockF = PA.filelock = ILock(s, "F")
        self.lockE = PA.inevalfilelock = ILock(s, "E")
        if "Lock" in saved:
            # locks the code creates later (per file, lazily, ...) are instrumented as well
            made = []
            self.made_locks = made

            def make_lock(*a, **k):
                l = ILock(s, f"L{len(made)}")
                made.append(l)
                return l
            PA.Lock = make_lock
        self.atexit = PA.atexit = _AtexitStub()
        PA.os = _OsProxy(s)
        PA.print = lambda *a, **k: None
        o_write, o_load, o_row = saved["_write_content"], saved["_load_first_column_entries"], saved["_read_first_row"]
        real_stat = saved["Panoptica_Statistic"]
        inst = self

        def helper(f):
            def g(*a, **k):
                w = getattr(threading.current_thread(), "_agg_worker", None)
                if w is not None:
                    w.in_helper += 1
                try:
                    return f(*a, **k)
                finally:
                    if w is not None:
                        w.in_helper -= 1
            return g

        def fname(file):
            """the path a helper works on, also when it is handed an already opened file object instead of a path"""
            return str(file) if isinstance(file, (str, os.PathLike)) else str(getattr(file, "name", file))

        def w_write(file, content):
            if not os.path.exists(fname(file)):
                s.point("create", fname(file))
                builtins.open(fname(file), "a").close()
            s.point("write", fname(file))
            return helper(o_write)(file, content)

        def w_load(file, *a, **k):
            s.point("load", fname(file))
            return helper(o_load)(file, *a, **k)

        def w_row(file, *a, **k):
            s.point("readrow", fname(file))
            return helper(o_row)(file, *a, **k)

        def w_open(file, mode="r", *a, **k):
            if "a" in mode and not os.path.exists(str(file)):
                s.point("create", str(file))
            return builtins.open(file, mode, *a, **k)

        class StatStub:
            @staticmethod
            def from_file(file):
                s.point("statread", str(file))
                lines = read_lines(file)
                subj, err = None, None
                if inst.use_real_stat:
                    try:
                        import contextlib, io
                        with contextlib.redirect_stdout(io.StringIO()):
                            st = helper(real_stat.from_file)(file)
                        subj = list(st.subjectnames)
                    except Killed:
                        raise
                    except Exception as e:  # noqa
                        # the real loader raises on a table without rows (observation O1); the exception propagates out of the
                        # locked region of make_statistic exactly as in real use -- the locks must be free again afterwards
                        if isinstance(e, IndexError) and lines is not None and len(lines) <= 1:
                            raise
                        err = type(e).__name__
                return StatSnapshot(lines, subj, err)

        PA._write_content, PA._load_first_column_entries, PA._read_first_row = w_write, w_load, w_row
        PA.open = w_open
        PA.Panoptica_Statistic = StatStub
        return s

    def uninstall(self):
        if self.saved is not None:
            for n, v in self.saved.items():
                setattr(self.PA, n, v)
            for n in ("open", "print"):
                if n not in self.saved and n in self.PA.__dict__:
                    delattr(self.PA, n)
            self.saved = None


def read_lines(path):
    """rows of a tsv file as lists of cells, None when absent"""
    p = str(path)
    if not os.path.exists(p):
        return None
    with builtins.open(p, "r", encoding="utf8", newline="") as f:
        return [row for row in csv.reader(f, delimiter="\t", lineterminator="\n")]


# ------------------------------------------------------------------ evaluators
class FakeResult:
    def __init__(self, v):
        self.v = v
        self.computation_time = None

    def to_dict(self):
        return {"m": self.v}


# constructor options of the aggregator per setup id: setup 9 = ONE evaluator object shared by all its sessions, timing column on
AGG_KW = {9: {"log_times": True}}


class StubEvaluator:
    """the three members the aggregator uses; evaluate() is a scheduling point"""

    def __init__(self, sched_ref, keys=("m",), groups=("g",)):
        self.sched_ref = sched_ref
        self.segmentation_class_groups_names = list(groups)
        self.resulting_metric_keys = list(keys)

    def evaluate(self, pred, ref, result_all=True, verbose=False, log_times=False, **k):
        self.sched_ref().point("eval", None)
        v = int(pred.flat[0]) if hasattr(pred, "flat") else int(pred)
        return {g: (FakeResult(v), None) for g in self.segmentation_class_groups_names}


class WrappedEvaluator:
    """a real Panoptica_Evaluator behind a scheduling point"""

    def __init__(self, sched_ref, inner):
        self.sched_ref = sched_ref
        self.inner = inner
        self.segmentation_class_groups_names = inner.segmentation_class_groups_names
        self.resulting_metric_keys = inner.resulting_metric_keys

    def evaluate(self, *a, **k):
        self.sched_ref().point("eval", None)
        return self.inner.evaluate(*a, **k)


# ------------------------------------------------------------------ model encoding
def enc_name(s):
    return [ord(c) for c in s]


def enc_file_lines(lines, hdr_ids, row_ids):
    """observed output file -> Coq `file line`; unknown header -> id 99, unknown row content -> payload -1"""
    if lines is None:
        return [0]
    out = []
    for i, cells in enumerate(lines):
        key = tuple(cells)
        if i == 0 and key in hdr_ids:
            out.append([0, hdr_ids[key]])
        elif key in hdr_ids:
            out.append([0, hdr_ids[key]])
        else:
            name = cells[0] if cells else ""
            out.append([1, enc_name(name), row_ids.get(tuple(cells[1:]), -1)])
    return [1, out]


def enc_file_names(lines):
    if lines is None:
        return [0]
    return [1, [enc_name(c[0] if c else "") for c in lines]]


def enc_calls(calls):
    """calls: list of ("e", name, inp) | ("s",)"""
    return [[0, enc_name(c[1]), c[2]] if c[0] == "e" else [1] for c in calls]


FINISHED_PCS = {9, 10, 14}


# ------------------------------------------------------------------ running one scenario on the real code
class Comp:
    def __init__(self, path):
        self.given = str(path)                       # what is handed to the constructor
        self.path = str(path) if "." in Path(path).name else str(path) + ".tsv"   # documented: ".tsv" is appended
        self.buf = str(Path(self.path).parent / ("panoptica_aggregator_tmp_" + Path(self.path).name))
        self.h = None
        self.calls = []
        self.ctor = None        # Worker or "sync"
        self.ctor_state = "run"  # run | done | fail
        self.agg = None
        self.workers = None     # list of Worker once the constructor has returned
        self.handlers = []
        self.errors = []
        self.sessions = []
        self.start_out = None


class Runner:
    """evaluators: h -> factory(sched_ref) giving the evaluator object handed to the aggregator;
    inputs: p -> (prediction, reference); hdr_ids / row_ids: observed text -> model ids"""

    def __init__(self, inst, workdir, evaluators, inputs, hdr_ids, row_ids, header_text):
        self.inst, self.workdir = inst, Path(workdir)
        self.evaluators, self.inputs = evaluators, inputs
        self.hdr_ids, self.row_ids, self.header_text = hdr_ids, row_ids, header_text
        self.row_text = {}
        for k, v in row_ids.items():
            self.row_text.setdefault(v, k)        # the first (setup 7) text of a payload is used for pre-existing rows
        self.n = 0

    # -- files
    def prepare(self, c, spec):
        for p in (c.path, c.buf, c.given):
            if os.path.exists(p):
                os.remove(p)
        init = spec.get("init", "absent")
        if init != "absent":
            with builtins.open(c.path, "w", encoding="utf8", newline="") as f:
                w = csv.writer(f, delimiter="\t", lineterminator="\n")
                if init in ("header", "rows"):
                    w.writerow(self.header_text[spec.get("init_h", 7)])
                if init == "rows":
                    for name, p in spec.get("init_rows", []):
                        w.writerow([name] + list(self.row_text[p]))
        if spec.get("stale_buf") is not None:
            with builtins.open(c.buf, "w", encoding="utf8", newline="") as f:
                for nme in spec["stale_buf"]:
                    f.write(nme + "\n")

    def observe(self, comps):
        obs = []
        for c in comps:
            flags = [w.state in ("done", "killed") for w in c.workers] if c.workers is not None else [False] * len(c.calls)
            obs.append({"out": read_lines(c.path), "buf": read_lines(c.buf), "ctor": c.ctor_state, "done": flags})
        return obs

    # -- sessions
    def start_session(self, c, h, calls, sync=False):
        s = self.inst.sched
        c.h, c.calls, c.agg, c.workers, c.handlers = h, calls, None, None, []
        c.start_out = read_lines(c.path)
        c.ctor_state = "run"
        ev = self.evaluators[h](lambda: self.inst.sched)

        def build():
            return self.inst.PA.Panoptica_Aggregator(ev, c.given, **AGG_KW.get(h, {}))
        if sync:
            n0 = len(self.inst.atexit.handlers)
            try:
                c.agg = build()
                c.ctor_state = "done"
                c.handlers = self.inst.atexit.handlers[n0:]
            except AssertionError as e:
                c.ctor_state = "fail"
                c.errors.append("ctor:" + type(e).__name__)
            c.ctor = "sync"
            self.after_ctor(c)
        else:
            c.ctor = s.spawn("ctor", build)
            self.ctor_progress(c, len(self.inst.atexit.handlers))

    def ctor_progress(self, c, n0):
        w = c.ctor
        if w == "sync" or c.ctor_state != "run":
            return
        if w.state == "done":
            if w.error is None:
                c.agg = w.result
                c.ctor_state = "done"
                c.handlers = self.inst.atexit.handlers[n0:]
                self.after_ctor(c)
            else:
                c.ctor_state = "fail"
                c.errors.append("ctor:" + type(w.error).__name__)

    def after_ctor(self, c):
        if c.ctor_state != "done":
            return
        s = self.inst.sched
        c.workers = []
        for call in c.calls:
            if call[0] == "e":
                pred, ref = self.inputs[call[2]]
                fn = (lambda a=c.agg, p=pred, r=ref, n=call[1]: a.evaluate(p, r, n))
            else:
                fn = (lambda a=c.agg: a.make_statistic())
            c.workers.append(s.spawn("call", fn))

    def kill_session(self, c):
        ws = ([c.ctor] if isinstance(c.ctor, Worker) else []) + (c.workers or [])
        for w in ws:
            self.inst.sched.kill(w)
        for lk in [self.inst.lockE, self.inst.lockF] + list(getattr(self.inst, "made_locks", [])):
            lk.reset_if_held_by(ws)
        hs = set(id(h) for h in c.handlers)
        self.inst.atexit.handlers = [h for h in self.inst.atexit.handlers if id(h) not in hs]

    def do_event(self, comps, e):
        s = self.inst.sched
        tag = e[0]
        mv = None
        if tag == 0:
            c = comps[e[1]]
            if c.workers is not None and e[2] < len(c.workers):
                mv = s.step(c.workers[e[2]])
        elif tag == 1:
            c = comps[e[1]]
            if isinstance(c.ctor, Worker) and c.ctor_state == "run":
                n0 = len(self.inst.atexit.handlers)
                mv = s.step(c.ctor)
                self.ctor_progress(c, n0)
        elif tag == 2:
            c = comps[e[1]]
            self.end_session(c)
            self.kill_session(c)
            self.start_session(c, e[2], e[3])
            mv = "crash"
        elif tag == 3:
            c = comps[e[1]]
            if c.ctor_state == "done" and c.workers is not None and all(w.state == "done" for w in c.workers):
                self.end_session(c)
                for f, a, k in c.handlers:
                    f(*a, **k)
                self.kill_session(c)
                self.start_session(c, e[2], e[3])
                mv = "finish"
        elif tag == 4:
            for c in comps:
                self.end_session(c)
                self.kill_session(c)
            for c, (h, calls) in zip(comps, e[1]):
                self.start_session(c, h, calls)
            mv = "crashall"
        return mv

    def end_session(self, c):
        """record how the session that is about to end stands (for the final-state oracle)"""
        done = c.ctor_state == "done" and c.workers is not None and all(w.state == "done" for w in c.workers)
        stats = []
        for w in (c.workers or []):
            if w.state == "done" and w.error is not None:
                c.errors.append("call:" + type(w.error).__name__ + ":" + str(w.error)[:80])
            if w.state == "done" and isinstance(w.result, StatSnapshot):
                stats.append(w.result)
        c.sessions.append({"h": c.h, "calls": c.calls, "start_out": c.start_out, "complete": done,
                           "ctor": c.ctor_state, "end_out": read_lines(c.path), "stats": stats,
                           "at": len(self.cur_trace)})

    def run(self, scen):
        self.inst.fresh()
        self.inst.use_real_stat = bool(scen.get("real_stat"))
        self.n += 1
        d = self.workdir / f"r{self.n % 64}"
        d.mkdir(parents=True, exist_ok=True)
        # an extension-less path must not contain a '.' anywhere (the code looks for "." in the whole path):
        # run such scenarios with relative paths from inside the scratch directory
        rel = any("." not in spec["file"] for spec in scen["comps"])
        cwd = os.getcwd()
        if rel:
            os.chdir(d)
        try:
            return self._run(scen, [Comp(Path(spec["file"]) if rel else d / spec["file"]) for spec in scen["comps"]])
        finally:
            if rel:
                os.chdir(cwd)

    def _run(self, scen, comps):
        self.cur_trace = trace = []
        for c, spec in zip(comps, scen["comps"]):
            self.prepare(c, spec)
        for c, spec in zip(comps, scen["comps"]):
            self.start_session(c, spec.get("h", 7), spec["calls"], sync=bool(spec.get("ready")))
        init = self.observe(comps)
        moved = []
        events = list(scen["events"])
        for e in events:
            moved.append(self.do_event(comps, e))
            trace.append(self.observe(comps))
        hang = False
        if scen.get("complete"):
            # round-robin until every constructor and call has returned (or nothing can move: deadlock)
            for _ in range(400):
                progressed, alldone = False, True
                for k, c in enumerate(comps):
                    cand = []
                    if c.ctor_state == "run":
                        cand.append([1, k])
                        alldone = False
                    elif c.workers is not None:
                        for i, w in enumerate(c.workers):
                            if w.state == "waiting":
                                cand.append([0, k, i])
                                alldone = False
                    for e in cand:
                        mv = self.do_event(comps, e)
                        if mv is not None:
                            progressed = True
                            events.append(e)
                            moved.append(mv)
                            trace.append(self.observe(comps))
                if alldone:
                    break
                if not progressed:
                    hang = True
                    break
        for c in comps:
            self.end_session(c)
        sessions = [c.sessions for c in comps]
        errors = [list(c.errors) for c in comps]
        for c in comps:          # leave no thread behind
            self.kill_session(c)
        return {"init": init, "trace": trace, "moved": moved, "errors": errors, "sessions": sessions,
                "events": events, "hang": hang, "paths": [(c.path, c.buf) for c in comps]}

    # -- encoding for the model
    def enc_obs_comp(self, o):
        return [enc_file_lines(o["out"], self.hdr_ids, self.row_ids), enc_file_names(o["buf"])]

    def model_input(self, scen, init_obs, events=None):
        comps = []
        for spec, o in zip(scen["comps"], init_obs):
            f = self.enc_obs_comp(o)
            comps.append([f[0], f[1], spec.get("h", 7), 1 if spec.get("ready") else 0, enc_calls(spec["calls"])])
        evs = []
        for e in (events if events is not None else scen["events"]):
            if e[0] in (0,):
                evs.append([0, e[1], e[2]])
            elif e[0] == 1:
                evs.append([1, e[1]])
            elif e[0] in (2, 3):
                evs.append([e[0], e[1], e[2], enc_calls(e[3])])
            else:
                evs.append([4, [[h, enc_calls(cs)] for h, cs in e[1]]])
        return [comps, evs]

    def compare(self, model_states, trace):
        """first (event index, component, what) where model and observation differ, else None"""
        for i, (ms, obs) in enumerate(zip(model_states, trace)):
            for k, (m, o) in enumerate(zip(ms, obs)):
                f = self.enc_obs_comp(o)
                if m[0] != f[0]:
                    return (i, k, "output file", m[0], f[0])
                if m[1] != f[1]:
                    return (i, k, "buffer file", m[1], f[1])
                mc = {10: "done", 11: "fail"}.get(m[2], "run")
                if mc != o["ctor"]:
                    return (i, k, "constructor state", m[2], o["ctor"])
                md = [p[0] in FINISHED_PCS for p in m[3]]
                if md != o["done"]:
                    return (i, k, "returned calls", md, o["done"])
        return None


# ------------------------------------------------------------------ environment: evaluators, inputs, sequential oracle rows
class _NullSched:
    def point(self, *a, **k):
        return None


def build_env(workdir, real=False):
    """Returns (inst, runner).  The expected header / row texts are produced by SEQUENTIAL runs of the
    unmodified aggregator ("the values a sequential run would produce")."""
    import numpy as np
    common.setup_impl_env()
    inst = Instrument()
    PA = inst.PA
    workdir = Path(workdir)
    workdir.mkdir(parents=True, exist_ok=True)
    if real:
        common.serial_pool()
        from panoptica import Panoptica_Evaluator, InputType
        from panoptica.metrics import Metric
        e7 = Panoptica_Evaluator(InputType.MATCHED_INSTANCE, instance_metrics=[Metric.IOU])
        e8 = Panoptica_Evaluator(InputType.MATCHED_INSTANCE, instance_metrics=[Metric.IOU, Metric.DSC])
        evaluators = {7: lambda sr, e=e7: WrappedEvaluator(sr, e), 8: lambda sr, e=e8: WrappedEvaluator(sr, e)}
        pairs = [([[1, 1], [0, 0]], [[1, 1], [0, 0]]), ([[1, 0], [0, 0]], [[1, 1], [0, 0]]),
                 ([[1, 1], [1, 0]], [[1, 0], [0, 0]]), ([[1, 1], [2, 2]], [[1, 1], [2, 0]]),
                 ([[0, 0], [0, 0]], [[1, 1], [0, 0]]), ([[1, 1], [0, 2]], [[1, 0], [2, 2]])]
        inputs = {i + 1: (np.array(a, dtype=np.uint8), np.array(b, dtype=np.uint8)) for i, (a, b) in enumerate(pairs)}
    else:
        shared = StubEvaluator(None, ("m",))

        def fac9(sr, e=shared):
            e.sched_ref = sr                  # the same evaluator object in every session, as a user would reuse it
            return e
        evaluators = {7: lambda sr: StubEvaluator(sr, ("m",)), 8: lambda sr: StubEvaluator(sr, ("m", "k")), 9: fac9}
        inputs = {p: (np.array([[p]]), np.array([[p]])) for p in range(1, 7)}
    # sequential reference runs on the unmodified module
    import contextlib
    import io
    hdr_ids, row_ids, header_text = {}, {}, {}
    null = _NullSched()
    with contextlib.redirect_stdout(io.StringIO()):
        for h, fac in evaluators.items():
            f = workdir / f"seq_{h}.tsv"
            for q in (f, f.parent / ("panoptica_aggregator_tmp_" + f.name)):
                if q.exists():
                    q.unlink()
            n0 = None
            agg = PA.Panoptica_Aggregator(fac(lambda: null), f, **AGG_KW.get(h, {}))
            for p, (a, b) in inputs.items():
                agg.evaluate(a, b, f"x{p}")
            lines = read_lines(f)
            header_text[h] = lines[0]
            hdr_ids[tuple(lines[0])] = h
            if h in (7, 9):
                for p, cells in zip(inputs, lines[1:]):
                    row_ids.setdefault(tuple(cells[1:]), p)
            import atexit as _ax
            try:
                _ax.unregister(agg._Panoptica_Aggregator__exist_handler)
            except Exception:
                pass
            for q in (f, f.parent / ("panoptica_aggregator_tmp_" + f.name)):
                if q.exists():
                    q.unlink()
    if len(set(row_ids.values())) != len(inputs) or len(row_ids) not in (len(inputs), 2 * len(inputs)):
        raise RuntimeError("inputs do not give pairwise distinct rows")
    inst.install()
    runner = Runner(inst, workdir, evaluators, inputs, hdr_ids, row_ids, header_text)
    return inst, runner


# ------------------------------------------------------------------ checking scenarios: model + oracles
WHAT = {0: "output file is not 'absent | empty | one header then complete rows with distinct names'",
        1: "call-phase invariant broken (header of this setup, duplicate-free rows, duplicate-free claims, rows subset of claims)",
        2: "an existing line of the output file was altered or removed",
        4: "a session with a different setup (header) added lines to the output file",
        3: "final file is not 'header once, old rows in place, exactly one row per submitted subject with a sequential run's values'"}


def _rows(enc):
    """rows [name, p] of an encoded output file (header dropped)"""
    if enc[0] == 0:
        return []
    return [[l[1], l[2]] for l in enc[1][1:] if l[0] == 1]


def oracle_checks(runner, scen, r):
    checks, labels = [], []
    ncomp = len(scen["comps"])
    for k in range(ncomp):
        states = [r["init"][k]] + [t[k] for t in r["trace"]]
        sess = r["sessions"][k]
        bounds, s0 = [], 0
        for sj in sess:
            bounds.append((s0, sj["at"], sj["h"]))
            s0 = sj["at"] + 1
        prevkey, prevout = None, None

        def h_at(i):
            for a, b, h in bounds:
                if a <= i <= b:
                    return h
            return bounds[-1][2]
        for i, st in enumerate(states):
            eo = enc_file_lines(st["out"], runner.hdr_ids, runner.row_ids)
            eb = enc_file_names(st["buf"])
            key = (repr(eo), repr(eb), st["ctor"])
            if key != prevkey:
                checks.append([0, eo]); labels.append((k, 0, i))
                if st["ctor"] == "done":
                    checks.append([1, h_at(i), eo, eb]); labels.append((k, 1, i))
            if prevout is not None and repr(prevout) != repr(eo):
                checks.append([2, prevout, eo]); labels.append((k, 2, i))
            prevkey, prevout = key, eo
        for j, sj in enumerate(sess):
            end = enc_file_lines(sj["end_out"], runner.hdr_ids, runner.row_ids)
            st0 = enc_file_lines(sj["start_out"], runner.hdr_ids, runner.row_ids)
            if st0[0] == 1 and st0[1] and st0[1][0][0] == 0 and st0[1][0][1] != sj["h"]:
                # a different setup (C17_header_mismatch_rejected): the file must stay exactly as it was
                checks.append([2, end, st0]); labels.append((k, 4, f"session {j}"))
            if sj["complete"]:
                old = _rows(enc_file_lines(sj["start_out"], runner.hdr_ids, runner.row_ids))
                sub = [[enc_name(c[1]), c[2]] for c in sj["calls"] if c[0] == "e"]
                checks.append([3, sj["h"], old, sub, end]); labels.append((k, 3, f"session {j}"))
            for sn in sj["stats"]:
                es = enc_file_lines(sn.lines, runner.hdr_ids, runner.row_ids)
                checks.append([0, es]); labels.append((k, 0, f"statistics snapshot, session {j}"))
                checks.append([2, es, end]); labels.append((k, 2, f"statistics snapshot vs file, session {j}"))
                if sn.real_subjects is not None and sn.real_subjects != [c[0] for c in (sn.lines or [])[1:]]:
                    checks.append([0, [1, [[1, [], 0]]]]); labels.append((k, 0, "Panoptica_Statistic subjects differ from the file rows"))
    return checks, labels


def check_batch(runner, scens, op_base=1600):
    """run every scenario on the implementation and the model; returns one verdict dict per scenario"""
    all_scens = scens
    runs_all = []
    for sc in scens:
        if LOST_CONTROL["flag"]:
            runs_all.append(None)
            continue
        try:
            runs_all.append(runner.run(sc))
        except Stuck as e:
            LOST_CONTROL["flag"], LOST_CONTROL["why"] = True, str(e)
            runs_all.append(None)
    lost = {"status": "disagree", "events": [], "moved": [], "switches": 0, "blocked": 0, "final": [],
            "what": "the harness lost control of the aggregator's threads (" + LOST_CONTROL["why"] + "): the locking of the code "
                    "under test is no longer the two module-level locks the model describes; schedules cannot be replayed"}
    scens = [sc for sc, r in zip(all_scens, runs_all) if r is not None]
    runs = [r for r in runs_all if r is not None]
    minputs = [runner.model_input(sc, r["init"], r["events"]) for sc, r in zip(scens, runs)]
    mouts = common.engine_run(op_base + 1, minputs, nproc=1) if runs else []
    oc = [oracle_checks(runner, sc, r) for sc, r in zip(scens, runs)]
    oouts = common.engine_run(op_base + 2, [c for c, _ in oc], nproc=1) if runs else []
    verdicts = []
    for sc, r, mi, mo, (chk, lab), oo in zip(scens, runs, minputs, mouts, oc, oouts):
        v = {"status": "ok", "events": r["events"], "moved": r["moved"], "model_in": mi, "model_out": mo}
        bad = [(l, c) for l, c, res in zip(lab, chk, oo) if res != 1]
        diff = runner.compare(mo, r["trace"])
        errs = []
        for k, es in enumerate(r["errors"]):
            mfail = any(st[k][2] == 11 for st in mo) if mo else False
            for e in es:
                if e.startswith("ctor:AssertionError") and mfail:
                    continue
                if e.startswith("call:IndexError") and sc.get("real_stat"):
                    continue              # O1: make_statistic on a table without rows raises in Panoptica_Statistic.from_file (not claimed)
                errs.append(f"aggregator {k}: {e}")
        if bad:
            (k, kind, where), c = bad[0]
            v.update(status="violation", what=f"{WHAT[kind]} (aggregator {k}, {('after event %d' % (where - 1)) if isinstance(where, int) else where})",
                     failed_check=c)
        elif errs:
            v.update(status="violation", what="a call or the constructor raised: " + "; ".join(errs[:3]))
        elif r["hang"]:
            v.update(status="violation", what="deadlock: some call can never return (no thread can move)")
        elif diff is not None:
            i, k, what, m, o = diff
            v.update(status="disagree", what=f"{what} differs between model and implementation after event {i} (aggregator {k})",
                     model=m, observed=o)
        v["final"] = [[enc_file_lines(sj["end_out"], runner.hdr_ids, runner.row_ids) for sj in ss][-1] for ss in r["sessions"]]
        v["switches"] = sum(1 for a, b in zip(r["events"], r["events"][1:]) if a != b)
        v["blocked"] = sum(1 for e, m in zip(r["events"], r["moved"]) if m is None)
        verdicts.append(v)
    it = iter(verdicts)
    return [dict(lost) if r is None else next(it) for r in runs_all]


def _worker(args):
    idx, scens, real, root, op_base = args
    inst, runner = build_env(Path(root) / f"w{idx}_{os.getpid()}", real=real)
    out = []
    try:
        for i in range(0, len(scens), 400):
            for j, v in enumerate(check_batch(runner, scens[i:i + 400], op_base)):
                # keep the payload small (every 23rd model run is kept for the vm_compute cross-check)
                if v["status"] == "ok" and j % 23 != 0:
                    v.pop("model_in", None); v.pop("model_out", None); v.pop("moved", None)
                out.append(v)
    finally:
        inst.uninstall()
        import shutil
        shutil.rmtree(runner.workdir, ignore_errors=True)
    return out


def parallel_check(scens, real=False, nproc=None, op_base=1600, keep_model=0):
    """verdicts in the order of `scens`; forks workers (each with its own scratch directory and scheduler)"""
    import multiprocessing as mp
    root = common.WORK / "agg"
    root.mkdir(parents=True, exist_ok=True)
    nproc = max(1, min(nproc or common.NPROC, len(scens) // 150 + 1))
    if nproc == 1:
        return _worker((0, scens, real, str(root), op_base))
    chunks = [scens[i::nproc] for i in range(nproc)]
    ctx = mp.get_context("fork")
    with ctx.Pool(nproc) as pool:
        parts = pool.map(_worker, [(i, ch, real, str(root), op_base) for i, ch in enumerate(chunks)])
    merged = [None] * len(scens)
    for i, p in enumerate(parts):
        merged[i::nproc] = p
    return merged


# ------------------------------------------------------------------ schedule generators
def interleavings(counts):
    """all merges of sequences with the given lengths, as lists of indices"""
    def rec(rem, acc):
        if not any(rem):
            yield list(acc)
            return
        for i, n in enumerate(rem):
            if n:
                rem[i] -= 1
                acc.append(i)
                yield from rec(rem, acc)
                acc.pop()
                rem[i] += 1
    yield from rec(list(counts), [])


def random_schedule(rng, n_threads, length):
    """bursty random schedule: runs of the same thread of random length"""
    out = []
    while len(out) < length:
        t = rng.randrange(n_threads)
        out += [t] * rng.choice([1, 1, 1, 2, 2, 3, 5])
    return out[:length]


# ------------------------------------------------------------------ bookkeeping shared by c16.py / c17.py
def record(ctx, scens, verdicts, layer, real=False, triples=None, prop="C16"):
    """feed verdicts into the check context; returns the number of violations"""
    nv = 0
    for sc, v in zip(scens, verdicts):
        names = [c[1] for comp in sc["comps"] for c in comp["calls"] if c[0] == "e"]
        nontriv = v["switches"] >= 2 and (v["blocked"] > 0 or len(set(names)) < len(names) or len(v["events"]) > 12)
        ctx.count({"comps": sc["comps"], "events": v["events"]}, nontriv)
        ctx.bump(layer)
        if triples is not None and "model_in" in v and v["status"] == "ok" and len(triples) < 70:
            triples.append((int(prop[1:]) * 100 + 1, v["model_in"], v["model_out"]))
        if v["status"] == "ok":
            continue
        if v["status"] == "disagree" and v.get("what", "").startswith("the harness lost control"):
            if getattr(ctx, "_lost_control_reported", False):
                continue                      # one report: every later scenario is affected in the same way
            ctx._lost_control_reported = True
        rep = {"scenario": dict(sc, events=v["events"], complete=False), "evaluator": "real" if real else "stub",
               "layer": layer, "detail": {k: v[k] for k in ("failed_check", "model", "observed") if k in v}}
        if sc.get("finding_key"):
            rep["finding_key"] = sc["finding_key"]
        if v["status"] == "violation":
            nv += 1
            ctx.violation(v["what"], rep)
        else:
            ctx.disagree("aggregator-protocol: " + v["what"], rep)
    return nv


def replay_file(path, op_base):
    import json
    d = json.loads(open(path).read())
    sc = d["scenario"]
    inst, runner = build_env(common.WORK / "agg" / f"replay_{os.getpid()}", real=d.get("evaluator") == "real")
    try:
        r = runner.run(sc)
        mi = runner.model_input(sc, r["init"], r["events"])
        mo = common.engine_run(op_base + 1, [mi], nproc=1)[0]
        print("events (0 k i = step call i of aggregator k; 1 k = step constructor; 2/3/4 = crash/exit/crash-all):")
        for i, (e, mv, obs, ms) in enumerate(zip(r["events"], r["moved"], r["trace"], mo)):
            print(f" {i:3d} {e!s:32} -> {mv}")
            for k, (o, m) in enumerate(zip(obs, ms)):
                print(f"       impl[{k}]  out={o['out']} buf={o['buf']} ctor={o['ctor']} returned={o['done']}")
                print(f"       model[{k}] out={m[0]} buf={m[1]} ctor={m[2]} pcs={[p[0] for p in m[3]]}")
        v = check_batch(runner, [sc], op_base)[0]
    finally:
        inst.uninstall()
    print("verdict:", v["status"], "-", v.get("what", "model and implementation agree; all oracles hold"))
    return 0 if v["status"] == "ok" else 1


FORK_SMOKE = r"""
import os, sys, io, contextlib, json
os.environ["PANOPTICA_CITATION_REMINDER"] = "false"
sys.path.insert(0, sys.argv[1])
import numpy as np
import multiprocessing as mp
from panoptica import Panoptica_Evaluator, InputType
from panoptica.metrics import Metric
import panoptica.panoptica_aggregator as PA
ev = Panoptica_Evaluator(InputType.MATCHED_INSTANCE, instance_metrics=[Metric.IOU])
out = sys.argv[2]
jobs = json.loads(sys.argv[3])            # per worker: list of [name, k]
def arr(k):
    a = np.zeros((2, 2), np.uint8); a.flat[:k] = 1; return a
ref = arr(4)
def work(agg, items):
    with contextlib.redirect_stdout(io.StringIO()):
        for name, k in items:
            agg.evaluate(arr(k), ref, name)
if __name__ == "__main__":
    with contextlib.redirect_stdout(io.StringIO()):
        agg = PA.Panoptica_Aggregator(ev, out)
    ps = [mp.get_context("fork").Process(target=work, args=(agg, it)) for it in jobs]
    [p.start() for p in ps]; [p.join(120) for p in ps]
    print(json.dumps({"alive": [p.is_alive() for p in ps], "codes": [p.exitcode for p in ps]}))
    [p.kill() for p in ps if p.is_alive()]
    with contextlib.redirect_stdout(io.StringIO()):
        seq = PA.Panoptica_Aggregator(ev, out.replace(".tsv", "_seq.tsv"))
        for name, k in sorted(set((n, k) for it in jobs for n, k in it)):
            seq.evaluate(arr(k), ref, name)
"""


def fork_smoke(rng, n_workers=4, n_subjects=6):
    """real forked processes on the unmodified module; returns (jobs, lines of the final file, process report)"""
    import json
    import subprocess
    import sys
    import tempfile
    d = tempfile.mkdtemp(dir=str(common.WORK))
    script = Path(d) / "smoke.py"
    script.write_text(FORK_SMOKE)
    names = [f"s{i}" for i in range(n_subjects)]
    kk = {n: rng.randint(1, 4) for n in names}
    jobs = [[[n, kk[n]] for n in rng.sample(names, rng.randint(2, n_subjects))] for _ in range(n_workers)]
    out = str(Path(d) / "smoke.tsv")
    p = subprocess.run([sys.executable, str(script), str(common.REPO), out, json.dumps(jobs)], capture_output=True,
                       text=True, timeout=300, env=dict(os.environ, PYTHONHASHSEED="0"))
    rep = p.stdout.strip().split("\n")[-1] if p.stdout.strip() else p.stderr[-500:]
    lines = read_lines(out)
    seq = read_lines(out.replace(".tsv", "_seq.tsv"))
    import shutil
    shutil.rmtree(d, ignore_errors=True)
    return jobs, kk, lines, seq, rep


FORK_ROUNDS = r"""
import os, sys, io, contextlib, json
os.environ["PANOPTICA_CITATION_REMINDER"] = "false"
sys.path.insert(0, sys.argv[1])
import numpy as np
import multiprocessing as mp
from panoptica import Panoptica_Evaluator, InputType
from panoptica.metrics import Metric
import panoptica.panoptica_aggregator as PA
ev = Panoptica_Evaluator(InputType.MATCHED_INSTANCE, instance_metrics=[Metric.IOU])
out = sys.argv[2]
rounds = json.loads(sys.argv[3])          # per round: per worker [name, k] or null
opts = json.loads(sys.argv[4])
def arr(k):
    a = np.zeros((2, 2), np.uint8); a.flat[:k] = 1; return a
ref = arr(4)
def work(agg, wi, barrier, q):
    errs = []
    with contextlib.redirect_stdout(io.StringIO()):
        for rd in rounds:
            try:
                barrier.wait(60)
            except Exception as e:
                errs.append("barrier:" + type(e).__name__)
                break
            item = rd[wi]
            if item is None:
                continue
            try:
                agg.evaluate(arr(item[1]), ref, item[0])
            except BaseException as e:
                errs.append(type(e).__name__ + ":" + str(e)[:80])
    q.put((wi, errs))
if __name__ == "__main__":
    ctx = mp.get_context("fork")
    with contextlib.redirect_stdout(io.StringIO()):
        agg = PA.Panoptica_Aggregator(ev, out, continue_file=opts["continue_file"])
    n = len(rounds[0])
    barrier = ctx.Barrier(n)
    q = ctx.Queue()
    ps = [ctx.Process(target=work, args=(agg, i, barrier, q)) for i in range(n)]
    [p.start() for p in ps]; [p.join(180) for p in ps]
    errs = {}
    while not q.empty():
        wi, e = q.get()
        errs[wi] = e
    print(json.dumps({"alive": [p.is_alive() for p in ps], "codes": [p.exitcode for p in ps], "errors": errs}))
    [p.kill() for p in ps if p.is_alive()]
    with contextlib.redirect_stdout(io.StringIO()):
        seq = PA.Panoptica_Aggregator(ev, out.replace(".tsv", "_seq.tsv"), continue_file=opts["continue_file"])
        for name, k in sorted(set((it[0], it[1]) for rd in rounds for it in rd if it is not None)):
            seq.evaluate(arr(k), ref, name)
"""


def fork_rounds_case(rng, n_workers=4, n_rounds=5):
    """barrier-synchronised rounds: in every round all workers call evaluate at the same moment, several of them with the
    SAME subject name (the claim step must be exclusive across PROCESSES, whatever constructor options were used)"""
    kk = {}
    rounds = []
    for r in range(n_rounds):
        shared = f"shared{r}"
        kk[shared] = rng.randint(1, 4)
        rd = []
        for w in range(n_workers):
            if rng.random() < 0.7:
                rd.append([shared, kk[shared]])
            elif rng.random() < 0.8:
                nm = f"w{w}r{r}"
                kk[nm] = rng.randint(1, 4)
                rd.append([nm, kk[nm]])
            else:
                rd.append(None)
        rounds.append(rd)
    return {"rounds": rounds, "continue_file": rng.random() < 0.5}


def fork_rounds_run(case):
    """-> (lines of the final file, lines of the sequential file, process report dict or text)"""
    import json
    import shutil
    import subprocess
    import sys
    import tempfile
    d = tempfile.mkdtemp(dir=str(common.WORK))
    script = Path(d) / "rounds.py"
    script.write_text(FORK_ROUNDS)
    out = str(Path(d) / "rounds.tsv")
    try:
        p = subprocess.run([sys.executable, str(script), str(common.REPO), out, json.dumps(case["rounds"]),
                            json.dumps({"continue_file": case["continue_file"]})], capture_output=True, text=True, timeout=400,
                           env=dict(os.environ, PYTHONHASHSEED="0"))
        txt = p.stdout.strip().split("\n")[-1] if p.stdout.strip() else p.stderr[-500:]
    except subprocess.TimeoutExpired:
        txt = "timeout"
    try:
        rep = json.loads(txt)
    except Exception:
        rep = {"raw": txt}
    lines = read_lines(out)
    seq = read_lines(out.replace(".tsv", "_seq.tsv"))
    shutil.rmtree(d, ignore_errors=True)
    return lines, seq, rep


def fork_rounds_problems(lines, seq, rep):
    probs = []
    if "raw" in rep:
        return ["the forked run did not complete: " + str(rep["raw"])[:200]]
    if any(rep.get("alive", [])):
        probs.append("a worker process never returned")
    if any(c not in (0,) for c in rep.get("codes", [])):
        probs.append(f"worker exit codes {rep.get('codes')}")
    bad = {k: v for k, v in (rep.get("errors") or {}).items() if v}
    if bad:
        probs.append("evaluate raised in a worker: " + json_short(bad))
    if lines is None or seq is None:
        probs.append("output file missing")
        return probs
    names = [r[0] for r in lines[1:]]
    dup = sorted({n for n in names if names.count(n) > 1})
    if dup:
        probs.append(f"subjects with more than one row: {dup}")
    if lines[:1] != seq[:1]:
        probs.append("header differs from a sequential run")
    if sorted(map(tuple, lines[1:])) != sorted(map(tuple, seq[1:])):
        missing = sorted(set(r[0] for r in seq[1:]) - set(names))
        probs.append("rows differ from a sequential run" + (f" (no row for {missing})" if missing else ""))
    return probs


def json_short(x):
    import json
    return json.dumps(x)[:240]


THREAD_SMOKE = r"""
import os, sys, io, contextlib, json, csv, threading
os.environ["PANOPTICA_CITATION_REMINDER"] = "false"
sys.path.insert(0, sys.argv[1])
import numpy as np
from panoptica import Panoptica_Evaluator, InputType, NaiveThresholdMatching, Panoptica_Aggregator
from panoptica.metrics import Metric
from panoptica.utils.label_group import LabelGroup
from panoptica.utils.segmentation_class import SegmentationClassGroups
out, n_workers, n_subjects = sys.argv[2], int(sys.argv[3]), int(sys.argv[4])
sys.setswitchinterval(1e-5)
def make_evaluator():
    # class groups of different kinds (one single-instance), a decision threshold above the matching threshold:
    # per-group work inside evaluate() is not trivial, so free-running threads interleave inside it
    return Panoptica_Evaluator(expected_input=InputType.UNMATCHED_INSTANCE,
        instance_matcher=NaiveThresholdMatching(matching_metric=Metric.IOU, matching_threshold=0.1),
        segmentation_class_groups=SegmentationClassGroups({"organ": LabelGroup(1, single_instance=True), "lesions": LabelGroup([2, 3, 4, 5])}),
        instance_metrics=[Metric.DSC, Metric.IOU], global_metrics=[Metric.DSC], decision_metric=Metric.IOU, decision_threshold=0.5)
def subject(i):
    ref = np.zeros([64, 64], dtype=np.uint8); pred = np.zeros_like(ref)
    ref[2:30, 2:24] = 1; pred[3 + (i % 3):30, 2:22] = 1
    ref[40:56, 6:20] = 2; pred[40:56, 6:18 - (i % 4)] = 2
    ref[40:56, 30:46] = 3; pred[40:56, 30:35 + (i % 2)] = 3          # matched (IoU ~0.3) but below the decision threshold
    ref[10:24, 40:56] = 4; pred[11:24, 40:56] = 4
    return pred, ref
def rows(path):
    with open(path, "r", encoding="utf8", newline="") as f:
        return [r for r in csv.reader(f, delimiter="\t", lineterminator="\n")]
errs = []
with contextlib.redirect_stdout(io.StringIO()):
    agg = Panoptica_Aggregator(make_evaluator(), out)
    names = [f"sub{i:02d}" for i in range(n_subjects)]
    def work(w):
        for i in range(w, n_subjects, n_workers):
            try:
                p, r = subject(i)
                agg.evaluate(p, r, names[i])
            except BaseException as e:
                errs.append(type(e).__name__ + ":" + str(e)[:80])
    ts = [threading.Thread(target=work, args=(w,)) for w in range(n_workers)]
    [t.start() for t in ts]; [t.join(240) for t in ts]
    seq = Panoptica_Aggregator(make_evaluator(), out.replace(".tsv", "_seq.tsv"))
    for i in range(n_subjects):
        p, r = subject(i)
        seq.evaluate(p, r, names[i])
print(json.dumps({"alive": [t.is_alive() for t in ts], "errors": errs}))
"""


# the same program, but EVERY worker submits EVERY name (all workers leave a barrier together for each name), on a "slow disk": file
# objects opened by the aggregator module take a few milliseconds to close (the data written through them reaches the file at close).
# A claim that is not in the file by the time the lock is free lets a second worker claim the same name.
THREAD_COLLIDE = THREAD_SMOKE.replace(
    "errs = []\n",
    "errs = []\n"
    "import builtins, time\n"
    "import panoptica.panoptica_aggregator as PA\n"
    "class SlowFile:\n"
    "    def __init__(self, f): self.__dict__['f'] = f\n"
    "    def __getattr__(self, n): return getattr(self.f, n)\n"
    "    def __iter__(self): return iter(self.f)\n"
    "    def __enter__(self): self.f.__enter__(); return self\n"
    "    def __exit__(self, *a): time.sleep(0.003); return self.f.__exit__(*a)\n"
    "    def close(self): time.sleep(0.003); return self.f.close()\n"
    "def slow_open(*a, **k): return SlowFile(builtins.open(*a, **k))\n"
    "PA.open = slow_open\n"
    "barrier = threading.Barrier(n_workers)\n", 1).replace(
    "        for i in range(w, n_subjects, n_workers):\n            try:\n",
    "        for i in range(n_subjects):\n            try:\n                try:\n                    barrier.wait(120)\n"
    "                except threading.BrokenBarrierError:\n                    pass          # a slow machine only loses the synchronisation\n", 1)
assert THREAD_COLLIDE != THREAD_SMOKE and "barrier.wait" in THREAD_COLLIDE and "PA.open = slow_open" in THREAD_COLLIDE


def thread_smoke(n_workers=4, n_subjects=12, collide=False):
    """free-running threads (no scheduler) sharing ONE aggregator and its evaluator; -> (lines, sequential lines, report)"""
    import json
    import shutil
    import subprocess
    import sys
    import tempfile
    d = tempfile.mkdtemp(dir=str(common.WORK))
    script = Path(d) / "threads.py"
    script.write_text(THREAD_COLLIDE if collide else THREAD_SMOKE)
    out = str(Path(d) / "threads.tsv")
    try:
        p = subprocess.run([sys.executable, str(script), str(common.REPO), out, str(n_workers), str(n_subjects)], capture_output=True, text=True,
                           timeout=600, env=dict(os.environ, PYTHONHASHSEED="0"))
        txt = p.stdout.strip().split("\n")[-1] if p.stdout.strip() else p.stderr[-500:]
    except subprocess.TimeoutExpired:
        txt = "timeout"
    try:
        rep = json.loads(txt)
    except Exception:
        rep = {"raw": txt}
    lines = read_lines(out)
    seq = read_lines(out.replace(".tsv", "_seq.tsv"))
    shutil.rmtree(d, ignore_errors=True)
    return lines, seq, rep


def thread_smoke_problems(lines, seq, rep):
    if "raw" in rep:
        return ["the threaded run did not complete: " + str(rep["raw"])[:200]]
    probs = []
    if any(rep.get("alive", [])):
        probs.append("a worker thread never returned")
    if rep.get("errors"):
        probs.append("evaluate raised in a thread: " + json_short(rep["errors"]))
    if lines is None or seq is None:
        return probs + ["output file missing"]
    names = [r[0] for r in lines[1:]]
    dup = sorted({n for n in names if names.count(n) > 1})
    if dup:
        probs.append(f"subjects with more than one row: {dup}")
    if lines[:1] != seq[:1]:
        probs.append("header differs from a sequential run")
    a, b = {r[0]: r[1:] for r in lines[1:]}, {r[0]: r[1:] for r in seq[1:]}
    if set(a) != set(b):
        probs.append(f"subjects differ from a sequential run: {sorted(set(a) ^ set(b))}")
    hdr = lines[0][1:] if lines else []
    for n in sorted(set(a) & set(b)):
        diff = [(hdr[i] if i < len(hdr) else i, x, y) for i, (x, y) in enumerate(zip(a[n], b[n])) if x != y]
        if diff:
            probs.append(f"row of {n} differs from a sequential run: " + "; ".join(f"{k}: {x} vs {y}" for k, x, y in diff[:3]))
            break
    return probs


RESTART_SESSION = r"""
import os, sys, io, contextlib, json
os.environ["PANOPTICA_CITATION_REMINDER"] = "false"
sys.path.insert(0, sys.argv[1])
import numpy as np
from panoptica import Panoptica_Evaluator, InputType, NaiveThresholdMatching, Panoptica_Aggregator
from panoptica.metrics import Metric
from panoptica.utils.label_group import LabelGroup
from panoptica.utils.segmentation_class import SegmentationClassGroups
out, names, kill_after = sys.argv[2], json.loads(sys.argv[3]), int(sys.argv[4])
bystanders = len(sys.argv) > 5 and sys.argv[5] == "1"
defaults = len(sys.argv) > 5
groups = {"liver": LabelGroup([1]), "kidney": LabelGroup([2]), "spleen": LabelGroup([3]), "lesion": LabelGroup([4, 5])}
if bystanders:
    # other panoptica objects the same program constructs first (they must not influence this session: a restarted process
    # does not construct them); the session's own evaluator then uses the library's default metric lists
    for kw in ({"decision_metric": Metric.clDSC, "decision_threshold": 0.5}, {"decision_metric": Metric.IOU, "decision_threshold": 0.5},
               {"instance_metrics": [Metric.RVD], "global_metrics": []}):
        try:
            with contextlib.redirect_stdout(io.StringIO()):
                Panoptica_Evaluator(expected_input=InputType.MATCHED_INSTANCE, **kw)
        except Exception:
            pass
if defaults:
    ev = Panoptica_Evaluator(expected_input=InputType.UNMATCHED_INSTANCE, instance_matcher=NaiveThresholdMatching(matching_threshold=0.3),
            segmentation_class_groups=SegmentationClassGroups(groups))
else:
    ev = Panoptica_Evaluator(expected_input=InputType.UNMATCHED_INSTANCE, instance_matcher=NaiveThresholdMatching(matching_threshold=0.3),
            segmentation_class_groups=SegmentationClassGroups(groups),
            instance_metrics=[Metric.DSC, Metric.IOU], global_metrics=[Metric.DSC])
def subject(name):
    i = sum(map(ord, name))
    ref = np.zeros((12, 24), np.uint8); pred = np.zeros_like(ref)
    for k, lab in enumerate((1, 2, 3, 4)):
        ref[2:8, 1 + 6 * k:5 + 6 * k] = lab
        pred[2 + (i + k) % 3:8, 1 + 6 * k:5 + 6 * k - (i % 2)] = lab
    return pred, ref
with contextlib.redirect_stdout(io.StringIO()):
    agg = Panoptica_Aggregator(ev, out)
    for n, name in enumerate(names):
        if n == kill_after:
            os._exit(9)                 # the process dies: no atexit handler, the buffer file stays behind
        p, r = subject(name)
        agg.evaluate(p, r, name)
print("done")
"""


def restart_smoke(rng, n_subjects=4, default_metrics=None, c_locale=None):
    """sessions in separate interpreter processes with DIFFERENT hash seeds on one output file: session 1 is killed after k subjects,
    session 2 resubmits everything; reference: one uninterrupted session.  -> (lines, sequential lines, report)"""
    import json
    import shutil
    import subprocess
    import sys
    import tempfile
    d = tempfile.mkdtemp(dir=str(common.WORK))
    script = Path(d) / "session.py"
    script.write_text(RESTART_SESSION)
    names = [f"sub-{i:02d}" for i in range(n_subjects)]
    if c_locale is None:
        c_locale = rng.random() < 0.5
    if c_locale:
        # interpreters whose preferred encoding is not UTF-8 (LC_ALL=C, UTF-8 mode off) and subject names outside ASCII: the
        # files are UTF-8 whatever the locale says
        names = [n + s for n, s in zip(names, ["", "_M\u00fcller", "", "_\u0141\u00f3d\u017a", "_\u00e9", ""] * 3)]
    out, seq = str(Path(d) / "restart.tsv"), str(Path(d) / "uninterrupted.tsv")
    k = rng.randint(1, n_subjects - 1)
    seeds = rng.sample(range(1, 1000), 3)
    rep = {"killed_after": k, "hash_seeds": seeds, "steps": []}

    if default_metrics is None:
        default_metrics = rng.random() < 0.5
    # the session's evaluator uses the default metric lists; the FIRST process also builds bystanders
    rep["default_metrics_and_bystanders_in_first_process"] = default_metrics
    rep["c_locale_and_non_ascii_names"] = c_locale

    def run(path, kill, seed, first=False):
        extra = ["1" if first else "2"] if default_metrics else []
        env = dict(os.environ, PYTHONHASHSEED=str(seed))
        if c_locale:
            env.update(LC_ALL="C", LANG="C", PYTHONUTF8="0", PYTHONCOERCECLOCALE="0", PYTHONIOENCODING="utf-8")
        p = subprocess.run([sys.executable, str(script), str(common.REPO), path, json.dumps(names), str(kill)] + extra, capture_output=True, text=True,
                           timeout=600, env=env)
        rep["steps"].append({"exit": p.returncode, "stderr": p.stderr.strip().splitlines()[-1:] if p.returncode not in (0, 9) else []})
        return p.returncode
    try:
        run(out, k, seeds[0], first=True)
        run(out, -1, seeds[1])
        run(seq, -1, seeds[2])
    except subprocess.TimeoutExpired:
        rep["steps"].append({"exit": "timeout"})
    lines, sq = read_lines(out), read_lines(seq)
    shutil.rmtree(d, ignore_errors=True)
    return lines, sq, rep


def restart_smoke_problems(lines, seq, rep):
    probs = []
    exits = [s_.get("exit") for s_ in rep.get("steps", [])]
    if exits[:1] != [9]:
        probs.append(f"the first session did not run up to its kill point (exit {exits[:1]})")
    if len(exits) > 1 and exits[1] != 0:
        probs.append(f"the restarted session (same arguments, a fresh interpreter) failed: exit {exits[1]} {rep['steps'][1].get('stderr')}")
    if lines is None or seq is None:
        return probs + ["output file missing"]
    if lines[:1] != seq[:1]:
        probs.append("header differs from an uninterrupted run")
    names = [r[0] for r in lines[1:]]
    dup = sorted({n for n in names if names.count(n) > 1})
    if dup:
        probs.append(f"subjects with more than one row: {dup}")
    if sorted(map(tuple, lines[1:])) != sorted(map(tuple, seq[1:])):
        probs.append("rows differ from an uninterrupted run")
    return probs


# ------------------------------------------------------------------ histories of live sessions on one output file (sequential)
SESSION_HISTORIES = r"""
import os, sys, io, contextlib, json, csv, tempfile, shutil
os.environ["PANOPTICA_CITATION_REMINDER"] = "false"
sys.path.insert(0, sys.argv[1])
from panoptica.panoptica_aggregator import Panoptica_Aggregator


class Interrupted(BaseException):
    pass


class Res:
    def __init__(self, v):
        self.v = v
        self.computation_time = None

    def to_dict(self):
        return {"m": self.v}


class Ev:
    segmentation_class_groups_names = ["g"]
    resulting_metric_keys = ["m"]
    die = False
    fail_plan = None           # a function to run inside the evaluation before it raises an ordinary exception

    def evaluate(self, pred, ref, **k):
        if Ev.die:
            raise Interrupted()
        if Ev.fail_plan is not None:
            plan, Ev.fail_plan = Ev.fail_plan, None
            plan()
            raise ValueError("the evaluation of this subject failed")
        return {"g": (Res(int(pred)), None)}


class OtherSetup(Ev):
    resulting_metric_keys = ["m", "m2"]


def rows(path):
    if not os.path.exists(path):
        return None
    with open(path, "r", encoding="utf8", newline="") as f:
        return [r for r in csv.reader(f, delimiter="\t", lineterminator="\n")]


def run_case(case, d):
    subjects, ops = case["subjects"], case["ops"]
    out, sib = os.path.join(d, case["file"]), os.path.join(d, case["sibling"])
    buf = os.path.join(d, "panoptica_aggregator_tmp_" + case["file"])
    sessions = [Panoptica_Aggregator(Ev(), out)]
    neighbour = Panoptica_Aggregator(Ev(), sib)
    trace = []
    notes = []

    def value(name):
        return subjects.index(name) + 1 if name in subjects else 0

    def submit(agg, name, dies=False):
        Ev.die = dies
        try:
            agg.evaluate(value(name), 0, name)
        except Interrupted:
            pass
        finally:
            Ev.die = False

    def snap(model_index):
        trace.append([model_index, rows(out), rows(buf)])

    def step(st):
        # st = [kind, model index after the step, ...]
        kind, mi = st[0], st[1]
        if kind == "new":
            sessions.append(Panoptica_Aggregator(Ev(), out))
        elif kind == "refused":
            try:
                Panoptica_Aggregator(OtherSetup(), out)
                notes.append("a session with a different setup was accepted")
            except AssertionError:
                pass
        elif kind in ("ok", "die"):
            submit(sessions[st[2]], st[3], dies=kind == "die")
        elif kind == "fail":
            inner = st[4]

            def plan():
                snap(mi)                      # the claim of the failing subject is in the buffer
                for sub in inner:
                    step(sub)
            Ev.fail_plan = plan
            try:
                sessions[st[2]].evaluate(0, 0, st[3])
            except ValueError:
                pass
            finally:
                Ev.fail_plan = None
            snap(st[5])                       # after the failed call returned: the state of its last inner step
            return
        snap(mi)

    for k, st in enumerate(ops):
        step(st)
        if k < len(subjects):
            submit(neighbour, subjects[k])                    # the neighbour works on its own file in between
    for name in subjects[len(ops):]:
        submit(neighbour, name)
    return {"out": rows(out), "sib": rows(sib), "trace": trace, "notes": notes}


cases = json.loads(open(sys.argv[2]).read())
res = []
for case in cases:
    d = tempfile.mkdtemp(dir=os.path.dirname(sys.argv[2]))
    try:
        with contextlib.redirect_stdout(io.StringIO()):
            res.append(run_case(case, d))
    except BaseException as e:
        res.append({"error": type(e).__name__ + ": " + str(e)[:200]})
    shutil.rmtree(d, ignore_errors=True)
open(sys.argv[3], "w").write(json.dumps(res))
"""

NAME_POOLS = [["s1", "s2", "s3", "s4", "s5"], ["aa", "bb", "cc", "dd"], ['q"1', "t\tb", "s 1", "w1 "], ["a", "bb", "ccc", "dddd"],
              ["x1", "x2", "y1"], ["subject_name", "s1", "s2"]]


def history_case(rng):
    """a sequential history over several LIVE sessions of one output file: ["new"] creates another aggregator on the file (the older
    ones stay in use), ["ok", i, name] / ["die", i, name] submit a subject through session i (die: the evaluation is interrupted
    after the claim), ["fail", i, name, inner] an evaluation that RAISES an ordinary exception after the inner submissions ran while
    it was in progress (name is a subject nobody else submits), ["refused"] a constructor with a different setup on the same file
    (it must be refused without touching anything); afterwards a fresh session and every old one resubmit everything"""
    pool = list(rng.choice(NAME_POOLS))
    h, n_sessions, n_fail = [], 1, 0
    for _ in range(rng.randint(3, 9)):
        c = rng.random()
        if c < 0.18:
            h.append(["new"])
            n_sessions += 1
        elif c < 0.26:
            h.append(["refused"])
        elif c < 0.38:
            n_fail += 1
            inner = [[rng.choice(["ok", "ok", "die"]), rng.randrange(n_sessions), rng.choice(pool)] for _k in range(rng.randint(1, 2))]
            h.append(["fail", rng.randrange(n_sessions), "failing-%d" % n_fail, inner])
        else:
            h.append(["die" if c < 0.55 else "ok", rng.randrange(n_sessions), rng.choice(pool)])
    f, sib = rng.choice([("a.tsv", "b.tsv"), ("run.fold0.tsv", "run.fold1.tsv"), ("exp.tsv", "exp.v1.tsv")])
    return {"history_case": True, "subjects": pool, "history": h, "file": f, "sibling": sib}


def history_ops(case):
    """-> (script steps, model operations): the whole run = the history, then a fresh session resubmitting every subject, then every
    older session doing the same (nothing may be added any more).  Model operations carry no session index (sessions have no state);
    a refused constructor is no operation at all; a failing evaluation is its claim followed by the inner submissions.  Every script
    step names the index of the model state the files must be in after it."""
    model = []          # [0] | [1, name, v] | [2, name]
    subs = case["subjects"]

    def m_of(st):
        if st[0] == "new":
            model.append([0])
        elif st[0] == "ok":
            model.append([1, enc_name(st[2]), subs.index(st[2]) + 1 if st[2] in subs else 0])
        elif st[0] == "die":
            model.append([2, enc_name(st[2])])
        return len(model) - 1        # index of the state after this operation (-1: the initial state)

    def conv(st):
        if st[0] == "refused":
            return ["refused", len(model) - 1]
        if st[0] == "fail":
            model.append([2, enc_name(st[2])])
            mi = len(model) - 1
            inner = [conv(x) for x in st[3]]
            return ["fail", mi, st[1], st[2], inner, len(model) - 1]
        mi = m_of(st)
        return [st[0], mi] + list(st[1:])
    h = [list(st) for st in case["history"]]
    steps = [conv(st) for st in h]
    n_sessions = 1 + sum(1 for st in h if st[0] == "new")
    tail = [["new"]] + [["ok", n_sessions, n] for n in subs]
    for i in range(n_sessions):
        tail += [["ok", i, n] for n in subs]
    steps += [conv(st) for st in tail]
    return steps, model


def history_model_input(case):
    """engine input of op 1704: no rows at the start; the model operations of the whole run"""
    return [[], history_ops(case)[1]]


def history_trace_differs(case, res, model_out):
    """first observation at which the files of the implementation are not the model's state, or None"""
    if "error" in res:
        return None
    for k, (mi, rows_i, buf_i) in enumerate(res.get("trace", [])):
        mod = model_out[mi] if mi >= 0 else [[], []]
        got_out = None if not rows_i else [[enc_name(r[0]), int(r[1]) if len(r) == 2 and r[1].lstrip("-").isdigit() else r[1:]] for r in rows_i[1:]]
        got_buf = None if buf_i is None else [enc_name(r[0] if r else "") for r in buf_i]
        if got_out != mod[0] or got_buf != mod[1]:
            return {"observation": k, "model_state": mi, "implementation": {"out": rows_i, "buf": buf_i}, "model": mod}
    return None


def history_run(cases):
    import shutil
    import subprocess
    import sys
    import tempfile
    d = tempfile.mkdtemp(dir=str(common.WORK))
    script = Path(d) / "histories.py"
    script.write_text(SESSION_HISTORIES)
    (Path(d) / "cases.json").write_text(json.dumps([dict(c, ops=history_ops(c)[0]) for c in cases]))
    try:
        p = subprocess.run([sys.executable, str(script), str(common.REPO), str(Path(d) / "cases.json"), str(Path(d) / "res.json")],
                           capture_output=True, text=True, timeout=900, env=dict(os.environ, PYTHONHASHSEED="0"))
        res = json.loads((Path(d) / "res.json").read_text())
    except Exception as e:  # noqa
        res = [{"error": "the history runner did not finish: " + type(e).__name__}] * len(cases)
    shutil.rmtree(d, ignore_errors=True)
    return res


def history_problems(case, res):
    """the property's outcome: header once, exactly one complete row per subject with the values of an uninterrupted run; sibling too"""
    if "error" in res:
        return ["a session history raised " + res["error"]]
    probs = list(res.get("notes", []))
    want = {name: [name, str(i + 1)] for i, name in enumerate(case["subjects"])}
    for key, what in (("out", "output file"), ("sib", "sibling output file")):
        lines = res.get(key)
        if not lines:
            probs.append(f"{what} absent or empty")
            continue
        if lines[0] != ["subject_name", "g-m"] or sum(1 for r in lines if r == lines[0]) != 1 and "subject_name" not in case["subjects"]:
            probs.append(f"{what}: header {lines[0]} / repeated")
        names = [r[0] for r in lines[1:]]
        for name in case["subjects"]:
            if names.count(name) != 1:
                probs.append(f"{what}: subject {name!r} has {names.count(name)} rows")
        for r in lines[1:]:
            if r[0] in want and r != want[r[0]]:
                probs.append(f"{what}: row {r} differs from the uninterrupted run's {want[r[0]]}")
            if r[0] not in want:
                probs.append(f"{what}: unexpected row {r}")
    return probs
