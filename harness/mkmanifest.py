"""Regenerates MANIFEST.json from the per-property harness modules (so it is always valid and current)."""
import importlib
import json
import sys
from pathlib import Path

VERIF = Path(__file__).resolve().parent.parent
sys.path.insert(0, str(VERIF))
ALL = [f"C{i:02d}" for i in range(1, 21)]
BASE = json.loads((Path("/root/.vp/BASELINE.json")).read_text())["cmd"].replace("--junitxml=<file>", "").strip() \
    if Path("/root/.vp/BASELINE.json").exists() else "cd /repo && /venv/bin/python -m pytest -ra -q -p no:cacheprovider --timeout=900 --continue-on-collection-errors"


def main():
    checks, na = [], []
    for pid in ALL:
        try:
            m = importlib.import_module(f"harness.props.{pid.lower()}")
        except ModuleNotFoundError:
            na.append({"property_id": pid, "reason": "check not built yet (work in progress; see DESIGN.md section 6 for the planned proof)"})
            continue
        checks.append({
            "property_id": pid,
            "quick_cmd": f"./check {pid} --tier quick",
            "thorough_cmd": f"./check {pid} --tier thorough",
            "evidence_file": f"/verif/evidence/{pid}.json",
            "replay_cmd_template": f"./check {pid} --replay {{path}}",
            "engine": "coq-model",
            "level_claimed": {"category": "proof", "text": m.LEVEL_TEXT, "design_ref": f"DESIGN.md section 6 {pid}"},
            "level_note": m.LEVEL_NOTE,
            "technique": m.TECHNIQUE,
        })
    man = {
        "version": 1,
        "setup_cmd": "./setup.sh",
        "hooks": {
            "guard": "PANOPTICA_VERIF",
            "enable": "no source hook exists: the harness imports /repo's working tree unmodified and wraps module-level names at import time",
            "baseline_off_cmd": BASE,
            "source_commits": [],
            "add_only": True,
        },
        "engines": [{
            "name": "coq-model", "path": "/verif/coq", "serves_properties": [c["property_id"] for c in checks],
            "kind_free_text": "Rocq/Coq 8.16.1 development (model, theorems, generated kernels) + extracted OCaml engine + python correspondence harness",
        }],
        "checks": checks,
        "not_applicable": na,
        "notes": "All checks: ./check <id> --tier quick|thorough. See DESIGN.md.",
    }
    (VERIF / "MANIFEST.json").write_text(json.dumps(man, indent=1) + "\n")
    print(f"{len(checks)} checks, {len(na)} not yet claimed")


if __name__ == "__main__":
    main()
