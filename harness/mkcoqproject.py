"""Writes coq/_CoqProject from the files on disk (deterministic order; coqdep orders the build)."""
from pathlib import Path

COQ = Path(__file__).resolve().parent.parent / "coq"


def main():
    files = sorted(str(p.relative_to(COQ)) for p in (COQ / "theories").rglob("*.v"))
    body = "-Q theories Pan\n" + "\n".join(files) + "\n"
    p = COQ / "_CoqProject"
    if not p.exists() or p.read_text() != body:
        p.write_text(body)


if __name__ == "__main__":
    main()
