"""Metamorphic comparison of two evaluate() results on the implementation (C09, C10, C11, C12)."""
from __future__ import annotations

import itertools
import json
from fractions import Fraction

import numpy as np

from harness import common, impl
from harness.props.c03 import impl_candidates


def result_signature(r, rvd_map=False, swap=False, drop_rvd_agg=False):
    """tie-independent comparison key of a canon result: counts, multisets of per-instance values, aggregates (rounded to 2^-30)."""
    sig = {"tp": r.get("tp"), "fp": r.get("fn") if swap else r.get("fp"), "fn": r.get("fp") if swap else r.get("fn")}
    for m, e in sorted(r["metrics"].items()):
        vals = e["all"]
        if m == "RVD" and rvd_map:
            vals = [(-v / (1 + v)) if v != -1 else float("inf") for v in vals]
        # NaN entries compare equal to NaN entries (a multiset of values; two undefined values are the same outcome)
        sig[m] = sorted(("nan" if v != v else round(v, 9) for v in vals), key=lambda x: (isinstance(x, str), 0 if isinstance(x, str) else x))
        if not (m == "RVD" and (rvd_map or drop_rvd_agg)):
            for k in ("sq", "std", "pq"):
                if k in e:
                    v = e[k]
                    sig[f"{m}.{k}"] = None if v is None else ("nan" if v != v else round(float(v), 9))
    if r.get("rq") is not None:
        sig["rq"] = "nan" if r["rq"] != r["rq"] else round(float(r["rq"]), 12)
    for k, v in sorted((r.get("globals") or {}).items()):
        if k == "rvd" and (swap or rvd_map or drop_rvd_agg):
            continue
        sig[f"global.{k}"] = None if v is None else ("nan" if v != v else round(float(v), 9))
    return sig


def unique_matching(cfg, pred, ref):
    """True when no two competing candidates meeting the threshold have equal score (matching determined uniquely)."""
    if cfg.get("input") == "matched" or not pred.any() or not ref.any():
        return True
    mm, thr = cfg.get("mmetric", "IOU"), cfg.get("mthr", 0.5)
    if cfg.get("matcher") == "merge" and len({int(x) for x in np.unique(pred) if x}) > 1:
        return False
    decr = mm == "ASSD"
    try:
        cands = impl_candidates(pred, ref, mm)
    except Exception:
        return False
    # (a single prediction under the merge matcher is still subject to ties between its candidate references)
    ok = [c for c in cands if (c[0] <= thr if decr else c[0] >= thr)]
    return not any(a[0] == b[0] and (a[1] == b[1] or a[2] == b[2]) for a, b in itertools.combinations(ok, 2))


def run_both(cfg, p1, r1, p2, r2, cfg2=None):
    o1 = impl.evaluate(impl.make_evaluator(cfg), p1.copy(), r1.copy())
    o2 = impl.evaluate(impl.make_evaluator(cfg2 or cfg), p2.copy(), r2.copy())
    return o1, o2


def same_outcome(o1, o2, group="ungrouped", group2=None, **sigkw):
    """None if equivalent, else a description."""
    e1, e2 = isinstance(o1, tuple), isinstance(o2, tuple)
    if e1 or e2:
        if e1 and e2:
            return None if o1[1] == o2[1] else f"different exceptions {o1[1]} vs {o2[1]}"
        return f"one evaluation raised: {o1 if e1 else o2}"
    s1 = result_signature(impl.canon_result(o1[group][0]), drop_rvd_agg=bool(sigkw.get("rvd_map")))
    s2 = result_signature(impl.canon_result(o2[group2 or group][0]), **sigkw)
    if s1 != s2:
        keys = [k for k in sorted(set(s1) | set(s2)) if s1.get(k) != s2.get(k)]
        return "; ".join(f"{k}: {s1.get(k)} vs {s2.get(k)}" for k in keys[:4])
    return None
