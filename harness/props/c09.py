"""C09 -- results do not depend on label values, label order or integer dtype."""
import json

import numpy as np

from harness import common, impl, meta
from harness.props.c02 import gen_cfg

TARGETS = ["theories/Props/C09.vo", "theories/Proofs/GenEq_MatcherLoop.vo"]
GENEQ = {"theories/Proofs/GenEq_MatcherLoop.vo": "MatcherLoop"}
# units added to the cone after round 2 of the seeded changes (a refused / changed unit must be noticed by this check too)
TARGETS = TARGETS + ["theories/Proofs/GenEq_Crop.vo"]
GENEQ = dict(GENEQ, **{"theories/Proofs/GenEq_Crop.vo": "Crop"})
TARGETS = TARGETS + ["theories/Proofs/GenEq_MetricTable.vo"]
GENEQ = dict(GENEQ, **{"theories/Proofs/GenEq_MetricTable.vo": "MetricTable"})
ALLOWED_AXIOMS = []
RULE = ("metamorphic on evaluate(): x vs (injectively relabelled, re-typed) x. Relabellings: to 1..k, reversed order, random injective maps into "
        "[1, 2^24) with values around 2^8-1, 2^16-1, 2^16+1, 2^24-1 and the dtype maximum; dtypes uint8/16/32/64 (signed for semantic input); "
        "prediction and reference renamed independently (unmatched/semantic) or jointly (matched); compared when the matching is uniquely "
        "determined; non-trivial = >= 2 instances on a side and a relabelling that changes the label order or the dtype")
ASSUMPTIONS = ["numpy integer array arithmetic is exact below 2^63 (modelled as unbounded integers); the 2^24-entry lookup table fits in memory"]
TRUSTED = ["numpy C code (modelled, not verified)"]
LEVEL_TEXT = ("Props/C09.v, whole pipeline: C09_matched_input_pipeline_invariant (matched input, one renaming of both arrays, no tie hypothesis) and "
              "C09_unmatched_input_pipeline_invariant (unmatched input, threshold matcher one-to-one or many-to-one, independent renamings of "
              "reference and prediction labels, matching determined = competing candidates meeting the threshold have distinct scores) state that "
              "the two runs return equivalent result objects: same counts, precision/recall/rq, every per-instance list permuted, averages, "
              "variances and pq equal as rationals -- for ALL arrays and all maps injective on the labels that occur (any magnitude: integers are "
              "unbounded in the model). Proved through: invariance of the selected masks (IoU/Dice/RVD), of the overlapping pairs and candidate "
              "scores, transport and uniqueness of the matching specification (C03), and the fact that the two relabelled arrays (fresh labels "
              "numbered in different orders) again differ by a locally injective renaming. Fixed-width effects (dtype, pair code, lookup table) "
              "are outside the model: the pair code is injective and fits 64 bits for labels < 2^24 (GenEq_MatcherLoop), the rest is decided by "
              "metamorphic correspondence on the implementation over dtypes and label magnitudes.")
LEVEL_NOTE = ("The merge matcher has its own whole-pipeline theorem (C09_unmatched_input_merge_matcher_pipeline_invariant, hypothesis: no two "
              "candidates equally good). Semantic input: component numbering is covered by C01_semantic_result_independent_of_component_numbering; geometric metric values (ASSD/clDice) enter as parameters required to agree on corresponding instances (their "
              "label-independence is C07). Trusted: Coq kernel, translator, harness.")
TECHNIQUE = "machine-checked proof in Rocq (Coq) (whole-pipeline renaming invariance, by transport and uniqueness of the matching specification) + AST re-translation (GenEq) + metamorphic correspondence on the implementation"

SPECIAL = [255, 256, 65535, 65536, 65537, 2 ** 24 - 1, 70000, 128, 129]


def relabel(rng, a, hi):
    labs = [int(x) for x in np.unique(a) if x]
    kind = rng.choice(["compact", "reverse", "random", "special", "mid16", "top24", "mid16", "top24", "mult256"])
    if kind == "mult256":
        # labels whose low byte / low 16 bits are zero (a narrowing cast maps them to background)
        pool = [256 * k for k in range(1, 256) if 256 * k <= hi] + [65536 * k for k in range(1, 200) if 65536 * k <= hi]
        new = rng.sample(pool, len(labs)) if len(pool) >= len(labs) else labs
    elif kind == "compact":
        new = list(range(1, len(labs) + 1))
    elif kind == "reverse":
        new = list(reversed(labs))
    elif kind == "mid16" and hi >= 65535:
        new = rng.sample(range(256, 65536), len(labs))
    elif kind == "top24" and hi >= 2 ** 24 - 1:
        new = rng.sample(range(2 ** 24 - 2000, 2 ** 24), len(labs))
    elif kind in ("mid16", "top24"):
        new = rng.sample(range(max(1, hi - 50), hi + 1), len(labs)) if hi - 50 >= len(labs) else labs
    elif kind == "random":
        new = rng.sample(range(1, hi + 1), len(labs)) if hi >= len(labs) else labs
    else:
        pool = [s for s in SPECIAL if s <= hi]
        rng.shuffle(pool)
        new = (pool + rng.sample(range(1, hi + 1), max(0, len(labs))))[: len(labs)] if len(pool) + hi >= len(labs) else labs
        if len(set(new)) != len(labs):
            new = rng.sample(range(1, hi + 1), len(labs))
    return dict(zip(labs, new)), kind


def apply(a, mp, dt):
    out = np.zeros(a.shape, dt)
    for k, v in mp.items():
        out[a == k] = v
    return out


def run(ctx):
    common.serial_pool()
    rng = ctx.rng
    for _ in range(ctx.scale(450, 4000)):
        it = rng.choice(["matched", "unmatched", "unmatched", "semantic"])
        p, r = impl.rand_pair(rng, max_side=6, max_inst=4, dtype="uint8")
        cfg = gen_cfg(rng, it)
        cfg["imetrics"] = [m for m in cfg["imetrics"]]
        cfg["gmetrics"] = rng.choice([[], ["DSC"], ["DSC", "IOU"], ["IOU", "RVD"]])
        if it == "semantic":
            # for semantic input the labels are class labels: rename classes jointly (same class map on both arrays)
            p, r = (np.where(p != 0, 1 + (p % 2), 0)).astype("int16"), (np.where(r != 0, 1 + (r % 2), 0)).astype("int16")
        dt2 = rng.choice(["uint8", "uint16", "uint32", "uint64"] if it != "semantic" else ["uint8", "int16", "int32", "int64", "uint16"])
        hi = min(int(np.iinfo(dt2).max), 2 ** 24 - 1)
        if it == "unmatched" and rng.random() < 0.15 and p.any() and r.any():
            # rename so that the largest labels sit where the integer code of a (prediction, reference) pair crosses 2^8/2^16/2^32
            bits = {"uint8": 8, "uint16": 16, "uint32": 32, "uint64": 32}[dt2]
            pmax, rmax = impl.code_boundary_labels(rng, bits)
            pl, rl = [int(x) for x in np.unique(p) if x], [int(x) for x in np.unique(r) if x]
            if pmax >= len(pl) and rmax >= len(rl):
                mp_p = dict(zip(pl, [pmax] + rng.sample(range(1, pmax), len(pl) - 1)))
                mp_r = dict(zip(rl, [rmax] + rng.sample(range(1, rmax), len(rl) - 1)))
                k1 = k2 = "codeboundary"
            else:
                mp_p, k1 = relabel(rng, p, hi)
                mp_r, k2 = relabel(rng, r, hi)
        elif it == "unmatched":
            mp_p, k1 = relabel(rng, p, hi)
            mp_r, k2 = relabel(rng, r, hi)
        else:
            both = np.concatenate([p.ravel(), r.ravel()])
            mp_p, k1 = relabel(rng, both, hi)
            mp_r, k2 = mp_p, k1
        if dt2 in ("uint8", "uint16") and it != "semantic" and rng.random() < 0.25 and p.any() and r.any():
            # labels of the two arrays that add up to 2^bits of the dtype (any arithmetic combining the two label arrays in their own
            # dtype sees background there), preferably on an overlap voxel at the rim of the common foreground
            half = 2 ** ({"uint8": 8, "uint16": 16}[dt2] - 1)
            k = 0 if it == "matched" else rng.randint(0, 20)
            pl, rl = [int(x) for x in np.unique(p) if x], [int(x) for x in np.unique(r) if x]
            both = np.argwhere((p != 0) & (r != 0) & ((p == r) if it == "matched" else True))
            fg = np.argwhere((p != 0) | (r != 0))
            lo, hi_ = fg.min(0), fg.max(0)
            rim = [tuple(v) for v in both if any(v[a] == lo[a] or v[a] == hi_[a] for a in range(p.ndim))]
            pick = rng.choice(rim) if rim else (tuple(both[rng.randrange(len(both))]) if len(both) else None)
            if pick is not None:
                pl = [int(p[pick])] + [x for x in pl if x != int(p[pick])]
                rl = [int(r[pick])] + [x for x in rl if x != int(r[pick])]
            if it == "matched":
                labs = pl + [x for x in rl if x not in pl]
                rest = rng.sample([v for v in range(1, hi + 1) if v != half], len(labs) - 1)
                mp_p = mp_r = dict(zip(labs, [half] + rest))
            else:
                mp_p = dict(zip(pl, [half - k] + rng.sample([v for v in range(1, hi + 1) if v != half - k], len(pl) - 1)))
                mp_r = dict(zip(rl, [half + k] + rng.sample([v for v in range(1, hi + 1) if v != half + k], len(rl) - 1)))
            k1 = k2 = "complement"
        p2, r2 = apply(p, mp_p, dt2), apply(r, mp_r, dt2)
        uniq = meta.unique_matching(cfg, *( (p, r) if it != "semantic" else (p, r) )) if it != "semantic" else True
        if it == "semantic":
            from harness import pipeline
            try:
                ip, ir = pipeline.approximate(p, r, cfg.get("backend"))
                uniq = meta.unique_matching(cfg, ip, ir)
            except Exception:
                uniq = False
        o1, o2 = meta.run_both(cfg, p, r, p2, r2)
        nontriv = (len(mp_p) >= 2 or len(mp_r) >= 2)
        ctx.count({"cfg": cfg, "pred": p.tolist(), "ref": r.tolist(), "map_pred": mp_p, "map_ref": mp_r, "dtype": dt2}, nontriv and uniq)
        ctx.bump(f"{it}/{k1}/{dt2}/unique={uniq}")
        if not uniq:
            continue
        d = meta.same_outcome(o1, o2)
        if d:
            ctx.violation("relabelling / re-typing changed the result: " + d,
                          {"cfg": cfg, "pred": p, "ref": r, "pred2": p2, "ref2": r2, "map_pred": mp_p, "map_ref": mp_r})
    farey_cases(ctx)
    many_fragments(ctx)
    many_components(ctx)


def many_fragments(ctx):
    """one reference covered by 35-50 small prediction fragments, merge matcher with threshold 0: every fragment improves the union, so
    all are merged whatever the order -- under compact labels 1..n and under labels scattered over a wide range"""
    rng = ctx.rng
    for _ in range(ctx.scale(3, 20)):
        nf = rng.randint(35, 50)
        w = 2 * nf + rng.randint(2, 6)
        h = rng.choice([2, 3])
        ref = np.zeros((h, w), "uint32"); pred = np.zeros((h, w), "uint32")
        ref[0, 1:1 + 2 * nf] = 1
        for k in range(nf):
            pred[0, 1 + 2 * k:1 + 2 * k + rng.choice([1, 2, 2])] = k + 1
        # ... next to many spurious predictions that overlap no reference (they must stay out of every union)
        for k in range(rng.randint(10, 30)):
            pred[h - 1, 2 * k:2 * k + 1] = nf + 1 + k
        cfg = {"input": "unmatched", "matcher": "merge", "m2o": False, "mmetric": rng.choice(["IOU", "DSC"]), "mthr": 0.0,
               "imetrics": ["IOU", "DSC"], "gmetrics": []}
        hi = rng.choice([2 ** 16, 2 ** 20, 2 ** 24 - 1])            # the property quantifies over relabellings into [1, 2^24)
        plabs = [int(x) for x in np.unique(pred) if x]
        new = rng.sample(range(1, hi), len(plabs))
        mp_p = dict(zip(plabs, new))
        mp_r = {1: rng.randint(1, hi)}
        dt2 = rng.choice(["uint32", "uint64"])
        p2, r2 = apply(pred, mp_p, dt2), apply(ref, mp_r, dt2)
        o1, o2 = meta.run_both(cfg, pred, ref, p2, r2)
        ctx.count({"many_fragments": nf, "cfg": cfg, "hi": hi, "dtype": dt2}, True)
        ctx.bump("many merged fragments / scattered labels")
        d = meta.same_outcome(o1, o2)
        if d:
            ctx.violation(f"relabelling {nf} merged fragments with labels scattered below {hi} changed the result: " + d,
                          {"cfg": cfg, "pred": pred, "ref": ref, "pred2": p2, "ref2": r2, "map_pred": mp_p, "map_ref": mp_r})


def many_components(ctx):
    """semantic input with several hundred components of one class: the class LABEL (1, 2, 200, 300, 70000) must not matter"""
    rng = ctx.rng
    for _ in range(ctx.scale(2, 10)):
        n = rng.choice([257, 300, 520])
        nd = rng.choice([1, 2])
        if nd == 1:
            ref = np.zeros(2 * n + 3, "int64"); ref[1:1 + 2 * n:2] = 1
        else:
            ref = np.zeros((2, 2 * n + 3), "int64"); ref[0, 1:1 + 2 * n:2] = 1
        pred = ref.copy()
        for _k in range(rng.randint(0, 5)):
            pred.reshape(-1)[rng.randrange(pred.size)] = 0
        cfg = {"input": "semantic", "backend": rng.choice([None, "scipy", "cc3d"]), "matcher": "naive", "m2o": False, "mmetric": "IOU", "mthr": 0.5,
               "imetrics": ["IOU"], "gmetrics": ["DSC"]}
        lab1, dt1 = rng.choice([(1, "uint8"), (2, "uint8"), (1, "int16"), (200, "uint8")])
        lab2, dt2 = rng.choice([(300, "uint16"), (70000, "uint32"), (256, "int32"), (65535, "uint16")])
        a_p, a_r = (pred * lab1).astype(dt1), (ref * lab1).astype(dt1)
        b_p, b_r = (pred * lab2).astype(dt2), (ref * lab2).astype(dt2)
        o1, o2 = meta.run_both(cfg, a_p, a_r, b_p, b_r)
        ctx.count({"many_components": n, "cfg": cfg, "labels": [lab1, dt1, lab2, dt2]}, True)
        ctx.bump("hundreds of components, class label renamed")
        d = meta.same_outcome(o1, o2)
        if d:
            ctx.violation(f"{n} components of one class: renaming the class label {lab1} ({dt1}) to {lab2} ({dt2}) changed the result: " + d,
                          {"cfg": cfg, "pred": a_p, "ref": a_r, "pred2": b_p, "ref2": b_r, "map_pred": {lab1: lab2}, "map_ref": {lab1: lab2}})


def farey_cases(ctx):
    """competing candidates whose scores are distinct but equal to nine decimals: the matching is determined, so renaming the labels
    (in particular reversing their order) must not change anything"""
    import random as _random
    rng = ctx.rng
    for k in range(2 if ctx.tier != "thorough" else 8):
        p, r, _ = impl.farey_pair(_random.Random(rng.randrange(10 ** 6)))
        cfg = {"input": "unmatched", "matcher": "naive", "m2o": False, "mmetric": "IOU", "mthr": 0.25, "imetrics": ["IOU", "DSC"], "gmetrics": []}
        dt2 = rng.choice(["uint8", "uint16", "uint32"])
        hi = min(int(np.iinfo(dt2).max), 2 ** 24 - 1)
        a, b = sorted(rng.sample(range(1, hi + 1), 2))
        mp_p, mp_r = {1: b, 2: a}, {1: rng.randint(1, hi)}          # the order of the two prediction labels is reversed
        p2, r2 = apply(p, mp_p, dt2), apply(r, mp_r, dt2)
        o1, o2 = meta.run_both(cfg, p, r, p2, r2)
        ctx.count({"farey": True, "map_pred": mp_p, "map_ref": mp_r, "dtype": dt2}, True)
        ctx.bump("unmatched/farey/" + dt2)
        d = meta.same_outcome(o1, o2)
        if d:
            ctx.violation("relabelling / re-typing changed the result: " + d,
                          {"cfg": cfg, "pred": p, "ref": r, "pred2": p2, "ref2": r2, "map_pred": mp_p, "map_ref": mp_r})


def replay(path):
    common.serial_pool()
    d = json.loads(open(path).read())
    a = [common.arr_from_json(d[k]) for k in ("pred", "ref", "pred2", "ref2")]
    o1, o2 = meta.run_both(d["cfg"], *a)
    diff = meta.same_outcome(o1, o2)
    print("difference:", diff)
    return 1 if diff else 0
