"""C11 -- exchanging prediction and reference mirrors the result."""
import json

import numpy as np

from harness import common, impl, meta, pipeline
from harness.props.c02 import gen_cfg

TARGETS = ["theories/Props/C11.vo"]
GENEQ = {}
# units added to the cone after round 2 of the seeded changes (a refused / changed unit must be noticed by this check too)
TARGETS = TARGETS + ["theories/Proofs/GenEq_MatcherLoop.vo"]
GENEQ = dict(GENEQ, **{"theories/Proofs/GenEq_MatcherLoop.vo": "MatcherLoop"})
TARGETS = TARGETS + ["theories/Proofs/GenEq_MetricTable.vo"]
GENEQ = dict(GENEQ, **{"theories/Proofs/GenEq_MetricTable.vo": "MetricTable"})
ALLOWED_AXIOMS = []
RULE = ("metamorphic on evaluate(): (pred, ref) vs (ref, pred) for all input types with a one-to-one matcher and a symmetric matching metric "
        "(IOU, DSC, ASSD); expected: same tp, same multisets of IoU/Dice/ASSD values (hence sq, rq, pq), fp and fn exchanged, each RVD value "
        "r replaced by -r/(1+r); compared when the matching is uniquely determined in both orientations; non-trivial = tp >= 1 and fp != fn")
ASSUMPTIONS = ["ASSD symmetry is C07's theorem; here it is observed through the implementation"]
TRUSTED = ["numpy/scipy C code (modelled, not verified)"]
LEVEL_TEXT = ("Props/C11.v, whole evaluation: C11_unmatched_input_pipeline_mirrored (unmatched input, one-to-one threshold matcher, symmetric matching "
              "metric, matching determined) and C11_evaluation_phase_mirrored (matched input / evaluation phase) state that the result of the "
              "exchanged problem is the mirror image of the original one -- num_pred <-> num_ref, fp <-> fn, precision <-> recall, the same tp and "
              "rq, every per-instance IoU/Dice/ASSD list permuted, sq, std and pq equal as rationals -- for ALL label-map pairs; the edge-case "
              "handler's EMPTY_PRED/EMPTY_REF entries are exchanged with the roles (the default handler is its own mirror image). Proved through: "
              "symmetry of IoU/Dice on a pair, transport and uniqueness of the matching specification under exchange (C03), the relabelled arrays "
              "of the two runs (one relabels predictions, the other the former references) differing by a locally injective renaming (C09), and "
              "the result object's symmetry (C11_result_object_mirrored). RVD r becomes -r/(1+r) (exact quotients; RVD lists are excluded from the "
              "pipeline theorem and decided by correspondence).")
LEVEL_NOTE = ("Partial in Coq for semantic input (component numbering, by correspondence / C01 semantic theorem) and RVD lists after IEEE rounding. "
              "Geometric values (ASSD) enter as parameters required to be symmetric (C07_symmetric). Trusted: Coq kernel, translator, harness.")
TECHNIQUE = "machine-checked proof in Rocq (Coq) (whole-pipeline mirror theorem) + AST re-translation (GenEq) + metamorphic correspondence on the implementation"


def run(ctx):
    common.serial_pool()
    rng = ctx.rng
    for _ in range(ctx.scale(450, 4000)):
        it = rng.choice(["matched", "unmatched", "unmatched", "semantic"])
        p, r = impl.rand_pair(rng, max_side=6, max_inst=4)
        cfg = gen_cfg(rng, it)
        cfg["matcher"], cfg["m2o"] = "naive", False
        cfg.pop("dmetric", None); cfg.pop("dthr", None)
        if it == "unmatched" and rng.random() < 0.2:
            # chains of candidates at low thresholds: a prediction whose best reference is taken falls back to its second one
            p, r = impl.chain_pair(rng)
            cfg["mmetric"], cfg["mthr"] = rng.choice(["IOU", "DSC"]), rng.choice([0.05, 0.1, 0.2, 0.25])
        if it == "unmatched" and rng.random() < 0.15:
            # sparse ids drawn from ONE pool for both sides, some of them far away (class * 10^7 + instance): a prediction's id is often
            # the id of a reference it is NOT matched to, so a relabelling applied entry by entry instead of at once would chain
            pool = [2, 3, 5, 7, 9, 11, 20000000, 20000001, 30000005]
            def renum(a):
                labs = [int(x) for x in np.unique(a) if x]
                new = rng.sample(pool, len(labs)) if len(labs) <= len(pool) else labs
                out = np.zeros(a.shape, "uint32")
                for l, n_ in zip(labs, new):
                    out[a == l] = n_
                return out
            p, r = renum(p), renum(r)
        elif it == "semantic":
            p, r = (p != 0).astype("uint8"), (r != 0).astype("uint8")
        elif rng.random() < 0.3:
            # label values at the top of the dtype on ONE side (the relabelling only rewrites the prediction, so the fresh labels
            # of unmatched instances are numbered past the largest reference label: the two orientations stress different widths)
            dt = rng.choice(["uint8", "uint16"])
            top = int(np.iinfo(dt).max)
            side = rng.choice(["ref", "pred", "both"])
            def lift(a):
                labs = [int(x) for x in np.unique(a) if x]
                out = a.astype(dt)
                for i, l in enumerate(sorted(labs, reverse=True)[:2]):
                    out[a == l] = top - i
                return out
            p = lift(p) if side in ("pred", "both") else p.astype(dt)
            r = lift(r) if side in ("ref", "both") else r.astype(dt)
            if it == "matched":
                p, r = (p, r) if side == "both" else (p.astype(dt), p.astype(dt) * 0 + np.where(r != 0, p, 0).astype(dt))
        try:
            ip, ir = (p, r) if it != "semantic" else pipeline.approximate(p, r, cfg.get("backend"))
            uniq = meta.unique_matching(cfg, ip, ir) and meta.unique_matching(cfg, ir, ip)
        except Exception:
            uniq = False
        o1, o2 = meta.run_both(cfg, p, r, r, p)
        nontriv = False
        if not isinstance(o1, tuple):
            c1 = impl.canon_result(o1["ungrouped"][0])
            nontriv = c1.get("tp", 0) >= 1 and c1.get("fp") != c1.get("fn")
        ctx.count({"cfg": cfg, "pred": p.tolist(), "ref": r.tolist()}, nontriv and uniq)
        ctx.bump(f"{it}/{cfg.get('mmetric', '-')}/unique={uniq}")
        if not uniq:
            continue
        if isinstance(o1, tuple) or isinstance(o2, tuple):
            # RVD of an instance pair is always defined (matched reference non-empty); anything else must agree
            if isinstance(o1, tuple) != isinstance(o2, tuple):
                ctx.violation("one orientation raised", {"cfg": cfg, "pred": p, "ref": r, "o1": o1 if isinstance(o1, tuple) else "ok", "o2": o2 if isinstance(o2, tuple) else "ok"})
            continue
        d = meta.same_outcome(o1, o2, rvd_map=True, swap=True)
        if d:
            ctx.violation("exchanging prediction and reference does not mirror the result: " + d, {"cfg": cfg, "pred": p, "ref": r})
    grouped_cases(ctx)


def grouped_cases(ctx):
    """class groups, one of which occurs on ONE side only: every group's result must mirror under exchange"""
    from panoptica.utils.segmentation_class import SegmentationClassGroups
    from panoptica.utils.label_group import LabelGroup
    rng = ctx.rng
    for _ in range(ctx.scale(25, 250)):
        shape = (rng.randint(5, 8), rng.randint(10, 16))
        ref = np.zeros(shape, np.uint8); pred = np.zeros(shape, np.uint8)
        ref[0:3, 0:4] = 1; pred[0:3, 0:rng.randint(3, 5)] = 1
        ref[0:2, 6:9] = 2; pred[0:rng.randint(1, 3), 6:9] = 2
        only = rng.choice(["pred", "ref", "both"])
        if only in ("pred", "both"):
            pred[shape[0] - 2:, 1:4] = 3
        if only == "ref":
            ref[shape[0] - 2:, 1:4] = 3
        if only == "both":
            ref[shape[0] - 2:, 2:5] = 3
        spec = {"organs": [1, 2], "lesion": [3]}
        it = rng.choice(["unmatched", "semantic"])
        cfg = {"input": it, "matcher": "naive", "m2o": False, "mmetric": "IOU", "mthr": 0.5, "imetrics": ["IOU", "DSC"], "gmetrics": []}
        if it == "semantic":
            cfg["backend"] = rng.choice(["cc3d", "scipy"])
        mk = lambda: SegmentationClassGroups({n: LabelGroup(ls) for n, ls in spec.items()})
        o1 = impl.evaluate(impl.make_evaluator({**cfg, "groups": mk()}), pred.copy(), ref.copy())
        o2 = impl.evaluate(impl.make_evaluator({**cfg, "groups": mk()}), ref.copy(), pred.copy())
        ctx.count({"grouped": only, "cfg": cfg, "pred": pred.tolist(), "ref": ref.tolist()}, True)
        ctx.bump(f"grouped/{it}/third group on {only}")
        if isinstance(o1, tuple) or isinstance(o2, tuple):
            if isinstance(o1, tuple) != isinstance(o2, tuple):
                ctx.violation("one orientation of a grouped evaluation raised", {"cfg": cfg, "groups": spec, "pred": pred, "ref": ref})
            continue
        for g in spec:
            d = meta.same_outcome(o1, o2, group=g, rvd_map=True, swap=True)
            if d:
                ctx.violation(f"group {g}: exchanging prediction and reference does not mirror the result: " + d,
                              {"cfg": cfg, "groups": spec, "group": g, "pred": pred, "ref": ref})
                break


def replay(path):
    common.serial_pool()
    d = json.loads(open(path).read())
    p, r = common.arr_from_json(d["pred"]), common.arr_from_json(d["ref"])
    if "groups" in d:
        from panoptica.utils.segmentation_class import SegmentationClassGroups
        from panoptica.utils.label_group import LabelGroup
        mk = lambda: SegmentationClassGroups({n: LabelGroup(ls) for n, ls in d["groups"].items()})
        o1 = impl.evaluate(impl.make_evaluator({**d["cfg"], "groups": mk()}), p.copy(), r.copy())
        o2 = impl.evaluate(impl.make_evaluator({**d["cfg"], "groups": mk()}), r.copy(), p.copy())
        rc = 0
        for g in d["groups"]:
            diff = meta.same_outcome(o1, o2, group=g, rvd_map=True, swap=True)
            print(f"group {g}: difference:", diff)
            rc |= bool(diff)
        return rc
    o1, o2 = meta.run_both(d["cfg"], p, r, r, p)
    diff = meta.same_outcome(o1, o2, rvd_map=True, swap=True)
    print("difference:", diff)
    return 1 if diff else 0
