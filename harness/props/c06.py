"""C06 -- Dice, IoU, RVD, clDice equal their set-theoretic definitions.

T1: Gen/MetricTable (which function each Metric member calls), Gen/MetricFormulas (the three formulas
as rational functions of the four counts) with GenEq lemmas.
T2: bit-exact comparison  double(impl) == rnd(model rational)  through Metric.X(ref, pred, ri, pi);
the model is proved (Props/C06.v) to be the set-theoretic definition, so a disagreement is a concrete
violating input."""
import itertools
import json
from fractions import Fraction

import numpy as np

from harness import common
from harness.common import engine_run, coq_crosscheck, fq

TARGETS = ["theories/Props/C06.vo", "theories/Proofs/GenEq_MetricTable.vo", "theories/Proofs/GenEq_MetricFormulas.vo"]
GENEQ = {"theories/Proofs/GenEq_MetricTable.vo": "MetricTable", "theories/Proofs/GenEq_MetricFormulas.vo": "MetricFormulas"}
# T1 units added after round 4 of the seeded changes
TARGETS = TARGETS + ["theories/Proofs/GenEq_MetricCall.vo"]
GENEQ = dict(GENEQ, **{"theories/Proofs/GenEq_MetricCall.vo": "MetricCall"})
ALLOWED_AXIOMS = []
RULE = ("cases = (metric, label selection, dtype, array pair); exhaustive layer: all pairs of maps over {0,1,2} on "
        "2x2/1x4 (thorough) or a seeded slice (quick) x ref label in {1,2,3} x pred selection (int, list, absent label); "
        "binary masks of any dtype without selection; random 1-D..3-D volumes; non-trivial = both selected masks non-empty")
ASSUMPTIONS = [
    "numpy elementwise ==, isin, logical_and/or, sum and int64/int64 true division behave as specified (modelled, validated by this correspondence)",
    "Base/Rnd64.rnd is IEEE binary64 round-to-nearest-even of the exact quotient (validated each run against Python's int/int on random fractions)",
    "skimage.morphology.skeletonize(_3d) is an oracle: clDice is checked as the harmonic mean of the coverages of the skeletons skimage returns",
    "without label selection the functions are documented for binary masks; non-binary arrays without selection are outside the property (DESIGN O2)",
]
TRUSTED = ["numpy/skimage C code (modelled, not verified)"]

KINDS = ["DSC", "IOU", "RVD", "clDSC"]
DTYPES = ["uint8", "int8", "uint16", "int64", "uint32"]


def impl_call(kind, ref, pred, ri, pi):
    from panoptica.metrics import Metric
    m = getattr(Metric, kind)
    try:
        with np.errstate(all="ignore"):
            v = m(ref, pred, ri, pi) if ri is not None else m(ref, pred)
        return ("ok", float(v))
    except ZeroDivisionError:
        return ("err", common_code("ZeroDivisionError"))
    except Exception as e:  # noqa
        return ("err", type(e).__name__)


def common_code(name):
    return {"ZeroDivisionError": 1, "AssertionError": 2}.get(name, name)


def model_case(kind, ref, pred, ri, pi):
    k = KINDS.index(kind)
    sel = [] if ri is None else [int(ri), [int(x) for x in (pi if isinstance(pi, list) else [pi])]]
    def ints(a):
        # the model's voxels are integers; a value of a floating-point map that is not a whole number equals no label: it is written
        # as an integer outside every label list (one per distinct value, so that equal values stay equal)
        if a.dtype.kind != "f":
            return a.astype(np.int64).ravel().tolist()
        out, odd = [], {}
        for v in a.ravel().tolist():
            out.append(int(v) if float(v).is_integer() else odd.setdefault(v, 7_000_001 + len(odd)))
        return out
    r = ints(ref)
    p = ints(pred)
    if kind != "clDSC":
        return [k, sel, [[a, b] for a, b in zip(r, p)]]
    from skimage.morphology import skeletonize, skeletonize_3d
    rm = (ref == ri) if ri is not None else ref
    pm = np.isin(pred, pi if isinstance(pi, list) else [pi]) if ri is not None else pred
    sk = skeletonize if ref.ndim == 2 else skeletonize_3d
    # the skeleton oracle (skimage) is applied to C-contiguous copies: the skeleton is a function of the logical mask
    sr = (np.asarray(sk(np.ascontiguousarray(rm))) != 0).ravel().tolist()
    sp = (np.asarray(sk(np.ascontiguousarray(pm))) != 0).ravel().tolist()
    rb = np.asarray(rm).astype(np.int64).ravel().tolist()
    pb = np.asarray(pm).astype(np.int64).ravel().tolist()
    return [3, [], [[a, b, int(c), int(d)] for a, b, c, d in zip(rb, pb, sr, sp)]]


def agree(kind, impl, model):
    """model: (0 (n d)) or (1 code)"""
    if model[0] == 1:
        if kind == "clDSC":
            return impl[0] == "ok" and (np.isnan(impl[1]) or np.isinf(impl[1]))
        return impl[0] == "err" and impl[1] == model[1]
    if impl[0] != "ok" or np.isnan(impl[1]) or np.isinf(impl[1]):
        return False
    q = Fraction(model[1][0], model[1][1])
    if kind == "clDSC":
        return abs(Fraction(impl[1]) - q) <= Fraction(1, 2 ** 40) * max(1, abs(q))
    return Fraction(impl[1]) == q


def gen_cases(ctx):
    rng = ctx.rng
    cases = []
    # corpus first
    cdir = common.VERIF / "corpus" / "C06"
    if cdir.exists():
        for f in sorted(cdir.glob("*.json")):
            d = json.loads(f.read_text())
            cases.append((d["kind"], common.arr_from_json(d["ref"]), common.arr_from_json(d["pred"]), d["ri"], d["pi"]))
    # exhaustive small layer
    small = []
    for shape in [(2, 2), (1, 4)]:
        maps = [np.array(v).reshape(shape) for v in itertools.product([0, 1, 2], repeat=4)]
        small.append((shape, maps))
    sels = [(1, 1), (1, 2), (2, [1, 2]), (2, [2]), (3, 1), (1, 3), (1, [3, 1]), (2, [])]
    full = ctx.tier == "thorough"
    n_pairs = 0
    for shape, maps in small:
        pairs = list(itertools.product(range(len(maps)), repeat=2))
        if not full:
            pairs = rng.sample(pairs, ctx.scale(250, 0))
        for i, j in pairs:
            n_pairs += 1
            dt = DTYPES[(i + j) % len(DTYPES)]
            for kind in ("DSC", "IOU", "RVD"):
                ss = sels if full else rng.sample(sels, 2)
                for ri, pi in ss:
                    cases.append((kind, maps[i].astype(dt), maps[j].astype(dt), ri, pi))
    ctx.layers.append({"layer": "maps over {0,1,2} on 2x2 and 1x4", "pairs": n_pairs, "exhaustive": full})
    # binary masks, no selection, all dtypes incl bool
    for shape in [(2, 3), (2, 2, 2)]:
        n = int(np.prod(shape))
        allm = list(itertools.product([0, 1], repeat=n))
        pairs = list(itertools.product(allm, repeat=2)) if full and n <= 6 else [
            (rng.choice(allm), rng.choice(allm)) for _ in range(ctx.scale(150, 1500))]
        for a, b in pairs:
            dt = rng.choice(DTYPES + ["bool"])
            ra, pa = np.array(a, dtype=dt).reshape(shape), np.array(b, dtype=dt).reshape(shape)
            lay = rng.choice(["C", "C", "C", "refF", "predF", "bothF"])
            if lay in ("refF", "bothF"):
                ra = np.asfortranarray(ra)
            if lay in ("predF", "bothF"):
                pa = np.asfortranarray(pa)
            for kind in KINDS:
                cases.append((kind, ra, pa, None, None))
    # random volumes with selection
    for _ in range(ctx.scale(200, 3000)):
        nd = rng.choice([1, 2, 3])
        shape = tuple(rng.randint(1, 6) for _ in range(nd))
        k = rng.choice([2, 3, 5])
        dt = rng.choice(DTYPES)
        hi = rng.choice([1, 1, 1, 40])
        ref = np.array([rng.choice([0, 0] + [x * hi for x in range(1, k)]) for _ in range(int(np.prod(shape)))], dtype=dt).reshape(shape)
        if rng.random() < 0.5:
            pred = ref.copy()
            flat = pred.reshape(-1)
            for _ in range(rng.randint(0, 3)):
                flat[rng.randrange(flat.size)] = rng.choice([0, hi, 2 * hi])
        else:
            pred = np.array([rng.choice([0] + [x * hi for x in range(1, k)]) for _ in range(int(np.prod(shape)))], dtype=dt).reshape(shape)
        ri = int(rng.choice([hi, 2 * hi, 3 * hi]))
        pi = rng.choice([int(hi), [int(hi), int(2 * hi)], [int(3 * hi)], [int(2 * hi), int(hi), int(4 * hi)]])
        kinds = KINDS if nd >= 2 else KINDS[:3]
        # label indices that are absent because they exceed the array dtype (must select nothing, not alias by wrap-around)
        if np.dtype(dt).itemsize == 1 and rng.random() < 0.25:
            off = 256
            which = rng.choice(["pi", "ri", "pi+"])
            if which == "pi":
                pi = [int(off + hi)] if rng.random() < 0.5 else int(off + 2 * hi)
            elif which == "ri":
                ri = int(off + hi)
            else:
                pi = [int(hi), int(off + 2 * hi)]
        # memory layout is not part of the logical array: Fortran order / transposed storage of ONE of the two arrays
        if nd >= 2 and rng.random() < 0.3:
            lay = rng.choice(["refF", "predF", "bothF", "pred-strided"])
            if lay in ("refF", "bothF"):
                ref = np.asfortranarray(ref)
            if lay in ("predF", "bothF"):
                pred = np.asfortranarray(pred)
            if lay == "pred-strided":
                big = np.zeros(tuple(2 * x for x in pred.shape), pred.dtype)
                view = big[tuple(slice(0, None, 2) for _ in pred.shape)]
                view[...] = pred
                pred = view
        cases.append((rng.choice(kinds), ref, pred, ri, pi))
    # label lists as a caller may write them: repeated entries (the union is over the SET of labels; whether a list "looks
    # consecutive" means nothing), and floating-point label maps whose values are not all whole numbers
    for _ in range(ctx.scale(40, 400)):
        nd = rng.choice([1, 2, 3])
        shape = tuple(rng.randint(2, 6) for _k in range(nd))
        n = int(np.prod(shape))
        frac = rng.random() < 0.4
        dt = rng.choice(["float32", "float64"]) if frac else rng.choice(DTYPES + ["float64"])
        vals = [0, 0, 1, 2, 3, 4, 5] + ([1.5, 2.5, 0.5, 3.25] if frac else [])
        if np.dtype(dt).kind == "i" and np.dtype(dt).itemsize == 1:
            vals = [v for v in vals if v <= 5]
        pred = np.array([rng.choice(vals) for _k in range(n)], dtype=dt).reshape(shape)
        ref = np.array([rng.choice([0, 1, 1, 2]) for _k in range(n)], dtype=dt).reshape(shape)
        base = rng.choice([[1, 3], [2, 4], [1, 2], [1, 4], [2, 5], [1, 3, 5]])
        pi = list(base)
        if rng.random() < 0.7:
            pi += [rng.choice(base) for _k in range(rng.randint(1, 2))]          # e.g. [1, 3, 3]: three entries spanning 1..3
        rng.shuffle(pi)
        cases.append((rng.choice(KINDS[:3]), ref, pred, int(rng.choice([1, 2])), [int(x) for x in pi]))
    # boolean arrays WITH a label selection (True is label 1; any other label is absent and selects nothing), and label maps whose
    # neighbouring ids are large (class * 100000 + instance: 300000, 300001, 300002, also as float32 / float64 maps, where any
    # relative tolerance would reach the next id)
    for _ in range(ctx.scale(40, 400)):
        nd = rng.choice([1, 2, 3])
        shape = tuple(rng.randint(2, 6) for _k in range(nd))
        n = int(np.prod(shape))
        if rng.random() < 0.5:
            ref = np.array([rng.choice([0, 1, 1]) for _k in range(n)], dtype=bool).reshape(shape)
            pred = np.array([rng.choice([0, 1]) for _k in range(n)], dtype=bool).reshape(shape)
            if rng.random() < 0.4:
                pred = pred.astype(rng.choice(["uint8", "int32"])) * rng.choice([1, 2])
            ri = rng.choice([1, 1, 2, 5])
            pi = rng.choice([1, 2, [1, 2], [2, 5], [1], [2]])
        else:
            base = rng.choice([100000, 300000, 1000000, 16000000])
            dt = rng.choice(["float32", "float64", "float64", "int64", "uint32"])
            ids = [base + k for k in range(4)]
            ref = np.array([rng.choice([0] + ids[:3]) for _k in range(n)], dtype=dt).reshape(shape)
            pred = np.array([rng.choice([0] + ids) for _k in range(n)], dtype=dt).reshape(shape)
            ri = rng.choice(ids[:3])
            pi = rng.choice([ids[1], [ids[1]], [ids[0], ids[2]], [ids[3]], ids[2]])
        cases.append((rng.choice(KINDS[:3]), ref, pred, ri if isinstance(ri, list) else int(ri), [int(x) for x in pi] if isinstance(pi, list) else int(pi)))
    # a reference instance against the UNION of many prediction labels (a merged prediction): long label lists (20-60 entries, some
    # absent from the array), many distinct labels in the arrays, far-away label values, integer-valued floating-point label maps
    for _ in range(ctx.scale(30, 300)):
        shape = rng.choice([(8, 8), (30, 30), (10, 10, 10), (4, 16), (64,)])
        n = int(np.prod(shape))
        L = rng.randint(40, 70)
        dt = rng.choice(["uint8", "int16", "int32", "int64", "uint32", "float32", "float64"])
        far = 1_000_000 if dt in ("int32", "int64", "uint32", "float32", "float64") and rng.random() < 0.6 else None
        pool = list(range(1, L + 1)) + ([far] if far else [])
        pred = np.array([rng.choice([0] + pool) for _ in range(n)], dtype=dt).reshape(shape)
        ref = np.array([rng.choice([0, 0, 1, 2, 3]) for _ in range(n)], dtype=dt).reshape(shape)
        pi = rng.sample(range(1, L + 20), rng.randint(20, min(60, L + 19)))
        if far and rng.random() < 0.7:
            pi.append(far)
        rng.shuffle(pi)
        cases.append((rng.choice(KINDS[:3]), ref, pred, int(rng.choice([1, 2, 3])), [int(x) for x in pi]))
    return cases


def check_rnd(ctx):
    """Base/Rnd64 against Python's correctly rounded int/int division."""
    rng = ctx.rng
    ins = []
    for _ in range(ctx.scale(1500, 20000)):
        b = rng.choice([4, 10, 20, 53, 60])
        n, d = rng.randint(-(2 ** b), 2 ** b), rng.randint(1, 2 ** b)
        ins.append([n, d])
    outs = engine_run(1, ins)
    bad = 0
    for (n, d), o in zip(ins, outs):
        if Fraction(n / d) != Fraction(o[0], o[1]):
            bad += 1
            ctx.disagree("Rnd64", {"n": n, "d": d, "python": fq(n / d), "model": o})
    ctx.notes["rnd_checked"] = len(ins)
    ctx.notes["rnd_mismatch"] = bad
    return [(1, i, o) for i, o in zip(ins[:40], outs[:40])]


def evaluator_path_problems(ref, pred):
    """matched instances through the evaluator: per-instance lists and global binary values vs the set definitions on the whole input"""
    from harness import impl as H
    common.serial_pool()
    labs = [int(l) for l in np.unique(ref) if l and (pred == l).any()]
    cfg = {"input": "matched", "imetrics": ["DSC", "IOU", "RVD"], "gmetrics": ["DSC", "IOU"]}
    out = H.evaluate(H.make_evaluator(cfg), pred.copy(), ref.copy())
    if isinstance(out, tuple):
        return ["evaluation of matched instances raised: " + str(out[1:])], None
    r = H.canon_result(out["ungrouped"][0])
    want = {"DSC": [], "IOU": [], "RVD": []}
    for l in labs:
        rm, pm = ref == l, pred == l
        ni, nr_, np_ = int((rm & pm).sum()), int(rm.sum()), int(pm.sum())
        want["DSC"].append(2 * ni / (nr_ + np_)); want["IOU"].append(ni / (nr_ + np_ - ni)); want["RVD"].append((np_ - nr_) / nr_)
    bad = []
    for m in ("DSC", "IOU", "RVD"):
        got = sorted(r["metrics"].get(m, {}).get("all", []))
        if len(got) != len(want[m]) or any(abs(a - b) > 1e-12 for a, b in zip(got, sorted(want[m]))):
            bad.append(f"{m} per instance {got} but the set definitions on the whole input give {sorted(want[m])}")
    rb, pb = ref != 0, pred != 0
    if rb.any() and pb.any():
        ni, nr_, np_ = int((rb & pb).sum()), int(rb.sum()), int(pb.sum())
        for k, v in (("dsc", 2 * ni / (nr_ + np_)), ("iou", ni / (nr_ + np_ - ni))):
            g = (r.get("globals") or {}).get(k)
            if g is None or abs(g - v) > 1e-12:
                bad.append(f"global_bin_{k} = {g} but the foregrounds give {v}")
    return bad, r


def run(ctx):
    triples = check_rnd(ctx)
    cases = gen_cases(ctx)
    ins = [model_case(*c) for c in cases]
    outs = engine_run(601, ins)
    for c, i, o in zip(cases, ins, outs):
        kind, ref, pred, ri, pi = c
        im = impl_call(kind, ref, pred, ri, pi)
        nontriv = (ri is None and ref.any() and pred.any()) or (ri is not None and (ref == ri).any() and np.isin(pred, pi).any())
        ctx.count({"kind": kind, "ref": ref.tolist(), "pred": pred.tolist(), "dtype": str(ref.dtype), "ri": ri, "pi": pi}, nontriv)
        ctx.bump(f"{kind}/{'sel' if ri is not None else 'nosel'}/{ref.ndim}d")
        if not agree(kind, im, o):
            ctx.violation(
                f"{kind} differs from its set-theoretic definition",
                {"kind": kind, "ref": ref, "pred": pred, "ri": ri, "pi": pi, "implementation": im, "definition": o})
    # call sequences on the SAME array objects edited in place between calls (hidden state / caching must not leak)
    rng = ctx.rng
    seq_in, seq_meta = [], []
    for _ in range(ctx.scale(40, 400)):
        nd = rng.choice([1, 2, 3])
        shape = tuple(rng.randint(2, 5) for _ in range(nd))
        dt = rng.choice(DTYPES)
        ref = np.array([rng.choice([0, 1, 1, 2]) for _ in range(int(np.prod(shape)))], dtype=dt).reshape(shape)
        pred = np.array([rng.choice([0, 1, 2, 2]) for _ in range(int(np.prod(shape)))], dtype=dt).reshape(shape)
        ri, pi = rng.choice([1, 2]), rng.choice([1, 2, [1, 2]])
        for stepno in range(rng.randint(2, 4)):
            kind = rng.choice(["DSC", "IOU", "RVD"])
            im = impl_call(kind, ref, pred, ri, pi)
            seq_in.append(model_case(kind, ref, pred, ri, pi))
            seq_meta.append((kind, ref.copy(), pred.copy(), ri, pi, im, stepno))
            target = ref if rng.random() < 0.6 else pred
            flat = target.reshape(-1)
            for _k in range(rng.randint(1, 3)):
                flat[rng.randrange(flat.size)] = rng.choice([0, 1, 2])
    seq_out = engine_run(601, seq_in)
    for (kind, ref, pred, ri, pi, im, stepno), o in zip(seq_meta, seq_out):
        ctx.count({"kind": kind, "sequence_step": stepno, "ref": ref.tolist(), "pred": pred.tolist(), "ri": ri, "pi": pi}, stepno > 0)
        ctx.bump(f"{kind}/in-place sequence")
        if not agree(kind, im, o):
            ctx.violation(f"{kind} differs from its definition after the arrays were edited in place between calls (step {stepno})",
                          {"kind": kind, "ref": ref, "pred": pred, "ri": ri, "pi": pi, "implementation": im, "definition": o, "sequence_step": stepno})
    # volumes of 10^6 .. 10^7 voxels (no size-dependent behaviour is allowed): counts by plain numpy, quotients as exact fractions
    big_shapes = [(128, 128, 128), (64, 128, 128), (2048, 1024), (1 << 21,), (100, 101, 103), (1500, 1400)]
    if ctx.tier == "thorough":
        big_shapes += [(155, 240, 240), (256, 256, 32), (1 << 20,), (3, 1 << 19), (1024, 1024)]
    for shape in big_shapes:
        lo = [rng.randint(0, max(0, d // 3)) for d in shape]
        hi = [min(d, l + max(2, d // 2 + rng.randint(-d // 8, d // 8))) for d, l in zip(shape, lo)]
        ref = np.zeros(shape, np.uint8); pred = np.zeros(shape, np.uint8)
        ref[tuple(slice(a, b) for a, b in zip(lo, hi))] = 1
        sh = [rng.randint(0, max(1, (b - a) // 6)) for a, b in zip(lo, hi)]
        pred[tuple(slice(min(d - 1, a + s_), min(d, b + s_)) for a, b, s_, d in zip(lo, hi, sh, shape))] = rng.choice([1, 2])
        pl = int(pred.max())
        for ri, pi in ((None, None), (1, pl), (1, [pl, 7])):
            rm = (ref == ri) if ri is not None else (ref != 0)
            pm = np.isin(pred, pi if isinstance(pi, list) else [pi]) if ri is not None else (pred != 0)
            ni, nr_, np_ = int(np.logical_and(rm, pm).sum()), int(rm.sum()), int(pm.sum())
            nu = nr_ + np_ - ni
            want = {"DSC": Fraction(2 * ni, nr_ + np_) if nr_ + np_ else Fraction(0), "IOU": Fraction(ni, nu) if nu else Fraction(0),
                    "RVD": Fraction(np_ - nr_, nr_) if nr_ else None}
            for kind in ("DSC", "IOU", "RVD"):
                if want[kind] is None:
                    continue
                # without label selection the arguments are masks (0/1)
                im = impl_call(kind, ref, pred if ri is not None else (pred != 0).astype(np.uint8), ri, pi)
                ctx.count({"kind": kind, "large": list(shape), "ri": ri, "pi": pi, "box": [lo, hi, sh]}, True)
                ctx.bump(f"{kind}/large volume")
                if im[0] != "ok" or abs(Fraction(im[1]) - want[kind]) > Fraction(1, 10 ** 12):
                    ctx.violation(f"{kind} on a {shape} volume differs from its set-theoretic definition: {im} vs {float(want[kind])!r}",
                                  {"kind": kind, "large_shape": list(shape), "box": [lo, hi, sh], "pred_label": pl, "ri": ri, "pi": pi,
                                   "implementation": im, "definition": float(want[kind])})
    # through the evaluator (matched instances): the per-instance lists and the global binary values are the set definitions on the
    # WHOLE input -- instances touching the first / last index of an axis, singleton axes (whatever is cropped must lose no voxel)
    from harness import impl as H
    for _ in range(ctx.scale(40, 400)):
        nd = rng.choice([2, 2, 3])
        shape = [rng.randint(3, 9) for _k in range(nd)]
        if rng.random() < 0.2:
            shape[rng.randrange(nd)] = 1
        ref = np.zeros(shape, np.uint8); pred = np.zeros(shape, np.uint8)
        for lab in range(1, rng.randint(1, 3) + 1):
            lo = [rng.choice([0, rng.randrange(s_), max(0, s_ - 2)]) for s_ in shape]
            hi = [rng.choice([s_, min(s_, l + rng.randint(1, 3))]) for s_, l in zip(shape, lo)]
            box = tuple(slice(l, max(l + 1, h)) for l, h in zip(lo, hi))
            ref[box] = np.where(ref[box] == 0, lab, ref[box])
            lo2 = [min(s_ - 1, max(0, l + rng.choice([0, 0, 1, -1]))) for s_, l in zip(shape, lo)]
            box2 = tuple(slice(l, max(l + 1, h)) for l, h in zip(lo2, hi))
            pred[box2] = np.where(pred[box2] == 0, lab, pred[box2])
        if rng.random() < 0.4:
            # neighbouring instances whose predictions reach several voxels into each other's reference (over- / under-segmentation):
            # a reference instance lies partly under a prediction with ANOTHER label
            h = rng.choice([1, 2, 3])
            a, b, sp = rng.randint(6, 12), rng.randint(6, 12), rng.randint(3, 6)
            w = a + b + rng.randint(0, 3)
            shape = [h, w]
            ref = np.zeros(shape, np.uint8); pred = np.zeros(shape, np.uint8)
            l1, l2 = rng.sample([1, 2, 3], 2)
            ref[:, 0:a] = l1; ref[:, a:a + b] = l2
            if rng.random() < 0.5:
                pred[:, 0:a - sp] = l1; pred[:, a - sp:a + b] = l2            # l2's prediction spills into reference l1
            else:
                pred[:, 0:a + sp] = l1; pred[:, a + sp:a + b] = l2            # l1's prediction spills into reference l2
            if rng.random() < 0.5:
                ref, pred = np.ascontiguousarray(ref.T), np.ascontiguousarray(pred.T)
                shape = list(ref.shape)
        labs = [l for l in range(1, 4) if (ref == l).any() and (pred == l).any()]
        ctx.count({"evaluator_path": True, "ref": ref.tolist(), "pred": pred.tolist()}, bool(labs))
        ctx.bump("evaluator path/" + ("singleton axis" if 1 in shape else "faces"))
        bad, r = evaluator_path_problems(ref, pred)
        if bad:
            ctx.violation("evaluator: " + "; ".join(bad[:3]), {"evaluator_path": True, "ref": ref, "pred": pred, "observed": r})
    step = max(1, len(ins) // 60)
    triples += [(601, i, o) for i, o in list(zip(ins, outs))[::step]][:80]
    n, bad = coq_crosscheck("C06", triples)
    ctx.crosschecked = n
    for b in bad:
        ctx.disagree("extraction-vs-vm_compute", triples[b])
    ctx.exhaustive = ctx.tier == "thorough"


def replay(path):
    d = json.loads(open(path).read())
    if d.get("evaluator_path"):
        ref, pred = common.arr_from_json(d["ref"]), common.arr_from_json(d["pred"])
        print("reference:\n", ref, "\nprediction:\n", pred)
        bad, r = evaluator_path_problems(ref, pred)
        print("implementation:", None if r is None else {m: r["metrics"].get(m, {}).get("all") for m in ("DSC", "IOU", "RVD")}, None if r is None else r.get("globals"))
        for x in bad:
            print("PROPERTY FAILS ON THE IMPLEMENTATION:", x)
        print("DIFFER" if bad else "agree")
        return 1 if bad else 0
    if "large_shape" in d:
        shape = tuple(d["large_shape"]); lo, hi, sh = d["box"]
        ref = np.zeros(shape, np.uint8); pred = np.zeros(shape, np.uint8)
        ref[tuple(slice(a, b) for a, b in zip(lo, hi))] = 1
        pred[tuple(slice(min(dd - 1, a + s_), min(dd, b + s_)) for a, b, s_, dd in zip(lo, hi, sh, shape))] = d["pred_label"]
        im = impl_call(d["kind"], ref, pred if d["ri"] is not None else (pred != 0).astype(np.uint8), d["ri"], d["pi"])
        print(f"{d['kind']} on a {shape} volume: implementation {im}, definition {d['definition']!r}")
        ok = im[0] == "ok" and abs(im[1] - d["definition"]) <= 1e-12
        print("agree" if ok else "DIFFER")
        return 0 if ok else 1
    ref, pred = common.arr_from_json(d["ref"]), common.arr_from_json(d["pred"])
    im = impl_call(d["kind"], ref, pred, d["ri"], d["pi"])
    mo = engine_run(601, [model_case(d["kind"], ref, pred, d["ri"], d["pi"])])[0]
    print("implementation:", im)
    print("definition (model):", mo, "=", (Fraction(mo[1][0], mo[1][1]) if mo[0] == 0 else "error"))
    ok = agree(d["kind"], im, mo)
    print("agree" if ok else "DIFFER")
    return 0 if ok else 1

LEVEL_TEXT = ("Theorems in Props/C06.v (Coq 8.16.1, closed under the global context) state that the model's Dice/IoU/RVD/clDice "
              "are the set-theoretic quotients for every array, label and label list, with the consequences (relation, symmetry, "
              "range, =1 iff identical non-empty). The model is tied to the code by re-translating the formulas and the metric "
              "table from the Python AST on every run (GenEq lemmas) and by bit-exact correspondence on enumerated and random arrays.")
LEVEL_NOTE = ("Trusted: Coq kernel; the AST translator; extraction + driver (cross-checked by vm_compute); numpy/skimage behaviour "
              "(modelled, validated by correspondence only); Rnd64 = IEEE division (validated each run). Range/relation theorems are "
              "about the exact quotient before the single IEEE rounding.")
TECHNIQUE = "machine-checked proof in Rocq (Coq) + AST re-translation (GenEq) + bit-exact model/implementation correspondence"
