"""C20 -- dataset summaries are the statistics of exactly the recorded finite values.

T1: Gen/StatParse (missing-value condition, ValueSummary's four library calls and getters, the None filter of
    get_summary), GenEq lemmas in Proofs/GenEq_StatParse.v.
T2: generated .tsv tables (written directly, any pattern of finite / empty / NaN / +-inf cells, 1-4 groups with
    nasty names, shuffled rows, repeated subject names) are loaded with Panoptica_Statistic.from_file; the model
    loads the same cells (Model/Tsv.load) and computes every summary, the across-groups summary and every
    per-subject lookup exactly over Q (engine op 2001).  ValueSummary.values must equal the model's list exactly,
    avg / std^2 / min / max within 2^-30 relative tolerance (min / max exactly); exceptions must coincide with
    the model's Err.  Metamorphic layer on the implementation alone: a row permutation of the file leaves every
    summary unchanged (values as a multiset exactly)."""
import json
import os
import math
import tempfile
from fractions import Fraction
from pathlib import Path

from harness import common
from harness.common import engine_run, coq_crosscheck
from harness.props import c18
from harness.props.c18 import enc_name, dec_name, enc_table, dec_stat, quiet, write_cells, impl_load, same_loaded, ERR_CODE

TARGETS = ["theories/Props/C20.vo", "theories/Proofs/GenEq_StatParse.vo"]
GENEQ = {"theories/Proofs/GenEq_StatParse.vo": "StatParse"}
ALLOWED_AXIOMS = []
RULE = ("case = a table written directly as .tsv: 1-4 groups (nasty names) x 1-4 metrics x 1-9 subjects (names may repeat), "
        "each cell finite (repr of a double: small integers, halves, 0.1+0.2, 1/3, random at several scales, negative, repeated values; magnitudes 2^-40..2^17 -- extreme exponents are C18's stream, they only make the exact rational engine slow), "
        "empty, nan, inf or -inf in various spellings; columns without any finite value occur; plus a row permutation of "
        "the same table; replaced-file layer: a second table written to the path (and timestamps) of a table already loaded in this process. "
        "non-trivial = some column holds both a missing and at least two finite values")
ASSUMPTIONS = [
    "numpy's float summation order and the final rounding of average / std are outside the model: statistics are compared "
    "with exact rationals within 2^-30 relative to max(1,|value|) (std as its square against the population variance)",
    "the loaded table is Model/Tsv.load of the file's cells (the loader itself is C18's subject; its missing-value condition "
    "is tied by Gen/StatParse and compared here cell by cell)",
    "np.average on an empty list returns nan with a warning and min() raises ValueError: modelled as Err E_VALUE; the "
    "property is conditional on at least one finite value per summarised column",
]
TRUSTED = ["numpy reductions (modelled as exact rational mean / population variance; validated by correspondence only)"]
LEVEL_TEXT = ("Theorems in Props/C20.v (Coq 8.16.1, closed under the global context), for every table (any numbers of subjects, "
              "groups, metrics, any pattern of missing values): the values entering a summary are exactly the finite entries of "
              "that column; avg/variance/min/max are theirs (mean*n = sum, variance = E[x^2]-E[x]^2, min/max are attained bounds); "
              "any permutation of the rows gives a permutation of the values and equal statistics; get_one_subject returns the "
              "cells of the first row with that name (the subject's own row when names are distinct); the across-groups summary is "
              "the same statistics over the per-group averages, defined iff every column has a finite value. Tied to the code by "
              "AST re-translation of the condition / library calls (GenEq) and by exact correspondence on generated tables.")
LEVEL_NOTE = ("Statistics are proved over exact rationals; the float effects of summation order are not modelled (tolerance in T2). "
              "Trusted: Coq kernel, the AST translator, extraction + driver (cross-checked by vm_compute), the python harness, numpy.")
TECHNIQUE = "machine-checked proof in Rocq (Coq) + AST re-translation (GenEq) + exact model/implementation correspondence + metamorphic row permutation"

TOL = Fraction(1, 2 ** 30)
FTOL = Fraction(1, 2 ** 40)          # ~4000 ulps: float summation of a handful of values


def close(x, q: Fraction, scale=1) -> bool:
    """|x - q| <= 2^-30 * max(1, |q|, scale); scale = magnitude of the summands (float cancellation is not modelled)"""
    if not isinstance(x, float) or math.isnan(x) or math.isinf(x):
        return False
    return abs(Fraction(x) - q) <= TOL * max(1, abs(q), scale)


def near(a, b, scale=1) -> bool:
    """two implementation floats agree within tolerance (non-finite: identical kind)"""
    if not isinstance(a, float) or not isinstance(b, float):
        return a == b
    if math.isnan(a) or math.isnan(b) or math.isinf(a) or math.isinf(b):
        return repr(a) == repr(b)
    return close(b, Fraction(a), scale)


def gen_case(rng):
    ng, nm, ns = rng.randint(1, 4), rng.randint(1, 4), rng.randint(1, 9)
    gs = rng.sample(c18.NASTY + c18.NASTY_CSV, ng)
    ms = rng.sample(["tp", "sq", "pq_dsc", "global_bin_dsc", "m", "x y", "Mé", "rq", "1", "sq_assd_std"], nm)
    header = ["subject_name"] + [f"{g}-{m}" for g in gs for m in ms]
    p_missing = rng.choice([0.0, 0.1, 0.3, 0.6, 0.95])
    scale = rng.choice([1, 1, 10, 1000, 1e-6])
    # values far from zero with a small spread (distances, volumes, times): mean and deviation must not lose digits
    offset = rng.choice([0, 0, 0, 1e3, 1e5, 1e7]) * rng.choice([1, -1])
    if offset:
        scale = rng.choice([1e-3, 1e-1, 1])
    rows = []
    names = []
    for i in range(ns):
        nm_ = rng.choice(c18.SUBJECTS) + str(i)
        if names and rng.random() < 0.12:
            nm_ = rng.choice(names)             # repeated subject name
        names.append(nm_)
        r = [nm_]
        for _ in header[1:]:
            if rng.random() < p_missing:
                r.append(rng.choice(["", "", "nan", "NaN", "inf", "-inf", "Infinity", "-Infinity", "1e999", "-1e999"]))
            else:
                c = rng.random()
                if c < 0.35:
                    v = float(rng.randint(-3, 6))
                elif c < 0.55:
                    v = rng.choice([0.5, 0.25, 0.1 + 0.2, 1 / 3, 2 / 3, 0.1, -0.0, 1.0, 1e-12])
                elif c < 0.9:
                    v = rng.uniform(-1, 1) * scale + offset
                else:
                    v = rng.choice([4096.5, -2048.0, 123456.789, 2.0 ** -40, -1e-9])
                r.append(rng.choice([repr(v), repr(v), str(int(v)) if v == int(v) and abs(v) < 1e6 and rng.random() < 0.5 else repr(v)]))
        rows.append(r)
    perm = list(range(ns))
    rng.shuffle(perm)
    queries = sorted(set(names)) + ["no such subject"]
    return {"kind": "stats", "cells": [header] + rows, "perm": perm, "queries": queries}


def impl_summary(vs):
    return {"values": list(vs.values), "avg": vs.avg, "std": vs.std, "min": vs.min, "max": vs.max}


def impl_all(path, queries):
    """load and query the implementation; every call that raises is recorded as ('err', code)"""
    ld = impl_load(path)
    if ld[0] == "err":
        return {"load": ld}
    st = ld[5]
    out = {"load": ld, "summary": {}, "one": {}, "across_values": []}
    # the pooled value list of every metric, asked for BEFORE the summaries (queries must not change what later queries return)
    for m in st.metricnames:
        try:
            want = [v for g in st.groupnames for v in list(quiet(st.get, g, m))]
            got = list(quiet(st.get_across_groups, m))
            again = list(quiet(st.get_across_groups, m))
            if repr(got) != repr(want) or repr(again) != repr(want):
                out["across_values"].append(f"get_across_groups({m!r}) returned {len(got)} then {len(again)} values, the groups hold {len(want)}")
        except Exception as e:  # noqa
            out["across_values"].append(f"get_across_groups({m!r}) raised {type(e).__name__}")
    for g in st.groupnames:
        for m in st.metricnames:
            try:
                out["summary"][(g, m)] = ("ok", impl_summary(quiet(st.get_summary, g, m)))
            except Exception as e:  # noqa
                out["summary"][(g, m)] = ("err", ERR_CODE.get(type(e).__name__, type(e).__name__))
    try:
        ac = quiet(st.get_summary_across_groups)
        out["across"] = ("ok", {m: impl_summary(v) for m, v in ac.items()})
    except Exception as e:  # noqa
        out["across"] = ("err", ERR_CODE.get(type(e).__name__, type(e).__name__))
    for s in queries:
        try:
            out["one"][s] = ("ok", quiet(st.get_one_subject, s))
        except Exception as e:  # noqa
            out["one"][s] = ("err", ERR_CODE.get(type(e).__name__, type(e).__name__))
    return out


def cmp_summary(where, im, mo, exact_values=True, magnitude=0):
    """implementation ('ok', dict)/('err', code) vs model (0 (values avg var min max))/(1 code); `magnitude`: size of the
    summands the compared values were themselves computed from (the per-group averages carry the float error of THEIR sums)"""
    if mo[0] == 1:
        return None if im[0] == "err" else f"{where}: implementation returns {im[1]} where the definition is undefined (no finite value)"
    if im[0] == "err":
        return f"{where}: implementation raises ({im[1]}) although the column has finite values"
    vals, avg, var, mn, mx = mo[1]
    vq = [Fraction(a, b) for a, b in vals]
    s = im[1]
    iv = s["values"]
    if any(v is None or not isinstance(v, float) or math.isnan(v) or math.isinf(v) for v in iv):
        return f"{where}: values contain a non-finite entry {iv}"
    if exact_values and [Fraction(v) for v in iv] != vq:
        return f"{where}: values {iv} are not the finite recorded values {[float(v) for v in vq]}"
    big = max([abs(v) for v in vq] + [Fraction(1, 2 ** 200), Fraction(magnitude)])
    spread = max(vq) - min(vq)
    # float error of a (two-pass) mean / variance of n <= ~10 summands: a few ulps of the largest summand for the mean, of
    # (largest summand x spread) for the variance -- NOT of the squared magnitude (no cancellation of large squares is allowed)
    if not isinstance(s["avg"], float) or math.isnan(s["avg"]) or abs(Fraction(s["avg"]) - Fraction(*avg)) > FTOL * big:
        return f"{where}: avg {s['avg']!r} != {float(Fraction(*avg))!r}"
    vtol = 4 * FTOL * max(Fraction(*var), big * spread) + (Fraction(1, 2 ** 45) * big) ** 2
    if not isinstance(s["std"], float) or math.isnan(s["std"]) or abs(Fraction(s["std"]) ** 2 - Fraction(*var)) > vtol:
        return f"{where}: std {s['std']!r}, std^2 != population variance {float(Fraction(*var))!r}"
    if exact_values:
        if Fraction(s["min"]) != Fraction(*mn) or Fraction(s["max"]) != Fraction(*mx):
            return f"{where}: min/max {s['min']!r}/{s['max']!r} != {float(Fraction(*mn))!r}/{float(Fraction(*mx))!r}"
    elif not close(s["min"], Fraction(*mn), magnitude) or not close(s["max"], Fraction(*mx), magnitude):
        return f"{where}: min/max {s['min']!r}/{s['max']!r} != {float(Fraction(*mn))!r}/{float(Fraction(*mx))!r}"
    return None


def check_case(case, before=None):
    """-> (violations [str], disagreements [str], triple, nontrivial, bucket)
    before: cells of another table that was at the same path, with the same timestamps, and was loaded first (a result file
    replaced by a timestamp-preserving copy): what is loaded must be what the file holds now"""
    cells = case["cells"]
    with tempfile.TemporaryDirectory() as d:
        p = Path(d) / "t.tsv"
        if before is not None:
            write_cells(p, before)
            os.utime(p, (1_600_000_000, 1_600_000_000))
            impl_load(p)
        write_cells(p, cells)
        if before is not None:
            os.utime(p, (1_600_000_000, 1_600_000_000))
        im = impl_all(p, case["queries"])
        p2 = Path(d) / "p.tsv"
        write_cells(p2, [cells[0]] + [cells[1 + i] for i in case["perm"]])
        im2 = impl_all(p2, [])
    model_in = [enc_table(cells), [enc_name(s) for s in case["queries"]]]
    out = engine_run(2001, [model_in])[0]
    vio, dis = [], []
    mload = dec_stat(out[0])
    d = same_loaded(im["load"], mload)
    if d and (d.startswith("group order") or d.startswith("metric order")) and im["load"][0] == "ok" \
            and sorted(im["load"][2]) == sorted(mload[2]) and sorted(im["load"][3]) == sorted(mload[3]):
        dis.append("loader differs from the model in name order only: " + d)     # not a C20 matter; values are keyed by name
        reordered = ("ok", im["load"][1], mload[2], mload[3], im["load"][4])
        d = same_loaded(reordered, mload)
    if d:
        vio.append("loaded table is not the file's table: " + d)
        return vio, dis, (2001, model_in, out), False, "load-differs"
    if mload[0] == "err":
        return vio, dis, (2001, model_in, out), False, "unloadable"
    groups, metrics, table = mload[2], mload[3], mload[4]
    nontrivial = False
    n_undefined = 0
    for msg in im.get("across_values", [])[:2]:
        vio.append("pooled value list: " + msg)
    for gi, g in enumerate(groups):
        for mi, m in enumerate(metrics):
            col = table[g][m]
            fin = [v for v in col if v is not None]
            if len(fin) >= 2 and len(fin) < len(col):
                nontrivial = True
            if not fin:
                n_undefined += 1
            e = cmp_summary(f"get_summary({g!r},{m!r})", im["summary"][(g, m)], out[1][gi][mi])
            if e:
                vio.append(e)
            # metamorphic: row permutation
            a, b = im["summary"][(g, m)], im2.get("summary", {}).get((g, m))
            if b is None or a[0] != b[0]:
                vio.append(f"row permutation changes whether get_summary({g!r},{m!r}) is defined")
            elif a[0] == "ok":
                sa, sb = a[1], b[1]
                big = max([abs(v) for v in sa["values"]] + [1])
                if sorted(sa["values"]) != sorted(sb["values"]) or sa["min"] != sb["min"] or sa["max"] != sb["max"] \
                        or not near(sa["avg"], sb["avg"], big) or not near(sa["std"], sb["std"], big):
                    vio.append(f"row permutation changes get_summary({g!r},{m!r}): {sa} vs {sb}")
    # across groups
    ma = out[2]
    ia = im["across"]
    if ma[0] == 1:
        if ia[0] != "err":
            vio.append("get_summary_across_groups returns although a column has no finite value")
    elif ia[0] == "err":
        vio.append(f"get_summary_across_groups raises ({ia[1]}) although every column has a finite value")
    else:
        if list(ia[1].keys()) != [dec_name(m) for m, _ in ma[1]]:
            dis.append(f"across-groups metric order {list(ia[1].keys())} vs {[dec_name(m) for m, _ in ma[1]]}")
        for m, vs in ma[1]:
            mm = dec_name(m)
            if mm not in ia[1]:
                vio.append(f"across-groups summary lacks metric {mm!r}")
                continue
            mag = max([abs(v) for g in groups for v in table[g][mm] if v is not None] + [0])
            e = cmp_summary(f"across_groups[{mm!r}]", ("ok", ia[1][mm]), [0, vs], exact_values=False, magnitude=mag)
            if e:
                vio.append(e)
            # values: the per-group averages, within tolerance, in group order
            want = [Fraction(a, b) for a, b in vs[0]]
            got = ia[1][mm]["values"]
            if len(got) != len(want) or any(not close(float(x), w, mag) for x, w in zip(got, want)):
                vio.append(f"across_groups[{mm!r}].values {got} are not the per-group averages {[float(w) for w in want]}")
        a2 = im2.get("across")
        if a2 is None or a2[0] != "ok":
            vio.append("row permutation makes get_summary_across_groups raise")
        else:
            for mm, s in ia[1].items():
                t = a2[1].get(mm)
                if t is None or not all(near(s[k], t[k], max([abs(v) for v in s["values"] if isinstance(v, float) and math.isfinite(v)] + [1])) for k in ("avg", "std", "min", "max")):
                    vio.append(f"row permutation changes across_groups[{mm!r}]")
    # per-subject lookups
    for s, mo in zip(case["queries"], out[3]):
        io = im["one"][s]
        if mo[0] == 1:
            if io[0] != "err":
                vio.append(f"get_one_subject({s!r}) returns for an unknown subject")
            continue
        if io[0] == "err":
            vio.append(f"get_one_subject({s!r}) raises ({io[1]})")
            continue
        want = {dec_name(g): {dec_name(m): (None if o == [] else Fraction(o[0][0], o[0][1])) for m, o in gl} for g, gl in mo[1]}
        got = {g: {m: (None if v is None else (Fraction(v) if isinstance(v, float) and math.isfinite(v) else repr(v))) for m, v in gd.items()} for g, gd in io[1].items()}
        if want != got:
            vio.append(f"get_one_subject({s!r}) = {io[1]} is not the first row named {s!r}: {want}")
    bucket = f"{len(groups)}g{len(metrics)}m/{'undefined-col' if n_undefined else 'all-defined'}/{'dupname' if len(set(mload[1])) < len(mload[1]) else 'distinct'}"
    return vio, dis, (2001, model_in, out), nontrivial, bucket


def run(ctx):
    rng = ctx.rng
    cases = []
    cdir = common.VERIF / "corpus" / "C20"
    if cdir.exists():
        for f in sorted(cdir.glob("*.json")):
            cases.append(json.loads(f.read_text()))
    n_corpus = len(cases)
    for _ in range(ctx.scale(250, 3000)):
        cases.append(gen_case(rng))
    # loader-level tables (also malformed): get on absent names, assertion paths
    extra = [c18.gen_table_case(rng) for _ in range(ctx.scale(60, 600))]
    triples = []
    n_viol = 0
    for ci, case in enumerate(cases):
        vio, dis, triple, nontrivial, bucket = check_case(case)
        ctx.count(case, nontrivial)
        ctx.bump(bucket)
        if ci < n_corpus:
            ctx.bump("corpus")
        for what in vio[:2]:
            n_viol += 1
            if n_viol <= 10:
                ctx.violation(what, {"case": case})
        if not vio:
            for t in dis[:2]:
                ctx.disagree("model-vs-implementation", {"what": t, "case": case})
        if ci % 8 == 0 and len(triples) < 60 and len(json.dumps(triple[1])) < 5000:
            triples.append(triple)
    for case in extra:
        case = dict(case, queries=[case["cells"][1][0]] if len(case["cells"]) > 1 and case["cells"][1] else [], perm=list(range(len(case["cells"]) - 1)), kind="stats")
        vio, dis, triple, nontrivial, bucket = check_case(case)
        ctx.count(case, nontrivial)
        ctx.bump("loader-table/" + bucket)
        for what in vio[:2]:
            n_viol += 1
            if n_viol <= 10:
                ctx.violation(what, {"case": case})
    # a table replaced at the same path with preserved timestamps, after the old one was loaded in this process
    n_repl = 0
    for _ in range(ctx.scale(40, 400)):
        a, b = gen_case(rng), gen_case(rng)
        if rng.random() < 0.5:                    # same shape, other values / other row order
            b = dict(a, cells=[a["cells"][0]] + [list(r) for r in reversed(a["cells"][1:])])
            for r in b["cells"][1:]:
                for j in range(1, len(r)):
                    if rng.random() < 0.4:
                        r[j] = rng.choice(["", "inf", repr(rng.uniform(-2, 2)), "0.5"])
            b["perm"] = list(range(len(b["cells"]) - 1))
        vio, dis, triple, nontrivial, bucket = check_case(b, before=a["cells"])
        ctx.count({"replaced": True, "case": b, "before": a["cells"]}, nontrivial)
        ctx.bump("replaced at the same path/" + bucket)
        n_repl += 1
        for what in vio[:1]:
            n_viol += 1
            if n_viol <= 10:
                ctx.violation("after another table at the same path (same timestamps) was loaded: " + what, {"case": b, "before": a["cells"]})
    ctx.layers.append({"layer": "table replaced at the same path with preserved timestamps after a first load", "cases": n_repl})
    n, bad = coq_crosscheck("C20", triples, timeout=600)
    ctx.crosschecked = n
    for b in bad:
        ctx.disagree("extraction-vs-vm_compute", triples[b])
    ctx.layers.append({"layer": "generated tables: summaries, across groups, per-subject lookups vs exact model", "cases": len(cases)})
    ctx.layers.append({"layer": "metamorphic: row permutation on the implementation", "cases": len(cases)})
    ctx.layers.append({"layer": "arbitrary/malformed tables through loader + queries", "cases": len(extra)})


def replay(path):
    d = json.loads(open(path).read())
    case = d["case"] if "case" in d else d
    vio, dis, triple, _, bucket = check_case(case, before=d.get("before"))
    if d.get("before"):
        print("first loaded from the same path (same timestamps), then replaced:")
        for r in d["before"]:
            print("   ", r)
    print("table:")
    for r in case["cells"]:
        print("   ", r)
    print("row permutation:", case["perm"])
    out = triple[2]
    ld = dec_stat(out[0])
    print("model load:", ld[:4] if ld[0] == "ok" else ld)
    if ld[0] == "ok":
        def q(x):
            return float(Fraction(x[0], x[1]))
        for gi, g in enumerate(ld[2]):
            for mi, m in enumerate(ld[3]):
                r = out[1][gi][mi]
                print(f"   column ({g!r},{m!r}) = {[None if v is None else float(v) for v in ld[4][g][m]]}")
                print("      summary:", "undefined (no finite value)" if r[0] == 1 else
                      {"values": [q(v) for v in r[1][0]], "avg": q(r[1][1]), "variance": q(r[1][2]), "min": q(r[1][3]), "max": q(r[1][4])})
        print("   across groups:", "undefined (ValueError)" if out[2][0] == 1 else
              {dec_name(m): {"values": [q(v) for v in vs[0]], "avg": q(vs[1]), "variance": q(vs[2]), "min": q(vs[3]), "max": q(vs[4])} for m, vs in out[2][1]})
    for w in vio:
        print("PROPERTY FAILS ON THE IMPLEMENTATION:", w)
    for t in dis:
        print("MODEL AND IMPLEMENTATION DIFFER:", t)
    ok = not vio and not dis
    print("agree" if ok else "DIFFER")
    return 0 if ok else 1
