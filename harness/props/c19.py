"""C19 -- saving and loading a configuration reproduces the same evaluator.

T1: Gen/ConfigTables (per-class key tables re-extracted from the Python AST on every run) with
    GenEq_ConfigTables: tables_ok gen_tables = true  and  gen_tables = the model's tables.
T2: for every generated configuration the real object is built, saved, loaded, saved again:
    the two files must be byte-identical, all private attributes must agree recursively, probe inputs must
    evaluate identically before and after; the saved file (parsed keeping tags) must be the model's `encode c`
    as a tree and the model's `decode` of that tree must be `c` again.  Also every component on its own and the
    shipped YAML files."""
import contextlib
import io
import json
import math
import os
import tempfile
from fractions import Fraction
from pathlib import Path

import numpy as np

from harness import common
from harness.common import engine_run, coq_crosscheck

TARGETS = ["theories/Props/C19.vo", "theories/Proofs/GenEq_ConfigTables.vo", "theories/Proofs/GenEq_Groups.vo"]
GENEQ = {"theories/Proofs/GenEq_ConfigTables.vo": "ConfigTables", "theories/Proofs/GenEq_Groups.vo": "Groups"}
ALLOWED_AXIOMS = []
RULE = ("cases = evaluator configurations as constructor arguments: corpus first; every field varied away from its "
        "default singly (3 input types, approximator none/default/cc3d/scipy, threshold matcher x 5 metrics x thresholds "
        "(int, float, tiny, inf) x many-to-one, merge matcher, handler tables (single entry, partial with default_result, "
        "random full tables, empty, every std value), class groups (plain, merge, single-instance, list form, tuple values, "
        "upper-case / numeric / odd names, unsorted and duplicate labels), metric lists (empty, reordered, duplicates), "
        "decision metric + threshold, the three flags); then seeded random combinations over the full product. "
        "Each case: save -> load -> save (byte-identical files), recursive private-attribute comparison, 6 probe inputs "
        "(IoU 0.6/0.4/1.0 triple, split prediction for many-to-one/merge, empty prediction, empty reference, both empty, "
        "shifted blobs) evaluated before and after, file tree = model encode, model decode = configuration. "
        "non-trivial = differs from the default configuration and at least one probe evaluated to a result")
ASSUMPTIONS = [
    "ruamel.yaml's text layer (tree <-> characters, float repr/parse, quoting of names, sorting of mapping keys with "
    "sortable keys) is modelled as the identity on trees, not verified; -0.0 is identified with 0.0 in the model",
    "a configuration is the state the constructors produce: group names lower-case (ASCII in the model), labels "
    "sorted(set(.)); dict insertion order of the class groups is canonicalised (the file lists groups by name, so the "
    "loaded evaluator iterates groups alphabetically; per-group results are identical)",
    "MetricZeroTPEdgeCaseHandling._default_result is not saved (None after loading); it is read nowhere after "
    "__init__ (checked by grep in this harness), so it is excluded from the attribute comparison",
    "the lazily filled cache Panoptica_Evaluator.__resulting_metric_keys is compared through the public property",
    "SegmentationClassGroups given as a YAML list or with tuple values, non-ASCII group names and user subclasses "
    "are outside the Coq model (decode answers E_DOMAIN); they are still exercised on the implementation side",
    "asserts of the constructors (label > 0, non-empty, single instance => one label, decision metric => threshold) "
    "are modelled by hand in Model/Config.v; the T1 unit pins the key/parameter/attribute tables, not the assert text",
]
TRUSTED = ["ruamel.yaml (modelled, not verified)", "harness: object state -> model configuration conversion"]

METRICS = ["DSC", "IOU", "ASSD", "clDSC", "RVD"]
INPUTS = ["SEMANTIC", "UNMATCHED_INSTANCE", "MATCHED_INSTANCE"]
BACKENDS = ["cc3d", "scipy"]
ECRES = ["INF", "NAN", "ZERO", "ONE", "NONE"]
ZEROTP = ["NO_INSTANCES", "EMPTY_PRED", "EMPTY_REF", "NORMAL"]
COMP_KIND = {"matcher": 0, "approx": 1, "handler": 2, "mzh": 3, "lgroup": 4, "groups": 5, "any": 6,
             "Metric": 7, "InputType": 8, "CCABackend": 9, "EdgeCaseResult": 10, "EdgeCaseZeroTP": 11}


# ------------------------------------------------------------------ implementation access
def P():
    """late import of everything from the implementation under test"""
    import panoptica
    from panoptica import Panoptica_Evaluator, ConnectedComponentsInstanceApproximator
    from panoptica.instance_matcher import NaiveThresholdMatching, MaximizeMergeMatching
    from panoptica.metrics import Metric
    from panoptica.utils.constants import CCABackend
    from panoptica.utils.edge_case_handling import (EdgeCaseHandler, EdgeCaseResult, EdgeCaseZeroTP,
                                                    MetricZeroTPEdgeCaseHandling)
    from panoptica.utils.label_group import LabelGroup, LabelMergeGroup, _LabelGroupAny
    from panoptica.utils.processing_pair import InputType
    from panoptica.utils.segmentation_class import SegmentationClassGroups, _NoSegmentationClassGroups

    class NS:
        pass
    ns = NS()
    ns.__dict__.update(locals())
    return ns


@contextlib.contextmanager
def quiet():
    with contextlib.redirect_stdout(io.StringIO()):
        yield


def num_py(x):
    if isinstance(x, str):
        return {"inf": math.inf, "-inf": -math.inf, "nan": math.nan}[x]
    return x


def num_js(x):
    if isinstance(x, float) and (math.isnan(x) or math.isinf(x)):
        return "nan" if math.isnan(x) else ("inf" if x > 0 else "-inf")
    return x


# ------------------------------------------------------------------ building real objects from a spec
def build_mzh(p, s):
    kw = {k: getattr(p.EdgeCaseResult, v) for k, v in s.items() if v is not None}
    return p.MetricZeroTPEdgeCaseHandling(**kw)


def build_handler(p, s):
    kw = {}
    if s.get("table") is not None:
        kw["listmetric_zeroTP_handling"] = {getattr(p.Metric, m): build_mzh(p, z) for m, z in s["table"]}
    if s.get("std") is not None:
        kw["empty_list_std"] = getattr(p.EdgeCaseResult, s["std"])
    return p.EdgeCaseHandler(**kw)


def build_lgroup(p, e):
    name, kind, labels, single = e
    cls = p.LabelMergeGroup if kind == "merge" else p.LabelGroup
    return cls(labels, single)


def build_groups(p, s):
    if s["form"] == "list":
        return p.SegmentationClassGroups([build_lgroup(p, e) for e in s["entries"]])
    d = {}
    for e in s["entries"]:
        name, kind, labels, single = e
        key = int(name[1:]) if isinstance(name, str) and name.startswith("#") else name
        d[key] = (labels, single) if kind == "tuple" else build_lgroup(p, e)
    return p.SegmentationClassGroups(d)


def build_matcher(p, s):
    kw = {}
    if s.get("metric") is not None:
        kw["matching_metric"] = getattr(p.Metric, s["metric"])
    if s.get("thr") is not None:
        kw["matching_threshold"] = num_py(s["thr"])
    if s["kind"] == "naive":
        if s.get("m2o") is not None:
            kw["allow_many_to_one"] = s["m2o"]
        return p.NaiveThresholdMatching(**kw)
    return p.MaximizeMergeMatching(**kw)


def build_approx(p, s):
    if s.get("backend") is None:
        return p.ConnectedComponentsInstanceApproximator()
    return p.ConnectedComponentsInstanceApproximator(getattr(p.CCABackend, s["backend"]))


def build_evaluator(p, s):
    kw = {}
    if s.get("input") is not None:
        kw["expected_input"] = getattr(p.InputType, s["input"])
    if s.get("approx") is not None:
        kw["instance_approximator"] = build_approx(p, s["approx"])
    if s.get("matcher") is not None:
        kw["instance_matcher"] = build_matcher(p, s["matcher"])
    if s.get("handler") is not None:
        kw["edge_case_handler"] = build_handler(p, s["handler"])
    if s.get("groups") is not None:
        kw["segmentation_class_groups"] = build_groups(p, s["groups"])
    if s.get("inst") is not None:
        kw["instance_metrics"] = [getattr(p.Metric, m) for m in s["inst"]]
    if s.get("glob") is not None:
        kw["global_metrics"] = [getattr(p.Metric, m) for m in s["glob"]]
    if s.get("dmetric") is not None:
        kw["decision_metric"] = getattr(p.Metric, s["dmetric"])
    if s.get("dthr") is not None:
        kw["decision_threshold"] = num_py(s["dthr"])
    for k in ("save_group_times", "log_times", "verbose"):
        if s.get(k) is not None:
            kw[k] = s[k]
    return p.Panoptica_Evaluator(**kw)


def build_component(p, comp, s):
    if comp == "matcher":
        return build_matcher(p, s)
    if comp == "approx":
        return build_approx(p, s)
    if comp == "handler":
        return build_handler(p, s)
    if comp == "mzh":
        return build_mzh(p, s)
    if comp == "lgroup":
        return build_lgroup(p, s)
    if comp == "groups":
        return build_groups(p, s) if s is not None else p._NoSegmentationClassGroups()
    if comp == "any":
        return p._LabelGroupAny()
    if comp == "evaluator":
        return build_evaluator(p, s)
    return getattr({"Metric": p.Metric, "InputType": p.InputType, "CCABackend": p.CCABackend,
                    "EdgeCaseResult": p.EdgeCaseResult, "EdgeCaseZeroTP": p.EdgeCaseZeroTP}[comp], s)


# ------------------------------------------------------------------ canonical snapshot of private state
SKIP_ATTRS = {"_default_result", "_Panoptica_Evaluator__resulting_metric_keys"}


def snap(x):
    import enum
    if isinstance(x, enum.Enum):
        return f"{type(x).__name__}.{x.name}"
    if x is None or isinstance(x, (bool, str)):
        return x
    if isinstance(x, (int, np.integer)):
        return ["int", int(x)]
    if isinstance(x, (float, np.floating)):
        return ["float", "nan" if math.isnan(x) else repr(float(x))]
    if isinstance(x, (list, tuple)):
        return [snap(v) for v in x]
    if isinstance(x, (set, frozenset)):
        return ["set"] + sorted((snap(v) for v in x), key=lambda v: json.dumps(v, sort_keys=True))
    if isinstance(x, dict):
        items = [[snap(k), snap(v)] for k, v in x.items()]
        keys = [json.dumps(k, sort_keys=True) for k, _ in items]
        if all(isinstance(k, str) for k in x.keys()):
            items = [i for _, i in sorted(zip(keys, items), key=lambda t: t[0])]   # group dictionary: order canonicalised
        return ["dict"] + items
    if hasattr(x, "__dict__") and type(x).__module__.startswith("panoptica"):
        attrs = {}
        for k, v in vars(x).items():
            if k in SKIP_ATTRS:
                continue
            sv = snap(v)
            if k == "_SegmentationClassGroups__labels":
                sv = sorted(sv, key=lambda t: json.dumps(t))       # derived from the (canonicalised) dict order
            attrs[k] = sv
        return {"__class__": type(x).__name__, "attrs": attrs}
    return ["repr", repr(x)]


# ------------------------------------------------------------------ object state -> model S-expression
def s_str(s):
    return [ord(c) for c in s]


def s_num(x):
    if isinstance(x, bool):
        raise ValueError("bool threshold")
    if isinstance(x, (int, np.integer)):
        return [0, int(x)]
    x = float(x)
    if math.isnan(x):
        return [4]
    if math.isinf(x):
        return [2] if x > 0 else [3]
    f = Fraction(x)
    return [1, [f.numerator, f.denominator]]


def s_opt(f, x):
    return [] if x is None else [f(x)]


def s_metric(m):
    return METRICS.index(m.name)


def s_ecres(r):
    return ECRES.index(r.name)


def s_matcher(m):
    n = type(m).__name__
    if n == "NaiveThresholdMatching":
        return [0, s_metric(m._matching_metric), s_num(m._matching_threshold), bool(m._allow_many_to_one)]
    if n == "MaximizeMergeMatching":
        return [1, s_metric(m._matching_metric), s_num(m._matching_threshold)]
    raise ValueError("matcher class " + n)


def s_approx(a):
    if type(a).__name__ != "ConnectedComponentsInstanceApproximator":
        raise ValueError("approximator class")
    return s_opt(lambda b: BACKENDS.index(b.name), a.cca_backend)


def s_mzh(z):
    d = {k.name: v for k, v in z._edgecase_dict.items()}
    return [s_ecres(d[k]) for k in ZEROTP]


def s_handler(h):
    d = vars(h)
    return [[[s_metric(k), s_mzh(v)] for k, v in d["_EdgeCaseHandler__listmetric_zeroTP_handling"].items()],
            s_ecres(d["_EdgeCaseHandler__empty_list_std"])]


def s_lgroup(g):
    n = type(g).__name__
    d = vars(g)
    return [{"LabelGroup": 0, "LabelMergeGroup": 1}[n], [int(v) for v in d["_LabelGroup__value_labels"]],
            bool(d["_LabelGroup__single_instance"])]


def s_groups(g):
    n = type(g).__name__
    if n == "_NoSegmentationClassGroups":
        return []
    if n != "SegmentationClassGroups":
        raise ValueError("groups class " + n)
    gd = vars(g)["_SegmentationClassGroups__group_dictionary"]
    return [[[s_str(k)] + s_lgroup(gd[k]) for k in sorted(gd.keys())]]


def s_config(ev):
    d = vars(ev)
    q = "_Panoptica_Evaluator__"
    return [INPUTS.index(d[q + "expected_input"].name),
            s_opt(s_approx, d[q + "instance_approximator"]),
            s_opt(s_matcher, d[q + "instance_matcher"]),
            s_handler(d[q + "edge_case_handler"]),
            s_groups(d[q + "segmentation_class_groups"]),
            [s_metric(m) for m in d[q + "eval_metrics"]],
            [s_metric(m) for m in d[q + "global_metrics"]],
            s_opt(s_metric, d[q + "decision_metric"]),
            s_opt(s_num, d[q + "decision_threshold"]),
            bool(d[q + "save_group_times"]), bool(d[q + "log_times"]), bool(d[q + "verbose"])]


def s_component(comp, obj):
    if comp == "matcher":
        return s_matcher(obj)
    if comp == "approx":
        return s_approx(obj)
    if comp == "handler":
        return s_handler(obj)
    if comp == "mzh":
        return s_mzh(obj)
    if comp == "lgroup":
        return s_lgroup(obj)
    if comp == "groups":
        return s_groups(obj)
    if comp == "any":
        return []
    names = {"Metric": METRICS, "InputType": INPUTS, "CCABackend": BACKENDS, "EdgeCaseResult": ECRES,
             "EdgeCaseZeroTP": ZEROTP}[comp]
    return names.index(obj.name)


def norm_sx(x):
    """python bools -> ints so that trees built here compare with parsed engine output"""
    if isinstance(x, bool):
        return int(x)
    if isinstance(x, list):
        return [norm_sx(v) for v in x]
    return x


# ------------------------------------------------------------------ YAML file -> tree (tags kept)
def yaml_tree(path):
    from ruamel.yaml import YAML
    from ruamel.yaml.nodes import MappingNode, ScalarNode, SequenceNode
    y = YAML(typ="safe")
    with open(path) as f:
        root = y.compose(f)

    def conv(n):
        tag = n.tag
        if isinstance(n, ScalarNode):
            if tag.startswith("!"):
                return [4, s_str(tag[1:]), s_str(n.value)]
            kind = tag.rsplit(":", 1)[-1]
            v = n.value
            if kind == "null":
                return [0]
            if kind == "bool":
                return [1, 1 if v.lower() in ("true", "yes", "on") else 0]
            if kind == "int":
                t = v.replace("_", "")
                try:
                    return [2, [0, int(t, 0)]]
                except ValueError:
                    return [2, [0, int(t)]]
            if kind == "float":
                t = v.lower().replace("_", "")
                if t in (".inf", "+.inf"):
                    return [2, [2]]
                if t == "-.inf":
                    return [2, [3]]
                if t == ".nan":
                    return [2, [4]]
                return [2, s_num(float(t))]
            if kind == "str":
                return [3, s_str(v)]
            raise ValueError("scalar tag " + tag)
        if isinstance(n, SequenceNode):
            return [5, [conv(c) for c in n.value]]
        if isinstance(n, MappingNode):
            t = [s_str(tag[1:])] if tag.startswith("!") else []
            return [6, t, [[conv(k), conv(v)] for k, v in n.value]]
        raise ValueError("node " + type(n).__name__)
    return conv(root)


# ------------------------------------------------------------------ probes
def probes():
    out = {}
    ref = np.zeros((10, 10), np.uint8)
    pred = np.zeros((10, 10), np.uint8)
    ref[0:5, 0:4] = 1; pred[0:3, 0:4] = 1          # IoU 0.6
    ref[6:10, 0:5] = 2; pred[6:10, 0:2] = 2        # IoU 0.4
    ref[0:4, 6:10] = 3; pred[0:4, 6:10] = 3        # IoU 1.0
    out["iou_06_04_10"] = (pred, ref)
    ref2 = np.zeros((10, 10), np.uint8)
    pred2 = np.zeros((10, 10), np.uint8)
    ref2[0:4, 0:10] = 1; pred2[0:4, 0:5] = 1; pred2[0:4, 5:9] = 2   # halves: IoU 0.5, 0.4, merged 0.9
    ref2[6:9, 2:6] = 2; pred2[6:9, 3:7] = 3                          # shifted blob IoU 0.6
    out["split_prediction"] = (pred2, ref2)
    out["empty_prediction"] = (np.zeros_like(ref), ref)
    out["empty_reference"] = (pred, np.zeros_like(ref))
    out["both_empty"] = (np.zeros_like(ref), np.zeros_like(ref))
    ref3 = np.zeros((6, 6, 6), np.uint8)
    pred3 = np.zeros((6, 6, 6), np.uint8)
    ref3[0:3, 0:3, 0:3] = 1; pred3[0:3, 0:3, 1:4] = 1
    ref3[4:6, 4:6, 0:6] = 4; pred3[4:6, 4:6, 0:3] = 4; pred3[4:6, 4:6, 4:6] = 5
    out["volume_3d"] = (pred3, ref3)
    return out


def canon_val(v):
    if isinstance(v, (float, np.floating)):
        return "nan" if math.isnan(v) else repr(float(v))
    if isinstance(v, (int, np.integer)):
        return int(v)
    if isinstance(v, (list, tuple, np.ndarray)):
        return [canon_val(x) for x in v]
    if v is None or isinstance(v, (str, bool)):
        return v
    return repr(v)


def evaluate(ev, pred, ref):
    """observable outcome of one evaluation: per group the result dictionary (NaN-aware canonical form)
    and whether a computation time was recorded, or the exception"""
    try:
        with quiet(), np.errstate(all="ignore"):
            res = ev.evaluate(pred.copy(), ref.copy())
        out = {}
        for g, (r, _) in res.items():
            try:
                d = {k: canon_val(v) for k, v in r.to_dict().items()}
            except Exception as e:  # noqa
                d = {"to_dict raised": type(e).__name__}
            out[g] = {"dict": d, "timed": r.computation_time is not None}
        return ["ok", out]
    except Exception as e:  # noqa
        # the message of the undefined-label assertion lists the groups in dict order (alphabetical after a
        # reload, see ASSUMPTIONS): canonicalised away
        top = ["raised", type(e).__name__, str(e).split("the groups are defined as")[0][:200]]
    # evaluate() stops at the first group that raises, and which group comes first depends on the dict order of
    # the groups (alphabetical after a reload).  Make the outcome order independent: every group on its own.
    try:
        q = "_Panoptica_Evaluator__"
        groups = vars(ev)[q + "segmentation_class_groups"]
        with quiet():
            pair = vars(ev)[q + "expected_input"](pred.copy(), ref.copy())
            groups.has_defined_labels_for(pair.prediction_arr, raise_error=True)
            groups.has_defined_labels_for(pair.reference_arr, raise_error=True)
    except Exception:  # noqa
        return top
    per = {}
    for name in sorted(groups.keys()):
        try:
            with quiet(), np.errstate(all="ignore"):
                _, r, _ = ev._evaluate_group(name, groups[name], pair, True,
                                             save_group_times=vars(ev)[q + "save_group_times"])
            per[name] = {"dict": {k: canon_val(v) for k, v in r.to_dict().items()}, "timed": r.computation_time is not None}
        except Exception as e2:  # noqa
            per[name] = ["raised", type(e2).__name__, str(e2)[:200]]
    return ["raised-in-a-group", per]


# ------------------------------------------------------------------ one save/load cycle on the implementation
def cycle(obj, cls, tmp, loader=None):
    """save -> load -> save.  returns dict(files equal, texts, loaded object or exception)"""
    a, b = Path(tmp) / "a.yaml", Path(tmp) / "b.yaml"
    for f in (a, b):
        if f.exists():
            f.unlink()
    out = {}
    try:
        with quiet():
            obj.save_to_config(a)
        out["text1"] = a.read_text()
    except Exception as e:  # noqa
        out["error"] = f"save raised {type(e).__name__}: {str(e)[:200]}"
        return out
    try:
        with quiet():
            o2 = (loader or cls.load_from_config)(a)
    except Exception as e:  # noqa
        out["error"] = f"load raised {type(e).__name__}: {str(e)[:200]}"
        return out
    out["loaded"] = o2
    try:
        with quiet():
            o2.save_to_config(b)
        out["text2"] = b.read_text()
    except Exception as e:  # noqa
        out["error"] = f"second save raised {type(e).__name__}: {str(e)[:200]}"
    return out


def first_diff(a, b, path=""):
    if type(a) != type(b):
        return f"{path}: {a!r} vs {b!r}"
    if isinstance(a, dict):
        for k in sorted(set(a) | set(b)):
            if k not in a or k not in b:
                return f"{path}/{k}: present on one side only"
            d = first_diff(a[k], b[k], f"{path}/{k}")
            if d:
                return d
        return None
    if isinstance(a, list):
        if len(a) != len(b):
            return f"{path}: lengths {len(a)} vs {len(b)}: {a!r} vs {b!r}"[:300]
        for i, (x, y) in enumerate(zip(a, b)):
            d = first_diff(x, y, f"{path}[{i}]")
            if d:
                return d
        return None
    return None if a == b else f"{path}: {a!r} vs {b!r}"


class Outcome:
    def __init__(self):
        self.violations = []      # (what, details)
        self.disagreements = []   # (unit, details)
        self.model_in = None
        self.model_out = None
        self.evaluated = 0
        self.signatures = []      # (probe, canonical outcome) -- how much the probes discriminate configurations


def check_object(p, comp, spec, tmp, out, with_probes=True):
    """the whole C19 check for one object (evaluator or component) described by spec"""
    try:
        with quiet():
            obj = build_component(p, comp, spec)
    except Exception as e:  # noqa  -- not constructible: outside the property (e.g. decision metric without threshold)
        out.not_constructible = f"{type(e).__name__}: {str(e)[:120]}"
        return
    cls = type(obj)
    base = {"evaluator": p.Panoptica_Evaluator, "lgroup": p.LabelGroup, "groups": p.SegmentationClassGroups}.get(comp, cls)
    cy = cycle(obj, base, tmp)
    if "error" in cy:
        out.violations.append((f"{comp}: {cy['error']}", {}))
        return
    o2 = cy["loaded"]
    if type(o2) is not cls:
        out.violations.append((f"{comp}: loaded object is a {type(o2).__name__}, saved a {cls.__name__}", {}))
    if cy["text1"] != cy["text2"]:
        out.violations.append((f"{comp}: save -> load -> save changed the file",
                               {"first": cy["text1"], "second": cy["text2"]}))
    s1, s2 = snap(obj), snap(o2)
    d = first_diff(s1, s2)
    if d:
        out.violations.append((f"{comp}: loaded object differs in its settings: {d}", {}))
    # probes
    if comp == "evaluator" and with_probes:
        try:
            k1, k2 = obj.resulting_metric_keys, o2.resulting_metric_keys
            if k1 != k2:
                out.violations.append(("resulting_metric_keys differ after loading", {"before": k1, "after": k2}))
        except Exception:  # noqa
            pass
        for name, (pr, rf) in probes().items():
            r1, r2 = evaluate(obj, pr, rf), evaluate(o2, pr, rf)
            if r1[0] == "ok":
                out.evaluated += 1
            out.signatures.append((name, json.dumps(r1, sort_keys=True)))
            if r1 != r2:
                out.violations.append((f"probe {name}: results differ after save/load: {first_diff(r1, r2)}",
                                       {"probe": name, "before": r1, "after": r2}))
    # model side
    try:
        sxv = norm_sx(s_config(obj) if comp == "evaluator" else s_component(comp, obj))
        tree = norm_sx(yaml_tree(Path(tmp) / "a.yaml"))
    except Exception as e:  # noqa
        out.disagreements.append(("state->model conversion", f"{type(e).__name__}: {e}"))
        return
    out.model_in = (sxv, tree)


def model_ops(comp, sxv, tree):
    """engine requests for one object: (op, input) for encode+decode and for decoding the real file tree"""
    if comp == "evaluator":
        return (1901, sxv), (1902, tree)
    k = COMP_KIND[comp]
    return (1903, [k, sxv]), (1904, [k, tree])


def judge_model(comp, sxv, tree, enc_out, dec_out, out):
    if comp == "evaluator":
        m_tree, m_dec, wf, tok = enc_out
        if wf != 1:
            out.disagreements.append(("wf_config false on a constructed object", sxv))
        if tok != 1:
            out.disagreements.append(("tables_ok false in the engine", None))
    else:
        m_tree, m_dec = enc_out
    if m_tree != tree:
        out.disagreements.append((f"{comp}: saved file is not the model's encode: {first_diff(tree, m_tree)}",
                                  {"file": tree, "model": m_tree}))
    if m_dec != [0, sxv]:
        out.disagreements.append((f"{comp}: model decode(encode c) != c", {"c": sxv, "decoded": m_dec}))
    if dec_out != [0, sxv]:
        out.disagreements.append((f"{comp}: model decode of the real file != object state: {first_diff([0, sxv], dec_out)}",
                                  {"c": sxv, "decoded": dec_out}))


# ------------------------------------------------------------------ generators
def rand_thr(rng):
    return rng.choice([0.5, 0.9, 0.1, 0.3, 0.75, 1, 0, 1e-3, 0.30000000000000004, 2.5, 1e-320, 1e22, "inf",
                       rng.random(), rng.randint(0, 3), round(rng.random(), 2),
                       # values whose repr is in exponent form with a fractional mantissa / without one
                       2.5e-05, 3.75e-07, 1.5e+16, 1e-05, 1e16, rng.random() * 10.0 ** rng.randint(-12, -5), rng.random() * 10.0 ** rng.randint(16, 30)])


def rand_mzh(rng, full=None):
    full = rng.random() < 0.5 if full is None else full
    if full:
        return {"no_instances_result": rng.choice(ECRES), "empty_prediction_result": rng.choice(ECRES),
                "empty_reference_result": rng.choice(ECRES), "normal": rng.choice(ECRES)}
    s = {"default_result": rng.choice(ECRES)}
    for k in ("no_instances_result", "empty_prediction_result", "empty_reference_result", "normal"):
        if rng.random() < 0.4:
            s[k] = rng.choice(ECRES)
    return s


def rand_handler(rng, covering=True):
    ms = METRICS[:]
    rng.shuffle(ms)
    if not covering:
        ms = ms[:rng.randint(0, 5)]
    return {"table": [[m, rand_mzh(rng)] for m in ms], "std": rng.choice(ECRES + [None])}


NAMES = ["a", "b", "lung", "Liver", "VERTEBRA", "left-lung", "x_1", "#7", "#12", "1.5", "yes", "null", "~", "a b", "Ab:c",
         "group_10", "group_2", "z", "true", ""]


def rand_labels(rng, pool):
    k = rng.randint(1, min(4, len(pool)))
    ls = rng.sample(pool, k)
    if rng.random() < 0.3:
        ls = ls + [rng.choice(ls)]           # duplicates
    rng.shuffle(ls)
    return ls


def rand_groups(rng, cover=True):
    form = rng.choice(["dict", "dict", "dict", "list"])
    pool = [1, 2, 3, 4, 5, 6, 14, 15, 8, 17, 34, 11, 18, 26, 201, 300, 70000]
    rng.shuffle(pool)
    n = rng.randint(1, 4)
    names = rng.sample(NAMES, n)
    if form == "dict" and rng.random() < 0.08:
        # a user's group called like the library's own key for "no class groups" (alone or next to others)
        names[rng.randrange(n)] = rng.choice(["ungrouped", "Ungrouped"])
        if rng.random() < 0.6:
            n, names = 1, [names[names.index("ungrouped") if "ungrouped" in names else names.index("Ungrouped")]]
    if form == "dict" and n >= 2 and rng.random() < 0.25:
        # two keys that the constructor maps to one group name (case / int vs str): the later entry replaces
        # the earlier one, and the earlier one's labels must be gone from the original as they are from the copy
        i, j = rng.sample(range(n), 2)
        base = names[i]
        if base.startswith("#"):
            names[j] = base[1:]
        elif base.swapcase() != base:
            names[j] = base.swapcase()
        elif base.upper() != base:
            names[j] = base.upper()
    entries = []
    small = [1, 2, 3, 4, 5]
    rng.shuffle(small)
    for i in range(n):
        kind = rng.choice(["plain", "plain", "merge", "tuple" if form == "dict" else "plain"])
        single = rng.random() < 0.25
        if cover and small:
            k = 1 if single else rng.randint(1, max(1, len(small) - (n - i - 1)))
            ls = [small.pop() for _ in range(min(k, len(small)))]
            if not single and rng.random() < 0.5:
                ls += rand_labels(rng, pool[:5])
                rng.shuffle(ls)
        else:
            ls = [rng.choice(pool)] if single else rand_labels(rng, pool)
        if single and len(set(ls)) > 1:
            ls = ls[:1]
        if single and rng.random() < 0.3:
            ls = ls[0]                                   # a bare int
        entries.append([names[i], kind, ls, single])
    return {"form": form, "entries": entries}


def default_spec():
    return {"input": None, "approx": None, "matcher": None, "handler": None, "groups": None, "inst": None,
            "glob": None, "dmetric": None, "dthr": None, "save_group_times": None, "log_times": None, "verbose": None}


def single_variations(rng):
    out = []

    def v(**kw):
        s = default_spec()
        s.update(kw)
        out.append(s)
    for i in INPUTS:
        v(input=i)
    v(input="SEMANTIC", approx={"backend": None}, matcher={"kind": "naive"})
    for b in BACKENDS:
        v(input="SEMANTIC", approx={"backend": b}, matcher={"kind": "naive"})
        v(approx={"backend": b})
    for m in METRICS:
        v(input="UNMATCHED_INSTANCE", matcher={"kind": "naive", "metric": m})
        v(input="UNMATCHED_INSTANCE", matcher={"kind": "merge", "metric": m})
        v(dmetric=m, dthr=0.5)
        v(inst=[m]); v(glob=[m])
    for t in [0.5, 0.9, 0.55, 0.1, 1, 0, 1e-320, 1e22, "inf", 0.30000000000000004, 2.5e-05, 1.5e+16]:
        v(input="UNMATCHED_INSTANCE", matcher={"kind": "naive", "thr": t})
        v(input="UNMATCHED_INSTANCE", matcher={"kind": "merge", "thr": t})
        v(dmetric="IOU", dthr=t)
        v(dthr=t)
    v(input="UNMATCHED_INSTANCE", matcher={"kind": "naive", "thr": 0.3, "m2o": True})
    v(input="UNMATCHED_INSTANCE", matcher={"kind": "naive", "thr": 0.3, "m2o": False})
    v(input="UNMATCHED_INSTANCE", matcher={"kind": "merge", "thr": 0.3})
    v(input="UNMATCHED_INSTANCE", matcher={"kind": "naive", "metric": "ASSD", "thr": 2, "m2o": True})
    for r in ECRES:
        v(handler={"table": None, "std": r})
        v(input="UNMATCHED_INSTANCE", matcher={"kind": "naive"},
          handler={"table": [[m, {"default_result": r}] for m in METRICS], "std": None})
        for z in ("no_instances_result", "empty_prediction_result", "empty_reference_result", "normal"):
            v(input="UNMATCHED_INSTANCE", matcher={"kind": "naive"},
              handler={"table": [[m, {"default_result": "ZERO" if r != "ZERO" else "ONE", z: r}] for m in METRICS], "std": None})
    v(handler={"table": [], "std": None})
    v(handler={"table": [["IOU", {"default_result": "ONE", "normal": "INF"}]], "std": "ZERO"})
    for _ in range(6):
        v(input="UNMATCHED_INSTANCE", matcher={"kind": "naive"}, handler=rand_handler(rng))
    G = lambda form, entries: {"form": form, "entries": entries}  # noqa
    v(groups=G("dict", [["a", "plain", [1, 2, 3], False]]))
    v(groups=G("dict", [["a", "merge", [1, 2, 3], False]]))
    v(groups=G("dict", [["a", "plain", [1], True], ["b", "plain", [2, 3], False]]))
    v(groups=G("dict", [["a", "merge", [2], True], ["b", "merge", [1, 3], False]]))
    v(groups=G("dict", [["Lung", "plain", [3, 1, 2, 2], False]]))
    v(groups=G("dict", [["z", "plain", [1], False], ["a", "plain", [2], False], ["M", "merge", [3], False]]))
    v(groups=G("dict", [["#7", "tuple", [1, 2], False], ["1.5", "tuple", 3, True], ["yes", "plain", [4], False],
                        ["null", "plain", [5], False], ["~", "plain", [6], False], ["", "plain", [7], False]]))
    v(groups=G("list", [["", "plain", [1, 2], False], ["", "merge", [3], False]]))
    v(groups=G("list", [["", "plain", [i + 1], False] for i in range(12)]))
    v(groups=G("dict", [["x", "plain", [6, 15, 14, 8], False], ["y", "merge", [17, 34, 11, 18], False], ["w", "plain", [1, 2, 3], False]]))
    v(input="UNMATCHED_INSTANCE", matcher={"kind": "naive"}, groups=G("dict", [["a", "plain", [1, 2], False], ["b", "merge", [3], False]]))
    v(input="SEMANTIC", approx={"backend": None}, matcher={"kind": "naive"}, groups=G("dict", [["a", "merge", [1, 2, 3], False]]))
    v(inst=[]); v(glob=[]); v(inst=["RVD", "DSC"]); v(inst=["DSC", "DSC"]); v(glob=["IOU", "RVD", "DSC"]); v(inst=METRICS)
    v(glob=METRICS)
    for f in ("save_group_times", "log_times", "verbose"):
        v(**{f: True}); v(**{f: False})
    return out


def random_spec(rng):
    s = default_spec()
    s["input"] = rng.choice(INPUTS + [None])
    eff = s["input"] or "MATCHED_INSTANCE"
    if rng.random() < (0.9 if eff == "SEMANTIC" else 0.3):
        s["approx"] = {"backend": rng.choice(BACKENDS + [None])}
    if rng.random() < (0.9 if eff != "MATCHED_INSTANCE" else 0.3):
        kind = rng.choice(["naive", "naive", "merge"])
        s["matcher"] = {"kind": kind, "metric": rng.choice(METRICS[:2] + METRICS + [None]), "thr": rng.choice([None, rand_thr(rng)])}
        if kind == "naive":
            s["matcher"]["m2o"] = rng.choice([None, True, False])
    if rng.random() < 0.6:
        s["handler"] = rand_handler(rng, covering=rng.random() < 0.85)
    if rng.random() < 0.6:
        s["groups"] = rand_groups(rng, cover=rng.random() < 0.85)
    if rng.random() < 0.6:
        s["inst"] = [rng.choice(METRICS) for _ in range(rng.randint(0, 4))]
    if rng.random() < 0.6:
        s["glob"] = [rng.choice(METRICS) for _ in range(rng.randint(0, 3))]
    if rng.random() < 0.5:
        s["dmetric"] = rng.choice(METRICS)
        s["dthr"] = rand_thr(rng)
    elif rng.random() < 0.3:
        s["dthr"] = rand_thr(rng)
    for f in ("save_group_times", "log_times", "verbose"):
        s[f] = rng.choice([None, True, False])
    return s


def component_cases(rng, n):
    out = []
    for m in METRICS:
        out.append(("Metric", m))
    for x in INPUTS:
        out.append(("InputType", x))
    for x in BACKENDS:
        out.append(("CCABackend", x))
    for x in ECRES:
        out.append(("EdgeCaseResult", x))
    for x in ZEROTP:
        out.append(("EdgeCaseZeroTP", x))
    out.append(("any", None))
    out.append(("groups", None))
    out.append(("approx", {"backend": None}))
    for b in BACKENDS:
        out.append(("approx", {"backend": b}))
    out.append(("handler", {"table": None, "std": None}))
    out.append(("handler", {"table": [], "std": "ONE"}))
    out.append(("lgroup", ["", "plain", [6, 15, 14, 8], False]))
    out.append(("lgroup", ["", "merge", [17, 34, 11, 18], False]))
    out.append(("lgroup", ["", "merge", 4, True]))
    for _ in range(n):
        kind = rng.choice(["naive", "merge"])
        s = {"kind": kind, "metric": rng.choice(METRICS + [None]), "thr": rng.choice([None, rand_thr(rng)])}
        if kind == "naive":
            s["m2o"] = rng.choice([None, True, False])
        out.append(("matcher", s))
        out.append(("mzh", rand_mzh(rng)))
        out.append(("handler", rand_handler(rng, covering=False)))
        g = rand_groups(rng, cover=False)
        out.append(("groups", g))
        e = rng.choice(g["entries"])
        out.append(("lgroup", ["", "merge" if e[1] == "merge" else "plain", e[2], e[3]]))
    return out


# ------------------------------------------------------------------ shipped files
def shipped_cases():
    d = common.REPO / "panoptica" / "configs"
    return sorted(d.glob("*.yaml"))


def check_shipped(p, path, tmp, out):
    head = path.read_text().split("\n", 1)[0].strip()
    clsname = head.lstrip("!").split()[0] if head.startswith("!") else None
    cls = {"Panoptica_Evaluator": p.Panoptica_Evaluator, "SegmentationClassGroups": p.SegmentationClassGroups}.get(clsname)
    if cls is None:
        out.violations.append((f"shipped {path.name}: unknown top-level tag {head}", {}))
        return None
    comp = "evaluator" if cls is p.Panoptica_Evaluator else "groups"
    try:
        with quiet():
            o1 = cls.load_from_config(path)
            o1b = cls.load_from_config_name(path.stem)
    except Exception as e:  # noqa
        out.violations.append((f"shipped {path.name} does not load: {type(e).__name__}: {str(e)[:200]}", {}))
        return None
    if first_diff(snap(o1), snap(o1b)):
        out.violations.append((f"shipped {path.name}: load_from_config and load_from_config_name differ", {}))
    cy = cycle(o1, cls, tmp)
    if "error" in cy:
        out.violations.append((f"shipped {path.name}: {cy['error']}", {}))
        return None
    if cy["text1"] != cy["text2"]:
        out.violations.append((f"shipped {path.name}: re-saving is not stable", {"first": cy["text1"], "second": cy["text2"]}))
    d = first_diff(snap(o1), snap(cy["loaded"]))
    if d:
        out.violations.append((f"shipped {path.name}: settings change on re-save/load: {d}", {}))
    if comp == "evaluator":
        for name, (pr, rf) in list(probes().items())[:3]:
            r1, r2 = evaluate(o1, pr, rf), evaluate(cy["loaded"], pr, rf)
            if r1 != r2:
                out.violations.append((f"shipped {path.name}: probe {name} differs after re-save/load", {"before": r1, "after": r2}))
    sxv = norm_sx(s_config(o1) if comp == "evaluator" else s_component(comp, o1))
    tree = norm_sx(yaml_tree(path))                      # the hand-written file itself (null groups, omitted keys)
    return comp, sxv, tree


# ------------------------------------------------------------------ driver
def by_name_layer(ctx, p, rng):
    """the by-name save/load API with ONE name reused for a sequence of different configurations (the lookup helpers are pointed
    at a scratch directory, nothing is written into the package): every load must return what was saved last"""
    import panoptica.utils.config as C
    saved = {n: getattr(C, n) for n in ("config_by_name", "config_dir_by_name") if hasattr(C, n)}
    if len(saved) != 2:
        ctx.disagree("by-name API", {"detail": "panoptica.utils.config no longer uses config_by_name / config_dir_by_name"})
        return
    with tempfile.TemporaryDirectory(prefix="c19n_") as tmp:
        orig_dir = saved["config_dir_by_name"]

        def dir_by_name(name):
            # the package's own file-name logic, only the directory is redirected to the scratch directory
            return Path(tmp), orig_dir(name)[1]

        def by_name(name):
            d, n = dir_by_name(name)
            found = sorted(d.glob(f"**/{n}"))
            assert len(found) == 1, f"did not find exactly one config {n}"
            return found[0]
        C.config_dir_by_name, C.config_by_name = dir_by_name, by_name
        try:
            # several configurations saved under different names first (names with dots, dashes, version-like suffixes), loaded afterwards
            for seq in range(ctx.scale(4, 30)):
                names = rng.sample(["sweep_iou_0.25", "sweep_iou_0.5", "sweep_iou_0.75", "release-1.0", "release-1.1", "plain", "v2.final",
                                    "a.b.c", "model.v1", "model.v2"], 4)
                saved_evs = []
                for nm in names:
                    spec = random_spec(rng)
                    try:
                        with quiet():
                            ev = build_evaluator(p, spec)
                            ev.save_to_config_by_name(f"{nm}_{seq}" if "." not in nm else f"s{seq}_{nm}")
                    except Exception:  # noqa
                        continue
                    saved_evs.append((f"{nm}_{seq}" if "." not in nm else f"s{seq}_{nm}", spec, ev))
                for nm, spec, ev in saved_evs:
                    ctx.count({"by_name_sweep": nm, "spec": spec}, True)
                    ctx.bump("by-name, several names saved then loaded")
                    try:
                        with quiet():
                            back = p.Panoptica_Evaluator.load_from_config_name(nm)
                    except Exception as e:  # noqa
                        ctx.violation(f"load_from_config_name({nm!r}) raised {type(e).__name__}: {str(e)[:160]}",
                                      {"kind": "by-name-sweep", "names": [n for n, _, _ in saved_evs], "specs": [sp for _, sp, _ in saved_evs], "failing": nm})
                        break
                    d = first_diff(snap(ev), snap(back))
                    if d:
                        ctx.violation(f"load_from_config_name({nm!r}) returned other settings than were saved under that name: {d}",
                                      {"kind": "by-name-sweep", "names": [n for n, _, _ in saved_evs], "specs": [sp for _, sp, _ in saved_evs], "failing": nm})
                        break
            for seq in range(ctx.scale(6, 40)):
                name = f"reused_{seq}"
                specs = [random_spec(rng) for _ in range(3)]
                hist = []
                for spec in specs:
                    try:
                        with quiet():
                            ev = build_evaluator(p, spec)
                    except Exception:  # noqa
                        continue
                    try:
                        with quiet():
                            ev.save_to_config_by_name(name)
                            back = p.Panoptica_Evaluator.load_from_config_name(name)
                    except Exception as e:  # noqa
                        ctx.violation(f"by-name save/load raised {type(e).__name__}: {str(e)[:160]}",
                                      {"kind": "by-name", "specs": hist + [spec]})
                        break
                    hist.append(spec)
                    ctx.count({"by_name": name, "n": len(hist), "spec": spec}, len(hist) >= 2)
                    ctx.bump("by-name, name reused")
                    d = first_diff(snap(ev), snap(back))
                    if d:
                        ctx.violation(f"load_from_config_name returned other settings than the configuration saved last under that name "
                                      f"(after {len(hist)} saves): {d}", {"kind": "by-name", "specs": list(hist)})
                        break
        finally:
            for n, f in saved.items():
                setattr(C, n, f)


def replay_by_name(d):
    common.serial_pool()
    p = P()
    import panoptica.utils.config as C
    saved = {n: getattr(C, n) for n in ("config_by_name", "config_dir_by_name")}
    rc = 0
    with tempfile.TemporaryDirectory(prefix="c19n_") as tmp:
        orig_dir = saved["config_dir_by_name"]
        C.config_dir_by_name = lambda name: (Path(tmp), orig_dir(name)[1])
        C.config_by_name = lambda name: Path(tmp) / orig_dir(name)[1]
        try:
            if d.get("kind") == "by-name-sweep":
                evs = []
                for nm, spec in zip(d["names"], d["specs"]):
                    with quiet():
                        ev = build_evaluator(p, spec)
                        ev.save_to_config_by_name(nm)
                    evs.append((nm, ev))
                for nm, ev in evs:
                    with quiet():
                        back = p.Panoptica_Evaluator.load_from_config_name(nm)
                    diff = first_diff(snap(ev), snap(back))
                    print(f"saved under {nm!r}, loaded by that name:", "identical settings" if not diff else "DIFFERS: " + str(diff))
                    rc |= bool(diff)
                return rc
            for i, spec in enumerate(d["specs"]):
                with quiet():
                    ev = build_evaluator(p, spec)
                    ev.save_to_config_by_name("reused")
                    back = p.Panoptica_Evaluator.load_from_config_name("reused")
                diff = first_diff(snap(ev), snap(back))
                print(f"save #{i + 1} under the same name, then load:", "identical settings" if not diff else "DIFFERS: " + str(diff))
                rc |= bool(diff)
        finally:
            for n, f in saved.items():
                setattr(C, n, f)
    return rc


def dead_attribute_check(ctx):
    """_default_result must stay unread outside __init__ (it is excluded from the attribute comparison)"""
    hits = []
    for f in (common.REPO / "panoptica").rglob("*.py"):
        for i, line in enumerate(f.read_text().splitlines(), 1):
            if "_default_result" in line and "self._default_result = default_result" not in line:
                hits.append(f"{f.relative_to(common.REPO)}:{i}")
    ctx.notes["_default_result_readers"] = hits
    if hits:
        ctx.disagree("_default_result is read somewhere; it is not saved", hits)


def spec_bucket(s):
    g = s.get("groups")
    return "/".join([s.get("input") or "default-input",
                     (s["matcher"]["kind"] if s.get("matcher") else "no-matcher"),
                     ("groups-" + g["form"] if g else "no-groups"),
                     ("handler" if s.get("handler") else "default-handler")])


def run(ctx):
    common.serial_pool()
    p = P()
    rng = ctx.rng
    dead_attribute_check(ctx)
    items = []          # (label, comp, spec)
    cdir = common.VERIF / "corpus" / "C19"
    if cdir.exists():
        for f in sorted(cdir.glob("*.json")):
            d = json.loads(f.read_text())
            items.append(("corpus:" + f.name, d["component"], d["spec"]))
    ncorpus = len(items)
    singles = single_variations(rng)
    for s in singles:
        items.append(("single", "evaluator", s))
    for _ in range(ctx.scale(150, 2500)):
        items.append(("random", "evaluator", random_spec(rng)))
    for comp, s in component_cases(rng, ctx.scale(25, 300)):
        items.append(("component", comp, s))
    ctx.layers.append({"layer": "each field varied singly", "cases": len(singles), "exhaustive": True})
    ctx.layers.append({"layer": "corpus", "cases": ncorpus})

    reqs, owners = [], []
    triples_src = []
    sigs, probes_ok, probes_run = {}, 0, 0
    with tempfile.TemporaryDirectory(prefix="c19_") as tmp:
        for label, comp, spec in items:
            out = Outcome()
            out.not_constructible = None
            check_object(p, comp, spec, tmp, out, with_probes=True)
            if out.not_constructible:
                ctx.bump("not-constructible")
                ctx.count({"component": comp, "spec": spec, "not_constructible": out.not_constructible}, False)
                continue
            nontrivial = (comp != "evaluator" and spec is not None) or \
                         (comp == "evaluator" and spec != default_spec() and out.evaluated > 0)
            ctx.count({"component": comp, "spec": spec}, nontrivial)
            ctx.bump(spec_bucket(spec) if comp == "evaluator" else "component/" + comp)
            probes_ok += out.evaluated
            probes_run += len(out.signatures)
            for name, sg in out.signatures:
                sigs.setdefault(name, set()).add(sg)
            for what, det in out.violations:
                ctx.violation(what, {"kind": "object", "component": comp, "spec": spec, "label": label, **det})
            for unit, det in out.disagreements:
                ctx.disagree(unit, {"component": comp, "spec": spec, "detail": det})
            if out.model_in is not None:
                sxv, tree = out.model_in
                a, b = model_ops(comp, sxv, tree)
                reqs.append((a, b))
                owners.append((comp, spec, sxv, tree))
        # shipped files
        ships = shipped_cases()
        ctx.notes["shipped_files"] = [s.name for s in ships]
        if len(ships) < 5:
            ctx.violation("fewer than five shipped configuration files found", {"kind": "shipped", "found": [s.name for s in ships]})
        for path in ships:
            out = Outcome()
            r = check_shipped(p, path, tmp, out)
            ctx.count({"shipped": path.name}, True)
            ctx.bump("shipped")
            for what, det in out.violations:
                ctx.violation(what, {"kind": "shipped", "file": path.name, **det})
            if r is not None:
                comp, sxv, tree = r
                _, b = model_ops(comp, sxv, tree)
                reqs.append((None, b))
                owners.append((comp, {"shipped": path.name}, sxv, tree))

    by_name_layer(ctx, p, rng)
    group_ctor_layer(ctx, p, rng, triples_src)
    ctx.layers.append({"layer": "class-group constructor on user dictionaries (keys folding to one name) against Model/GroupCtor.v", "exhaustive": False})
    ctx.layers.append({"layer": "by-name save/load, one name reused for three configurations", "exhaustive": False})
    # model: batch per op
    by_op = {}
    for i, (a, b) in enumerate(reqs):
        for j, r in enumerate((a, b)):
            if r is not None:
                by_op.setdefault(r[0], []).append((i, j, r[1]))
    answers = {}
    for op, lst in by_op.items():
        outs = engine_run(op, [x for _, _, x in lst])
        for (i, j, x), o in zip(lst, outs):
            answers[(i, j)] = o
            triples_src.append((op, x, o))
    for i, (comp, spec, sxv, tree) in enumerate(owners):
        out = Outcome()
        if (i, 0) in answers:
            judge_model(comp, sxv, tree, answers[(i, 0)], answers[(i, 1)], out)
        else:   # shipped: only the decode of the hand-written file
            if answers[(i, 1)] != [0, sxv]:
                out.disagreements.append((f"shipped {spec['shipped']}: model decode of the file != loaded object: "
                                          f"{first_diff([0, sxv], answers[(i, 1)])}", None))
        for unit, det in out.disagreements:
            ctx.disagree(unit, {"component": comp, "spec": spec, "detail": det})
    step = max(1, len(triples_src) // 60)
    triples = triples_src[::step][:70]
    n, bad = coq_crosscheck("C19", triples, timeout=600)
    ctx.crosschecked = n
    for b in bad:
        ctx.disagree("extraction-vs-vm_compute", triples[b])
    ctx.notes["model_requests"] = len(triples_src)
    ctx.notes["probe_evaluations"] = {"run_before_and_after": probes_run, "returned_a_result": probes_ok,
                                      "distinct_outcomes_per_probe": {k: len(v) for k, v in sigs.items()}}


def group_ctor_layer(ctx, p, rng, triples_src):
    """SegmentationClassGroups(dict) against Model/GroupCtor.v (engine op 1905): the dictionary kept (names, order, groups), the labels
    the object answers for, and the dictionary of the object rebuilt from it -- on user dictionaries whose keys fold to one name."""
    import io, contextlib
    pool = ["a", "A", "lesion", "Lesion", "LESION", "b", "B", 7, "7", 12, "12", "x_1", "X_1", "group_0", "Group_0", "z", ""]
    cases, reqs = [], []
    for _ in range(ctx.scale(80, 800)):
        n = rng.randint(1, 5)
        keys = []
        while len(keys) < n:
            k = rng.choice(pool)
            if all(not (k == q and type(k) is type(q)) for q in keys):
                keys.append(k)
        small = list(range(1, 12))
        rng.shuffle(small)
        d, spec, entries = {}, [], []
        for k in keys:
            single = rng.random() < 0.25
            ls = [small.pop()] if single or len(small) < 3 else [small.pop() for _ in range(rng.randint(1, 2))]
            if rng.random() < 0.15:
                ls = ls + [rng.choice([1, 2, 3])]                 # the same label in two groups only prints a warning
                single = False
            kind = rng.choice(["plain", "plain", "merge", "tuple"])
            e = [k, kind, ls, single]
            try:
                g = p.LabelGroup(ls, single) if kind == "tuple" else build_lgroup(p, e)
            except Exception:
                continue
            d[k] = (ls, single) if kind == "tuple" else g
            spec.append([k if isinstance(k, str) else {"int": k}, kind, ls, single])
            entries.append([s_str(str(k))] + s_lgroup(g))
        if not d:
            continue
        with contextlib.redirect_stdout(io.StringIO()):
            try:
                obj = p.SegmentationClassGroups(d)
                gd = vars(obj)["_SegmentationClassGroups__group_dictionary"]
                again = p.SegmentationClassGroups(dict(gd))
                gd2 = vars(again)["_SegmentationClassGroups__group_dictionary"]
                got = [[[[s_str(k)] + s_lgroup(v) for k, v in gd.items()]], [int(x) for x in obj.labels],
                       [[[s_str(k)] + s_lgroup(v) for k, v in gd2.items()]]]
                probe = {"labels_original": [int(x) for x in obj.labels], "labels_rebuilt": [int(x) for x in again.labels],
                         "keys_original": list(gd), "keys_rebuilt": list(gd2)}
            except Exception as ex:
                got, probe = ["raised", type(ex).__name__], None
        folded = len({str(k).lower() for k in d}) < len(d)
        ctx.count({"group_ctor": spec}, folded)
        ctx.bump("class-group constructor / " + ("keys folding to one name" if folded else "distinct names"))
        if probe and (probe["labels_original"] != probe["labels_rebuilt"] or probe["keys_original"] != probe["keys_rebuilt"]):
            ctx.violation(f"class groups rebuilt from their own dictionary differ: names {probe['keys_original']} -> {probe['keys_rebuilt']}, "
                          f"labels answered for {probe['labels_original']} -> {probe['labels_rebuilt']}", {"kind": "group-ctor", "spec": spec, **probe})
        cases.append((spec, got))
        reqs.append(entries)
    outs = engine_run(1905, reqs) if reqs else []
    for (spec, got), x, o in zip(cases, reqs, outs):
        triples_src.append((1905, x, o))
        if norm_sx(got) != norm_sx(o):
            ctx.disagree("GroupCtor.ctor_dict", {"component": "group-ctor", "spec": spec, "detail": first_diff(norm_sx(got), norm_sx(o))})


def replay_group_ctor(p, d):
    import io, contextlib
    user = {}
    for k, kind, ls, single in d["spec"]:
        key = k["int"] if isinstance(k, dict) else k
        user[key] = (ls, single) if kind == "tuple" else build_lgroup(p, [key, kind, ls, single])
    with contextlib.redirect_stdout(io.StringIO()):
        obj = p.SegmentationClassGroups(user)
        again = p.SegmentationClassGroups(dict(vars(obj)["_SegmentationClassGroups__group_dictionary"]))
    print("user dictionary:", d["spec"])
    print("constructed: names", obj.keys(), "labels answered for", [int(x) for x in obj.labels])
    print("rebuilt from its own dictionary: names", again.keys(), "labels answered for", [int(x) for x in again.labels])
    bad = obj.keys() != again.keys() or list(obj.labels) != list(again.labels)
    if bad:
        print("VIOLATION: class groups rebuilt from their own dictionary differ")
    return 1 if bad else 0


def replay(path):
    common.serial_pool()
    p = P()
    d = json.loads(open(path).read())
    rc = 0
    with tempfile.TemporaryDirectory(prefix="c19r_") as tmp:
        if d.get("kind") in ("by-name", "by-name-sweep"):
            return replay_by_name(d)
        if d.get("kind") == "group-ctor":
            return replay_group_ctor(p, d)
        if d.get("kind") == "shipped":
            out = Outcome()
            f = common.REPO / "panoptica" / "configs" / d["file"]
            r = check_shipped(p, f, tmp, out)
            print("shipped file:", f)
        else:
            comp, spec = d["component"], d["spec"]
            print("component:", comp)
            print("constructor arguments:", json.dumps(spec))
            out = Outcome()
            out.not_constructible = None
            check_object(p, comp, spec, tmp, out)
            if out.not_constructible:
                print("not constructible:", out.not_constructible)
                return 0
            a = Path(tmp) / "a.yaml"
            b = Path(tmp) / "b.yaml"
            print("--- implementation: first save\n" + (a.read_text() if a.exists() else "(none)"))
            print("--- implementation: save of the loaded object\n" + (b.read_text() if b.exists() else "(none)"))
            r = None
            if out.model_in is not None:
                sxv, tree = out.model_in
                r = (comp, sxv, tree)
        if r is not None:
            comp, sxv, tree = r
            a, b = model_ops(comp, sxv, tree)
            eo = engine_run(a[0], [a[1]])[0]
            do = engine_run(b[0], [b[1]])[0]
            print("--- model: configuration (object state)      ", sxv)
            print("--- model: decode(encode c)                   ", eo[1])
            print("--- model: decode(tree of the real file)      ", do)
            print("--- model: encode c == tree of the real file: ", eo[0] == tree)
            if d.get("kind") != "shipped":
                judge_model(comp, sxv, tree, eo, do, out)
            elif do != [0, sxv]:
                out.disagreements.append(("shipped: model decode differs", None))
        for what, det in out.violations:
            print("VIOLATION:", what)
            rc = 1
        for unit, det in out.disagreements:
            print("MODEL/IMPLEMENTATION DIFFER:", unit)
            rc = 1
    print("agree: save/load/save stable, settings and probe results identical, model = file" if rc == 0 else "DIFFER")
    return rc


LEVEL_TEXT = ("Theorems in Props/C19.v (Coq 8.16.1, closed under the global context): for ANY class tables satisfying the "
              "checkable condition tables_ok (emitted keys = accepted constructor parameters, each key reads the attribute "
              "its parameter writes, every setting emitted, tags distinguish classes, enums by name) and EVERY configuration "
              "the constructors can produce, decode(encode c) = c and re-encoding gives the same tree; the same for each "
              "component; whatever loads is well formed and load-save-load is the identity on it; the zero-TP handler's "
              "default filling reproduces its four-entry table; key order is irrelevant; defective tables are rejected. "
              "The tables are re-extracted from the Python AST on every run and shown equal to the model's and tables_ok by "
              "vm_compute; the model is tied to the code by correspondence on the real save/load (byte-identical files, "
              "recursive attribute comparison, probe evaluations, file tree = model encode).")
LEVEL_NOTE = ("Trusted: Coq kernel; the AST translator (harness/translate/units_config.py); extraction + driver "
              "(cross-checked by vm_compute); ruamel.yaml's text layer and Python float repr/parse (modelled as identity on "
              "trees, validated by correspondence only); the hand-written model of the constructors' asserts and of the "
              "name/label normalisation. 'Identical results on every input' is shown as identical settings (proof) plus "
              "probe evaluations (correspondence); that evaluation is a function of the settings is property C15.")
TECHNIQUE = "machine-checked proof in Rocq (Coq) + AST re-translation of the key tables (GenEq) + save/load correspondence with probe evaluations"
