"""C17 -- aggregation survives crashes, restarts and neighbouring aggregators.

Proof (Props/C17.v over Model/Aggregator.v): constructor steps, Crash in EVERY state (also inside the constructor and
between creating a file and writing its header), normal exit (atexit), sessions with any setup, any stale buffer file,
the four initial file states, several aggregators sharing the locks.  Theorems: the file invariant is preserved by every
step / crash / restart; existing lines are never altered; after any history an uninterrupted session that submits all
subjects ends with exactly the subjects (finished skipped, unfinished re-evaluated, header once) and does complete;
a different setup is rejected without touching the files; non-interference of sibling aggregators.
T1: Gen/AggOps (constructor / atexit instruction structure, buffer-name constant, output-path operands) = model.
T2: harness/agg_sched.py with crash injection at every scheduling point (threads of a killed session unwind without
any further file operation), restarts on the same file, up to 3 sessions, 4 initial file states, stale buffer files,
two aggregators in one directory; model comparison after every event; proved oracles on the observed files."""
import json

from harness import common, agg_sched as A

TARGETS = ["theories/Props/C17.vo", "theories/Proofs/GenEq_AggOps.vo"]
GENEQ = {"theories/Proofs/GenEq_AggOps.vo": "AggOps"}
# T1 units added after round 4 of the seeded changes
TARGETS = TARGETS + ["theories/Proofs/GenEq_AggIO.vo"]
GENEQ = dict(GENEQ, **{"theories/Proofs/GenEq_AggIO.vo": "AggIO"})
ALLOWED_AXIOMS = []
OP = 1700
RULE = ("case = (initial output file in {absent, empty, header only, header+rows}, stale buffer file in {none, foreign name, a subject "
        "to be submitted}, sessions = constructor steps + call steps at the finest granularity, a crash at a scheduling point, then a new "
        "aggregator on the same file that resubmits ALL subjects and runs to completion); crash points are enumerated exhaustively for one "
        "call (every prefix of the session, also inside the constructor, x 4 initial states x 3 buffer states), for two crashes in a row "
        "(3 sessions) and sampled for two concurrent calls; normal exits (atexit), setups with a different header, an output path without "
        "extension, and two aggregators in one directory with interleaved steps and a common crash; non-trivial = a crash or exit "
        "happened after at least one file operation of the session; plus sequential histories over several LIVE sessions of one file "
        "(new session / submission / interrupted submission through any session): every history of 4 steps (thorough: 5) over two "
        "subjects and random longer ones, the files after every operation compared with Model/AggHistory.v, final outcome = one row "
        "per subject")
ASSUMPTIONS = [
    "one buffered append of a short row / header is atomic (a crash never leaves a partial line); real kill -9 timing and partial OS writes are outside the model",
    "a crash kills the whole process tree of a session: all calls vanish and both locks are free afterwards (the harness abandons the threads; they unwind without any further file operation)",
    "the restarted aggregator uses the default continue_file=True; continue_file=False on a file with rows appends duplicates (after which the default constructor raises 'file has duplicate entries!') and is outside the property (observation)",
    "aggregators on different output files have different files: buffer name = 'panoptica_aggregator_tmp_' + output name (constant tied by T1, injectivity proved); an output file that is itself NAMED like a sibling's buffer file (x.tsv next to panoptica_aggregator_tmp_x.tsv) is emptied by the sibling's constructor -- excluded by the hypothesis of C17_files_disjoint (observation, not counted as a violation)",
    "multiprocessing.Lock semantics, os.remove, atexit are modelled, validated by correspondence only",
]
TRUSTED = ["harness/agg_sched.py: controlled scheduler and crash injection (no repository hook)",
           "python threading, csv, os, atexit (modelled, validated by this correspondence only)"]
LEVEL_TEXT = ("Theorems in Props/C17.v (Coq 8.16.1, closed under the global context) are proved by induction over histories of a transition "
              "system with constructor steps, call steps, Crash in every state, normal exit and restarts, for every number of calls, sessions "
              "and crash points and every initial/stale file content satisfying the stated invariant. Tied to the code by AST re-extraction "
              "(GenEq_AggOps) and by lock-step trace validation of the real code with crash injection at every scheduling point. "
              "C17_live_sessions_history / C17_live_sessions_invariant: for every sequential history over any number of live sessions of "
              "one file (older aggregator objects stay in use), the rows stay distinct and unaltered and a final resubmission yields "
              "exactly one row per subject (Model/AggHistory.v, compared step by step with the real aggregator).")
LEVEL_NOTE = ("Trusted: Coq kernel; AST translator; extraction + driver (cross-checked by vm_compute); scheduler harness. Assumed: atomic short "
              "append, whole-process crash, lock semantics. Partial: real kill timing / partial OS writes.")
TECHNIQUE = "machine-checked proof in Rocq (Coq) of a transition system with crashes + AST re-translation (GenEq) + trace validation with crash injection"

INP = {"s1": 3, "s2": 4, "subject_name": 6, "s0": 1, "s9": 2, "n8": 5, 'q"1': 4, "t\tb": 5, " w1": 3, "w2\n": 4, "w3 ": 5}     # the last two: names the tsv writer quotes
INITS = [("absent", None), ("empty", None), ("header", None), ("rows", [["s0", 1]]), ("rows", [["s0", 1], ["s9", 2]])]
STALE = [None, ["zz"], ["s1"]]
NCTOR = 10


def ev(n):
    return ["e", n, INP[n]]


def session_events(k, sched, nctor=NCTOR):
    return [[1, k]] * nctor + [[0, k, i] for i in sched]


def crash_cases(calls, sched, init, rows, stale, points=None, h=7):
    """one session, crash at every scheduling point, restart resubmitting everything"""
    base = session_events(0, sched)
    allcalls = calls + ([ev(r[0]) for r in (rows or [])][:1])       # also resubmit an already finished subject
    out = []
    for p in (points if points is not None else range(len(base) + 1)):
        out.append({"comps": [{"file": "a.tsv", "init": init, "init_rows": rows or [], "stale_buf": stale, "h": h, "calls": calls}],
                    "events": base[:p] + [[2, 0, h, allcalls]], "complete": True, "crash_at": [p]})
    return out


def three_sessions(calls, sched, init, rows, stale, p1, p2):
    base = session_events(0, sched)
    allcalls = calls + ([ev(r[0]) for r in (rows or [])][:1])
    base2 = session_events(0, list(range(len(allcalls))) * 9)
    return {"comps": [{"file": "a.tsv", "init": init, "init_rows": rows or [], "stale_buf": stale, "h": 7, "calls": calls}],
            "events": base[:p1] + [[2, 0, 7, allcalls]] + base2[:p2] + [[2, 0, 7, allcalls]], "complete": True, "crash_at": [p1, p2]}


def run(ctx):
    rng = ctx.rng
    full = ctx.tier == "thorough"
    triples = []
    cdir = common.VERIF / "corpus" / "C17"
    corpus = [json.loads(f.read_text()) for f in sorted(cdir.glob("*.json"))] if cdir.exists() else []
    cs = [d["scenario"] for d in corpus]
    if cs:
        A.record(ctx, cs, A.parallel_check(cs, nproc=1, op_base=OP), "corpus", False, triples, "C17")

    def go(scens, label, exhaustive, real=False):
        if not scens:
            return
        A.record(ctx, scens, A.parallel_check(scens, real=real, op_base=OP), label, real, triples, "C17")
        ctx.layers.append({"layer": label, "cases": len(scens), "exhaustive": exhaustive})

    # ---- one call: every crash point x initial state x stale buffer
    scens = []
    for init, rows in INITS:
        for stale in STALE:
            for name in ("s1", "subject_name", 'q"1', "t\tb", " w1", "w2\n", "w3 "):     # the last three: surrounding whitespace (names read from list files)
                if name != "s1" and (stale is not None or not full and init in ("empty", "header")):
                    continue
                scens += crash_cases([ev(name)], [0] * 9, init, rows, stale)
    # the same with ONE evaluator object shared by all sessions and the timing column switched on (setup 9): a restart with the
    # same arguments must be accepted and complete the file
    for init, rows in INITS[:3]:
        scens += crash_cases([ev("s1")], [0] * 9, init, rows, None, h=9)
    go(scens, "1 call: crash at every scheduling point (constructor and call) x 4 initial states x 3 stale-buffer states, restart", True)
    # ---- one call + statistics reader / two calls: sampled interleavings, every crash point
    scens = []
    inter2 = list(A.interleavings([9, 9]))
    for sched in rng.sample(inter2, ctx.scale(6, 700)):
        init, rows = rng.choice(INITS)
        calls = rng.choice([[ev("s1"), ev("s2")], [ev("s1"), ev("s1")], [ev("s1"), ev("s0")], [ev('q"1'), ev('q"1')], [ev("t\tb"), ev("s1")], [ev(" w1"), ev("w2\n")], [ev("w3 "), ev("w3 ")]])
        scens += crash_cases(calls, sched, init, rows, rng.choice(STALE))
    for sched in rng.sample(list(A.interleavings([9, 3])), ctx.scale(4, 220)):
        init, rows = rng.choice(INITS)
        scens += crash_cases([ev("s1"), ["s"]], sched, init, rows, rng.choice(STALE))
    go(scens, "2 concurrent calls (distinct / colliding / already recorded / with make_statistic): crash at every scheduling point of sampled interleavings, restart", False)
    # ---- three sessions: two crashes in a row
    scens = []
    n1 = NCTOR + 9
    pairs = [(p1, p2) for p1 in range(n1 + 1) for p2 in range(NCTOR + 12)]
    for init, rows in INITS:
        for stale in (STALE if full else [None, ["s1"]]):
            pp = pairs if full else rng.sample(pairs, ctx.scale(40, 0))
            scens += [three_sessions([ev("s1")], [0] * 9, init, rows, stale, p1, p2) for p1, p2 in pp]
    go(scens, "3 sessions: crash, restart, crash again (also inside the second constructor), restart", full)
    # ---- normal exit (atexit), different setup, resumed afterwards
    scens = []
    for init, rows in INITS:
        for stale in STALE:
            calls = [ev("s1"), ev("s2")]
            sched = rng.choice(inter2)
            again = calls + [ev("subject_name")]
            scens.append({"comps": [{"file": "a.tsv", "init": init, "init_rows": rows or [], "stale_buf": stale, "h": 7, "calls": calls}],
                          "events": session_events(0, sched) + [[0, 0, 0]] * 9 + [[0, 0, 1]] * 9 + [[3, 0, 7, again]]
                                    + session_events(0, [0] * 9 + [1] * 9 + [2] * 9) + [[3, 0, 8, again + [ev("n8")]]]
                                    + session_events(0, [3] * 9 + [0, 1, 2] * 5)
                                    + [[2, 0, 7, again]], "complete": True})
    go(scens, "normal exit (atexit removes the buffer) -> resumed session -> session with a different setup (rejected, files untouched) -> resumed", True)
    # ---- output path without extension (D17)
    scens = []
    for init, rows in [("absent", None)] + ([("rows", [["s0", 1]])] if full else []):
        for p in ([3, 8, 14] if not full else range(0, NCTOR + 10, 2)):
            sc = crash_cases([ev("s1")], [0] * 9, init, rows, None, [p])[0]
            sc["comps"][0]["file"] = "results"
            scens.append(sc)
    go(scens, "output path given without extension: header and rows in <path>.tsv (D17)", False)
    # ---- two aggregators in one directory
    scens = []
    for _ in range(ctx.scale(120, 12000)):
        comps, sess = [], []
        # sibling output names, including dotted names that share a prefix / differ only after a dot
        names2 = rng.choice([["a.tsv", "b.tsv"], ["run.fold0.tsv", "run.fold1.tsv"], ["exp.tsv", "exp.v1.tsv"], ["x_1.tsv", "x_2.tsv"],
                             ["res.a.b.tsv", "res.a.c.tsv"], ["a.tsv", "b.tsv"]])
        for k, f in enumerate(names2):
            init, rows = rng.choice(INITS)
            calls = rng.choice([[ev("s1")], [ev("s1"), ev("s2")], [ev("s1"), ev("s1")], [ev("s2"), ["s"]]])
            comps.append({"file": f, "init": init, "init_rows": rows or [], "stale_buf": rng.choice(STALE), "h": 7, "calls": calls})
            sess.append([7, calls + [ev("s2")]])
        pool = []
        for k in range(2):
            pool += [[1, k]] * NCTOR + [[0, k, i] for i in range(len(comps[k]["calls"])) for _ in range(9)]
        # random merge keeping per-thread order: bursty shuffle
        byk = {}
        for e in pool:
            byk.setdefault(tuple(e[:2]) if e[0] == 1 else (0, e[1]), []).append(e)
        seqs = list(byk.values())
        for q in seqs:
            if q[0][0] == 0:
                rng.shuffle(q)
        # constructor events of a component must precede its call events to be effective; merge randomly
        order = []
        heads = {0: [byk.get((1, 0), []), byk.get((0, 0), [])], 1: [byk.get((1, 1), []), byk.get((0, 1), [])]}
        streams = [heads[0][0] + heads[0][1], heads[1][0] + heads[1][1]]
        idx = [0, 0]
        while idx[0] < len(streams[0]) or idx[1] < len(streams[1]):
            k = rng.randrange(2)
            if idx[k] >= len(streams[k]):
                k = 1 - k
            burst = rng.choice([1, 1, 2, 3, 6])
            order += streams[k][idx[k]: idx[k] + burst]
            idx[k] += burst
        cut = rng.randint(0, len(order))
        mode = rng.random()
        if mode < 0.5:
            events = order[:cut] + [[4, sess]]                  # the common process is killed
        elif mode < 0.8:
            k = rng.randrange(2)
            events = order[:cut] + [[2, k, 7, sess[k][1]]] + order[cut:]   # only one aggregator's session is killed
        else:
            events = order
        scens.append({"comps": comps, "events": events, "complete": True})
    go(scens, "two aggregators in one directory (a.tsv, b.tsv, same subject names), interleaved steps, common or single crash, restart", False)
    # ---- a few runs with the real evaluator
    scens = []
    for _ in range(ctx.scale(12, 300)):
        init, rows = rng.choice(INITS)
        sc = rng.choice(crash_cases([ev("s1"), ev("s2")], rng.choice(inter2), init, rows, rng.choice(STALE)))
        scens.append(sc)
    go(scens, "real Panoptica_Evaluator on 2x2 arrays, crash + restart", False, real=True)

    htriples = session_histories(ctx)
    triples = triples[:50] + htriples[:10]
    n, bad = common.coq_crosscheck("C17", triples[:60])
    ctx.crosschecked = n
    for b in bad:
        ctx.disagree("extraction-vs-vm_compute", triples[b])
    ctx.exhaustive = True
    ctx.notes["observations"] = ("continue_file=False appends duplicate rows to an existing file (outside the property: continuing is the default); "
                                 "an output file named like a sibling's buffer file is emptied by the sibling's constructor (excluded by hypothesis); "
                                 "D10/D11/D13/D17 are fixed in /repo and their witnesses are part of the enumerated layers and corpus/C17")
    ctx.notes["crash_model"] = "threads of a killed session unwind with a BaseException at their current scheduling point; no file operation follows; locks are reset"
    # ---- sessions in separate interpreter processes (different hash seeds), evaluator with four class groups, kill + restart
    n_rs = ctx.scale(2, 8)
    for i in range(n_rs):
        lines, sq, rep = A.restart_smoke(rng, default_metrics=(i % 2 == 0), c_locale=(i % 2 == 1))
        ctx.count({"restart_smoke": rep.get("killed_after"), "seeds": rep.get("hash_seeds")}, True)
        ctx.bump("restart in a fresh interpreter process (final file only)")
        probs = A.restart_smoke_problems(lines, sq, rep)
        if probs:
            ctx.violation("kill and restart in a new process: " + "; ".join(probs[:3]),
                          {"restart_smoke": True, "report": rep, "file": lines, "uninterrupted": sq})
            break
    ctx.layers.append({"layer": "kill + restart across interpreter processes with different hash seeds (4 class groups), final file = uninterrupted run",
                       "runs": n_rs, "exhaustive": False})


def session_histories(ctx) -> list:
    """sequential histories in which older sessions of the same output file stay in use next to newer ones (real aggregator code,
    stub evaluator; no model: the oracle is the property's outcome)"""
    import itertools
    rng = ctx.rng
    # every history of L steps over two equally long subject names and the sessions 0 / 1 (a session index is valid once created)
    L = 5 if ctx.tier == "thorough" else 4
    steps = [["new"]] + [[k, i, n] for k in ("ok", "die") for i in (0, 1) for n in ("s1", "s2")]
    # two more kinds of steps: a constructor with another setup (must be refused, touching nothing) and an evaluation that raises
    # an ordinary exception while another submission completes inside its window
    steps += [["refused"]] + [["fail", i, "failing", [["ok", j, n]]] for i in (0, 1) for j in (0, 1) for n in ("s1", "s2")]
    cases = []
    enum = itertools.product(steps, repeat=L) if L <= 4 else itertools.chain(
        itertools.product(steps[:9], repeat=5), (h for h in itertools.product(steps, repeat=4) if any(st[0] in ("refused", "fail") for st in h)))
    for h in enum:
        n_s, ok = 1, True
        n_special = 0
        for st in h:
            if st[0] == "new":
                n_s += 1
            elif st[0] == "refused":
                n_special += 1
            elif st[0] == "fail":
                n_special += 1
                if st[1] >= n_s or st[3][0][1] >= n_s:
                    ok = False
                    break
            elif st[1] >= n_s:
                ok = False
                break
        if n_special > (1 if len(h) <= 4 else 0):
            ok = False                 # at most one of the two special steps per enumerated history, none at length 5 (keeps the layer small)
        if ok:
            cases.append({"history_case": True, "subjects": ["s1", "s2"], "history": json.loads(json.dumps(list(h))), "file": "a.tsv", "sibling": "b.tsv"})
    n_enum = len(cases)
    cases += [A.history_case(rng) for _ in range(ctx.scale(60, 1500))]
    results = []
    for k in range(0, len(cases), 2000):
        results += A.history_run(cases[k:k + 2000])
    model = common.engine_run(OP + 4, [A.history_model_input(c) for c in cases])
    n_bad = n_dis = 0
    for case, res, mo in zip(cases, results, model):
        d = A.history_trace_differs(case, res, mo)
        if d and n_dis < 3:
            n_dis += 1
            ctx.disagree("live-session history: files after a step differ from Model/AggHistory.v", dict(case, differs=d))
        ctx.count(case, any(s[0] == "new" for s in case["history"]))
        ctx.bump("session history: %d sessions, %d interrupted, %d failing, %d refused constructors" % (
            1 + sum(1 for s in case["history"] if s[0] == "new"), sum(1 for s in case["history"] if s[0] == "die"),
            sum(1 for s in case["history"] if s[0] == "fail"), sum(1 for s in case["history"] if s[0] == "refused")))
        probs = A.history_problems(case, res)
        if probs and n_bad < 5:
            n_bad += 1
            ctx.violation("history of live sessions on one output file: " + "; ".join(probs[:3]), dict(case, result=res))
    ctx.layers.append({"layer": f"every sequential history of {L} steps (new session / submit / interrupted submit through session 0 or 1, two "
                                "subject names) of live sessions on one output file (+ a sibling), final resubmission through a fresh and "
                                "through every old session", "cases": n_enum, "exhaustive": True})
    ctx.layers.append({"layer": "random longer histories of live sessions (3-9 steps, name pools with equal / different lengths, quoted names)",
                       "cases": len(cases) - n_enum, "exhaustive": False})
    sample = list(range(n_enum, len(cases)))[:10]
    return [(OP + 4, A.history_model_input(cases[i]), model[i]) for i in sample]


def replay_restart():
    import random
    rc = 0
    for attempt in range(3):
        lines, sq, rep = A.restart_smoke(random.Random(attempt))
        probs = A.restart_smoke_problems(lines, sq, rep)
        print(f"attempt {attempt + 1} (hash seeds {rep.get('hash_seeds')}):", probs or "final file equals an uninterrupted run")
        rc |= bool(probs)
    return rc


def replay_history(case):
    res = A.history_run([case])[0]
    probs = A.history_problems(case, res)
    try:
        d = A.history_trace_differs(case, res, common.engine_run(OP + 4, [A.history_model_input(case)])[0])
        if "error" not in res:
            print("model (Model/AggHistory.v) vs implementation, file states after every operation:", "agree" if d is None else f"DIFFER at {d}")
    except Exception as e:  # noqa
        print("model not available:", e)
    print("history:", case["history"], "subjects:", case["subjects"])
    print("output file:", res.get("out"), "\nsibling:", res.get("sib"))
    print("PROPERTY FAILS ON THE IMPLEMENTATION: " + "; ".join(probs[:4]) if probs else "one complete row per subject in both files")
    return 1 if probs else 0


def replay(path):
    d = json.loads(open(path).read())
    if d.get("history_case"):
        return replay_history(d)
    if json.loads(open(path).read()).get("restart_smoke"):
        return replay_restart()
    return A.replay_file(path, OP)
