"""C15 -- evaluation is pure: no input mutation, no history, option or worker dependence."""
import contextlib
import copy
import hashlib
import io
import json
import os
import tempfile
from pathlib import Path

import numpy as np

from harness import common, impl
from harness.props.c02 import gen_cfg

TARGETS = ["theories/Props/C15.vo", "theories/Proofs/GenEq_EvalSM.vo"]
GENEQ = {"theories/Proofs/GenEq_EvalSM.vo": "EvalSM"}
# units added to the cone after round 2 of the seeded changes (a refused / changed unit must be noticed by this check too)
TARGETS = TARGETS + ["theories/Proofs/GenEq_Backend.vo"]
GENEQ = dict(GENEQ, **{"theories/Proofs/GenEq_Backend.vo": "Backend"})
ALLOWED_AXIOMS = []
RULE = ("history = random sequence over 2-3 shared evaluators of: evaluate(input, options from all 16 combinations of result_all/save_group_times/"
        "log_times/verbose), resulting_metric_keys, construct an aggregator (log_times on/off), construct further evaluators/handlers, save_to_config; "
        "every evaluate output must equal the output of a FRESH evaluator with the same configuration on the same input (ignoring computation_time), "
        "keys and saved configuration must stay constant, input arrays byte-identical before/after, default arguments unchanged; a sub-sample "
        "of inputs is evaluated serially and through the real multiprocessing pool; non-trivial = history with >= 1 aggregator construction or "
        ">= 2 different inputs on one evaluator")
ASSUMPTIONS = ["worker scheduling inside multiprocessing.Pool cannot be exhibited by the model: starmap order preservation is assumed, serial vs pool results are compared on the implementation",
               "input mutation cannot be expressed in the pure model: checked by byte hashes of the caller's arrays"]
TRUSTED = ["multiprocessing, numpy (modelled, not verified)"]
LEVEL_TEXT = ("Props/C15.v: the evaluator as a state machine whose only mutable state is the lazily cached key list handed out by reference; by induction "
              "over arbitrary operation sequences every operation returns what a fresh evaluator returns (evaluate = the pure pipeline function, "
              "options only add computation_time), evaluate never raises from the timing flags, keys and saved configuration do not change "
              "through use. The flag conditions, the cache shape, the aggregator's copy of the key list and the absence of state assignments in "
              "evaluate are re-translated from the AST each run (GenEq_EvalSM). Partial for process scheduling (runtime behaviour).")
LEVEL_NOTE = "Trusted: Coq kernel, translator, harness. Real pool scheduling, memory aliasing inside numpy are runtime behaviour outside the model (correspondence only)."
TECHNIQUE = "machine-checked proof in Rocq (Coq) (induction over operation histories) + AST re-translation + history correspondence on the implementation"


def digest(a):
    return hashlib.sha1(a.tobytes() + str(a.dtype).encode() + str(a.shape).encode()).hexdigest()


def jcfg(c):
    return {k: v for k, v in c.items() if k != "groups"}


def canon_out(out):
    if isinstance(out, tuple):
        return ("err", out[1])
    res = {}
    for g, (r, _) in out.items():
        c = impl.canon_result(r)
        c.pop("keys", None)
        res[g] = json.dumps(common.jsonable(c), sort_keys=True)
    return res


def saved_text(ev):
    with tempfile.TemporaryDirectory() as d, contextlib.redirect_stdout(io.StringIO()):
        p = Path(d) / "c.yaml"
        ev.save_to_config(p)
        return p.read_text()


def defaults_snapshot():
    from panoptica import Panoptica_Evaluator
    from panoptica.utils.edge_case_handling import EdgeCaseHandler
    from panoptica.panoptica_evaluator import panoptic_evaluate, _handle_zero_instances_cases
    from panoptica.instance_evaluator import evaluate_matched_instance
    snap = []
    for f in (Panoptica_Evaluator.__init__, EdgeCaseHandler.__init__, panoptic_evaluate, _handle_zero_instances_cases, evaluate_matched_instance):
        snap.append(repr([(repr(d) if not isinstance(d, dict) else sorted((str(k), str(v)) for k, v in d.items())) for d in (f.__defaults__ or ())]))
    return snap


def run(ctx):
    common.serial_pool()
    rng = ctx.rng
    from panoptica.panoptica_aggregator import Panoptica_Aggregator
    snap0 = defaults_snapshot()
    from panoptica import Panoptica_Evaluator, InputType
    dflt = Panoptica_Evaluator(expected_input=InputType.MATCHED_INSTANCE)
    dflt_keys0 = list(dflt.resulting_metric_keys)
    dflt_conf0 = saved_text(dflt)
    probe = np.zeros((4, 5, 5), np.uint8); probe[1:3, 1:4, 1:4] = 1
    probe2 = probe.copy(); probe2[1:3, 1:4, 3] = 0
    dflt_res0 = canon_out(impl.evaluate(dflt, probe2.copy(), probe.copy()))
    for _ in range(ctx.scale(60, 500)):
        cfgs = [gen_cfg(rng, rng.choice(["matched", "unmatched", "semantic"])) for _ in range(rng.randint(1, 3))]
        for c in cfgs:
            c["gmetrics"] = rng.choice([[], ["DSC"], ["DSC", "IOU"]])
            c["sgt"] = rng.random() < 0.3
            if rng.random() < 0.35:
                # a user's own edge-case handler, possibly NOT covering every instance metric (an uncovered metric with zero true
                # positives is refused -- by a fresh evaluator and by a used one alike, and without leaving a trace in the handler)
                ms = rng.sample(impl.METRICS, rng.randint(0, 4))
                c["table"] = {m: [rng.randrange(5) for _k in range(4)] for m in ms}
                c["std"] = rng.randrange(5)
            if c["input"] != "semantic" and rng.random() < 0.4:
                from harness.props.c12 import make_groups
                c["groups"], c["groups_spec"] = make_groups(rng)
        evs = []
        for c in cfgs:
            ev = impl.make_evaluator(c)
            if c["sgt"]:
                ev.set_log_group_times(True)
            evs.append(ev)
        keys0 = [list(ev.resulting_metric_keys) for ev in evs] if rng.random() < 0.5 else [None] * len(evs)
        conf0 = [saved_text(ev) for ev in evs]
        hist = []
        n_agg = 0
        inputs_seen = [set() for _ in evs]
        earlier = [[] for _ in evs]          # inputs already evaluated on each evaluator (for the replay)
        bufs = [None for _ in evs]            # caller-side array objects that are refilled IN PLACE and handed in again
        with tempfile.TemporaryDirectory() as tmp:
            for step in range(rng.randint(3, 9)):
                i = rng.randrange(len(evs))
                kind = rng.choice(["eval", "eval", "eval", "keys", "agg", "new", "save"])
                hist.append((kind, i))
                if kind == "eval":
                    p, r = impl.rand_pair(rng, max_side=5, max_inst=3)
                    if "groups" in cfgs[i]:
                        r = np.array([rng.choice([0, 0, 1, 2, 3, 4, 5, 6]) for _ in range(r.size)], dtype="uint8").reshape(r.shape)
                        p = r.copy()
                        for _ in range(rng.randint(0, 3)):
                            p.reshape(-1)[rng.randrange(p.size)] = rng.choice([0, 1, 2, 3, 4, 5, 6])
                    if cfgs[i]["input"] == "semantic":
                        p, r = (p != 0).astype("uint8"), (r != 0).astype("uint8")
                        if rng.random() < 0.6:
                            # speckled two-class maps of varying dimensionality (diagonal contacts, touching classes): whatever an
                            # evaluator resolved on an earlier input (e.g. the default backend for its ndim) must not stick
                            r = np.array([rng.choice([0, 0, 0, 1, 1, 2]) for _ in range(r.size)], dtype="uint8").reshape(r.shape)
                            p = r.copy()
                            for _k in range(rng.randint(0, 3)):
                                p.reshape(-1)[rng.randrange(p.size)] = rng.choice([0, 1, 2])
                    if rng.random() < 0.2 and "groups" not in cfgs[i]:
                        p = np.zeros_like(p) if rng.random() < 0.6 else p
                        r = np.zeros_like(r) if rng.random() < 0.4 else r          # zero true positives: the handler decides
                    inplace = False
                    if bufs[i] is not None and rng.random() < 0.5:
                        # the caller refills the SAME ndarray objects with the next case (new content of the buffers' shape and dtype)
                        bp, br = bufs[i]
                        if "groups" in cfgs[i]:
                            nr_ = np.array([rng.choice([0, 0, 1, 2, 3, 4, 5, 6]) for _ in range(br.size)], dtype=br.dtype).reshape(br.shape)
                        else:
                            nr_ = impl.rand_blobs(rng, br.shape, rng.randint(1, 3), dtype=str(br.dtype))
                            if cfgs[i]["input"] == "semantic":
                                nr_ = (nr_ != 0).astype(br.dtype)
                        np_ = nr_.copy()
                        for _k in range(rng.randint(0, 3)):
                            np_.reshape(-1)[rng.randrange(np_.size)] = rng.choice([0, 1, 2]) if "groups" not in cfgs[i] and cfgs[i]["input"] != "semantic" else rng.choice([0, 1])
                        if cfgs[i]["input"] == "matched" and "groups" not in cfgs[i]:
                            np_ = np.where(np_ != 0, np.where(nr_ != 0, nr_, np_), 0).astype(br.dtype)
                        bp[...] = np_
                        br[...] = nr_
                        p, r = bp, br
                        inplace = True
                    else:
                        bufs[i] = (p, r)
                    opts = {"result_all": rng.random() < 0.8, "save_group_times": rng.choice([None, True, False]),
                            "log_times": rng.choice([None, True, False]), "verbose": rng.choice([None, True, False])}
                    hp, hr = digest(p), digest(r)
                    out = impl.evaluate(evs[i], p, r, **opts)
                    inputs_seen[i].add(hp + hr)
                    if digest(p) != hp or digest(r) != hr:
                        ctx.violation("evaluate modified the caller's arrays", {"cfg": jcfg(cfgs[i]), "pred": p, "ref": r, "opts": opts})
                    fresh = impl.make_evaluator(cfgs[i])
                    if cfgs[i]["sgt"]:
                        fresh.set_log_group_times(True)
                    exp = impl.evaluate(fresh, p.copy(), r.copy(), result_all=True)
                    a, b = canon_out(out), canon_out(exp)
                    if not opts["result_all"] and not isinstance(out, tuple):
                        # result_all=False computes lazily: WHAT has been computed (the reported dictionary) must not depend on the
                        # logging / timing options either -- compared with a fresh evaluator called with all of them off
                        plain = impl.evaluate(impl.make_evaluator(cfgs[i]), p.copy(), r.copy(), result_all=False, save_group_times=False,
                                              log_times=False, verbose=False)
                        if not isinstance(plain, tuple):
                            ka = {g: sorted(res.to_dict().keys()) for g, (res, _) in out.items()}
                            kb = {g: sorted(res.to_dict().keys()) for g, (res, _) in plain.items()}
                            if ka != kb:
                                ctx.violation("with result_all=False the set of reported metrics depends on the logging / timing options",
                                              {"cfg": jcfg(cfgs[i]), "pred": p, "ref": r, "opts": opts, "reported_keys": ka, "reported_keys_plain": kb,
                                               "lazy_keys": True})
                        # ... then force the same attributes
                        for g, (res, _) in out.items():
                            with np.errstate(all="ignore"):
                                res.calculate_all()
                        a = canon_out(out)
                    if a != b:
                        ctx.violation("evaluate on a used evaluator / with options differs from a fresh evaluator",
                                      {"cfg": jcfg(cfgs[i]), "pred": p, "ref": r, "opts": opts, "history": hist, "observed": a, "fresh": b,
                                       "earlier_inputs": list(earlier[i][-4:]), "same_array_objects_refilled_in_place": inplace})
                    earlier[i].append({"pred": p.copy(), "ref": r.copy(), "opts": opts, "inplace": inplace})
                    if not isinstance(out, tuple):
                        eff = opts["save_group_times"] if opts["save_group_times"] is not None else cfgs[i]["sgt"]
                        for g, (res, _) in out.items():
                            if (res.computation_time is not None) != bool(eff):
                                ctx.violation("computation_time presence does not follow the effective save_group_times flag",
                                              {"cfg": jcfg(cfgs[i]), "opts": opts, "history": hist})
                elif kind == "keys":
                    k = list(evs[i].resulting_metric_keys)
                    if keys0[i] is None:
                        keys0[i] = k
                    elif k != keys0[i]:
                        ctx.violation("resulting_metric_keys changed through use", {"cfg": jcfg(cfgs[i]), "history": hist, "before": keys0[i], "after": k})
                elif kind == "agg":
                    n_agg += 1
                    with contextlib.redirect_stdout(io.StringIO()):
                        Panoptica_Aggregator(evs[i], Path(tmp) / f"o{step}_{i}.tsv", log_times=rng.random() < 0.6)
                elif kind == "new":
                    impl.make_evaluator(gen_cfg(rng, "matched"))
                    # constructions relying on DEFAULT arguments (shared mutable defaults must stay untouched)
                    from panoptica import Panoptica_Evaluator, InputType
                    from panoptica.utils.edge_case_handling import EdgeCaseHandler
                    dm = rng.choice([None, "clDSC", "RVD", "IOU", "ASSD"])
                    with contextlib.suppress(Exception):
                        Panoptica_Evaluator(expected_input=InputType.MATCHED_INSTANCE, decision_metric=None if dm is None else impl.metric(dm),
                                            decision_threshold=None if dm is None else 0.5)
                    with contextlib.suppress(Exception):
                        EdgeCaseHandler()
                elif kind == "save":
                    t = saved_text(evs[i])
                    if t != conf0[i]:
                        ctx.violation("saved configuration changed through use", {"cfg": jcfg(cfgs[i]), "history": hist})
            for i, ev in enumerate(evs):
                k = list(ev.resulting_metric_keys)
                fresh_k = list(impl.make_evaluator(cfgs[i]).resulting_metric_keys)
                if k != fresh_k:
                    ctx.violation("an evaluator's advertised metric keys differ from a fresh evaluator's after the history",
                                  {"cfg": jcfg(cfgs[i]), "history": hist, "after": k, "fresh": fresh_k})
                if saved_text(ev) != conf0[i]:
                    ctx.violation("saved configuration changed through use", {"cfg": jcfg(cfgs[i]), "history": hist})
        ctx.count({"history": hist, "cfgs": [jcfg(c) for c in cfgs]}, n_agg >= 1 or any(len(s) >= 2 for s in inputs_seen))
        ctx.bump(f"len={len(hist)}/agg={n_agg}")
    fresh_dflt = Panoptica_Evaluator(expected_input=InputType.MATCHED_INSTANCE)
    if list(fresh_dflt.resulting_metric_keys) != dflt_keys0 or list(dflt.resulting_metric_keys) != dflt_keys0 or saved_text(dflt) != dflt_conf0 \
            or saved_text(fresh_dflt) != dflt_conf0 or canon_out(impl.evaluate(dflt, probe2.copy(), probe.copy())) != dflt_res0:
        ctx.violation("a default-constructed evaluator changed (keys, saved configuration or results) after other objects were constructed/used",
                      {"keys_before": dflt_keys0, "keys_after": list(fresh_dflt.resulting_metric_keys)})
    if defaults_snapshot() != snap0:
        ctx.violation("a mutable default argument was modified by the histories", {"before": snap0, "after": defaults_snapshot()})
    # serial vs real process pool
    n_pool = ctx.scale(6, 40)
    for _ in range(n_pool):
        c = gen_cfg(rng, rng.choice(["matched", "unmatched"]))
        p, r = impl.rand_pair(rng, max_side=6, max_inst=4)
        if c["input"] == "unmatched" and p.any() and rng.random() < 0.7:
            # the prediction numbers its instances independently of the reference
            labs = [int(x) for x in np.unique(p) if x]
            new = rng.sample(range(1, 12), len(labs))
            p = sum((np.where(p == l, n, 0) for l, n in zip(labs, new)), np.zeros_like(p)).astype(p.dtype)
        common.serial_pool(True)
        a = canon_out(impl.evaluate(impl.make_evaluator(c), p.copy(), r.copy()))
        common.serial_pool(False)
        try:
            b = canon_out(impl.evaluate(impl.make_evaluator(c), p.copy(), r.copy()))
            # the same with the process confined to ONE cpu (cpuset containers, taskset, one-core runners): how many workers the
            # machine offers must not matter either
            b1 = b
            if hasattr(os, "sched_setaffinity"):
                allowed = os.sched_getaffinity(0)
                try:
                    os.sched_setaffinity(0, {sorted(allowed)[0]})
                    b1 = canon_out(impl.evaluate(impl.make_evaluator(c), p.copy(), r.copy()))
                finally:
                    os.sched_setaffinity(0, allowed)
        finally:
            common.serial_pool(True)
        ctx.count({"pool": True, "cfg": c, "pred": p.tolist(), "ref": r.tolist()}, True)
        ctx.bump("serial-vs-pool")
        if a != b:
            ctx.violation("serial and multiprocessing-pool evaluation differ", {"cfg": c, "pred": p, "ref": r, "serial": a, "pool": b})
        elif a != b1:
            ctx.violation("evaluation with the process confined to one cpu differs from the evaluation on all cpus",
                          {"cfg": c, "pred": p, "ref": r, "serial": a, "pool": b1, "one_cpu": True})


def replay(path):
    common.serial_pool()
    d = json.loads(open(path).read())
    print("what:", d.get("what", "")[:300] if isinstance(d.get("what"), str) else "")
    if "pred" not in d or "cfg" not in d:
        print(json.dumps(d)[:1500])
        print("replay: this history is regenerated from the seed; re-run ./check C15 with the same VERIF_SEED")
        return 1
    if d.get("lazy_keys"):
        pred, ref = common.arr_from_json(d["pred"]), common.arr_from_json(d["ref"])
        c = dict(d["cfg"])
        if c.get("groups_spec"):
            from harness.props.c12 import groups_from_spec
            c["groups"] = groups_from_spec({n: tuple(v) for n, v in c["groups_spec"].items()})
        ev = impl.make_evaluator(c)
        if c.get("sgt"):
            ev.set_log_group_times(True)
        out = impl.evaluate(ev, pred.copy(), ref.copy(), **d["opts"])
        plain = impl.evaluate(impl.make_evaluator(c), pred.copy(), ref.copy(), result_all=False, save_group_times=False, log_times=False, verbose=False)
        ka = {g: sorted(res.to_dict().keys()) for g, (res, _) in out.items()}
        kb = {g: sorted(res.to_dict().keys()) for g, (res, _) in plain.items()}
        print("options:", d["opts"], "\nreported keys:", ka, "\nwith all logging / timing options off:", kb)
        print("DIFFER" if ka != kb else "same")
        return 1 if ka != kb else 0
    if "serial" in d and "pool" in d:
        # serial vs multiprocessing pool (vs the process confined to one cpu): redo the comparison on the recorded input
        pred, ref = common.arr_from_json(d["pred"]), common.arr_from_json(d["ref"])
        c = dict(d["cfg"])
        common.serial_pool(True)
        a = canon_out(impl.evaluate(impl.make_evaluator(c), pred.copy(), ref.copy()))
        common.serial_pool(False)
        try:
            b = canon_out(impl.evaluate(impl.make_evaluator(c), pred.copy(), ref.copy()))
            b1 = b
            if d.get("one_cpu") and hasattr(os, "sched_setaffinity"):
                allowed = os.sched_getaffinity(0)
                try:
                    os.sched_setaffinity(0, {sorted(allowed)[0]})
                    b1 = canon_out(impl.evaluate(impl.make_evaluator(c), pred.copy(), ref.copy()))
                finally:
                    os.sched_setaffinity(0, allowed)
        finally:
            common.serial_pool(True)
        print("serial:", str(a)[:400])
        print("pool:  ", str(b)[:400])
        if d.get("one_cpu"):
            print("one cpu:", str(b1)[:400])
        if a != b or a != b1:
            print("PROPERTY FAILS ON THE IMPLEMENTATION: the result depends on how the per-instance work is distributed")
            return 1
        print("same")
        return 0
    cfg = dict(d["cfg"])
    if cfg.get("groups_spec"):
        from harness.props.c12 import groups_from_spec
        cfg["groups"] = groups_from_spec({n: tuple(v) for n, v in cfg["groups_spec"].items()})

    def mk():
        ev = impl.make_evaluator(cfg)
        if cfg.get("sgt"):
            ev.set_log_group_times(True)
        return ev
    used = mk()
    buf = None
    for h in d.get("earlier_inputs", []):
        hp, hr = common.arr_from_json(h["pred"]), common.arr_from_json(h["ref"])
        if h.get("inplace") and buf is not None and buf[0].shape == hp.shape and buf[0].dtype == hp.dtype:
            buf[0][...] = hp; buf[1][...] = hr
        else:
            buf = (hp, hr)
        impl.evaluate(used, buf[0], buf[1], **h.get("opts", {}))
    pred, ref = common.arr_from_json(d["pred"]), common.arr_from_json(d["ref"])
    if d.get("same_array_objects_refilled_in_place") and buf is not None and buf[0].shape == pred.shape and buf[0].dtype == pred.dtype:
        buf[0][...] = pred; buf[1][...] = ref
        out = impl.evaluate(used, buf[0], buf[1], result_all=True)
    else:
        out = impl.evaluate(used, pred.copy(), ref.copy(), result_all=True)
    exp = impl.evaluate(mk(), pred.copy(), ref.copy(), result_all=True)
    a, b = canon_out(out), canon_out(exp)
    print(f"evaluator used for {len(d.get('earlier_inputs', []))} earlier input(s):", str(a)[:600])
    print("fresh evaluator:", str(b)[:600])
    if a != b:
        print("DIFFER")
        return 1
    print("same (the recorded difference needs the other steps of the history: re-run ./check C15 with the same VERIF_SEED)")
    return 0
