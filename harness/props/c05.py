"""C05 -- instance approximation yields exactly the connected components.

T1: Gen/Backend (default-backend rule, negative-label assertion, dtype threshold chain, which library
    call serves each backend) re-translated from the AST on every run, GenEq_Backend lemmas.
T2: ConnectedComponentsInstanceApproximator(cca_backend=b).approximate_instances(SemanticPair(pred, ref))
    for b in {None, cc3d, scipy}.  Both output arrays are handed, as sparse labellings, to the extracted
    checker `holds_C05` (Props/C05.v: holds_C05 b m lab n = true -> is_cca b m lab n, and conversely) --
    any numbering of the components is accepted.  Also: counts = n = number of distinct labels, labels
    exactly 1..n, canonicalised labelling = the model's, dtype = smallest fitting unsigned type, inputs
    not modified; negative labels (signed input) must raise AssertionError.
cc3d and scipy.ndimage are modelled (Model/CCA.v `adjacent`), not verified; this correspondence is what
ties them to the model."""
import itertools
import json

import numpy as np

from harness import common
from harness.common import engine_run, coq_crosscheck, sx

TARGETS = ["theories/Props/C05.vo", "theories/Proofs/GenEq_Backend.vo"]
GENEQ = {"theories/Proofs/GenEq_Backend.vo": "Backend"}
ALLOWED_AXIOMS = []
RULE = ("case = (prediction map, reference map, dtype, backend in {None, cc3d, scipy}); corpus first; exhaustive layer: "
        "every map over {0,1,2} on 1x8, 3x3, 2x2x2, 1x3x3 (thorough: all 52 488 maps as prediction and as reference "
        "x 3 backends x {uint8,int16,int64}; quick: a seeded slice); structured random maps up to 6^3 in 1-D/2-D/3-D "
        "(blobs, diagonal segments, touching slabs of different semantic labels, large label values around 2^8/2^16/2^32, "
        "1-D rows with 250..260 components around the uint8/uint16 boundary); malformed stream: signed maps with "
        "negative labels; reuse layer: one approximator object per backend choice fed 3-6 pairs of mixed dimensionality, every call judged. "
        "non-trivial = at least two foreground voxels in one of the maps")
ASSUMPTIONS = [
    "cc3d.connected_components (default connectivity, multi-label) and scipy.ndimage.label (default structure) are "
    "modelled by Model/CCA.v `adjacent` (Chebyshev-1 with equal label / Manhattan-1), not verified; their C code is "
    "tied to the model only by this correspondence (every output is checked by the proved checker)",
    "numpy astype / max / min / unique / nonzero behave as specified (modelled, validated by this correspondence)",
    "output dtype boundaries above 2^16 components are covered by T1 (threshold chain) only: the model is quadratic, "
    "so inputs with more than ~300 components are not run",
    "arrays are at most 3-D in the correspondence (the theorems are dimension-independent)",
]
TRUSTED = ["cc3d / scipy.ndimage / numpy C code (modelled, not verified)"]
LEVEL_TEXT = ("Theorems in Props/C05.v (Coq 8.16.1, closed under the global context): the model's labelling is a valid "
              "connected-component labelling of every well-formed sparse map under either backend's adjacency (total "
              "correctness, no fuel); any two valid labellings have the same count and the same partition; classes are "
              "exactly the path components; bijective renaming preserves validity; count = number of distinct labels; "
              "cc3d never joins different semantic labels, scipy ignores them; default backend rule; the decidable checker "
              "holds_C05 is equivalent to the specification; negative labels are rejected; the dtype fits and is minimal "
              "except at 2^32-1. The implementation is tied by AST re-translation (GenEq_Backend) and by applying the "
              "proved checker to every output of the real code.")
LEVEL_NOTE = ("Trusted: Coq kernel; the AST translator; extraction + driver (cross-checked by vm_compute); the harness' "
              "array->sparse conversion. cc3d and scipy.ndimage are modelled, not verified: their behaviour is established by "
              "correspondence only (exhaustive on the small grids in the thorough tier). Observation: the dtype chain sends "
              "2^32-1 to uint64 (third threshold is 4294967295); harmless for label counts.")
TECHNIQUE = "machine-checked proof in Rocq (Coq) + AST re-translation (GenEq) + proved checker applied to the implementation's output"

BK_NAMES = [None, "cc3d", "scipy"]
BK_ENC = {None: [], "cc3d": [0], "scipy": [1]}
MAIN_DTYPES = ["uint8", "int16", "int64"]


def _backend(name):
    from panoptica.utils.constants import CCABackend
    return None if name is None else getattr(CCABackend, name)


_sparse_cache = {}


def sparse(arr):
    """non-zero voxels in C order with their values, as the engine's S-expression text; (text, labels)"""
    arr = np.asarray(arr)
    mask = arr != 0
    idx = np.argwhere(mask).tolist()
    vals = arr[mask].tolist()
    txt = "(" + " ".join("((" + " ".join(map(str, c)) + ") " + str(v) + ")" for c, v in zip(idx, vals)) + ")"
    return txt, vals


def sparse_cached(arr):
    key = (arr.shape, arr.dtype.str, arr.tobytes())
    r = _sparse_cache.get(key)
    if r is None:
        if len(_sparse_cache) > 100000:
            _sparse_cache.clear()
        r = _sparse_cache[key] = sparse(arr)
    return r


def engine_run_text(op, texts):
    """common.engine_run on pre-serialised inputs"""
    import subprocess
    import threading
    if not texts:
        return []
    nproc = min(common.NPROC, max(1, len(texts) // 50 + 1))
    chunks = [texts[i::nproc] for i in range(nproc)]
    procs = [subprocess.Popen([str(common.ENGINE)], stdin=subprocess.PIPE, stdout=subprocess.PIPE, text=True) for _ in chunks]
    results = [None] * nproc

    def feed(i):
        results[i] = procs[i].communicate("".join(f"{op} {t}\n" for t in chunks[i]))[0]

    ths = [threading.Thread(target=feed, args=(i,)) for i in range(nproc)]
    [t.start() for t in ths]
    [t.join() for t in ths]
    merged = [None] * len(texts)
    for i, (p, ch) in enumerate(zip(procs, chunks)):
        if p.returncode != 0:
            raise RuntimeError(f"engine failed rc={p.returncode}")
        lines = results[i].strip("\n").split("\n")
        if len(lines) != len(ch):
            raise RuntimeError(f"engine returned {len(lines)} lines for {len(ch)} cases")
        merged[i::nproc] = [common.parse_sx(l) for l in lines]
    return merged


def run_impl(pred, ref, bk, approx=None):
    """approx: an approximator object to reuse (reuse layer); default: a fresh one per call"""
    from panoptica import ConnectedComponentsInstanceApproximator
    from panoptica.utils.processing_pair import SemanticPair
    p0, r0 = pred.copy(), ref.copy()
    try:
        if approx is None:
            approx = ConnectedComponentsInstanceApproximator(cca_backend=_backend(bk))
        out = approx.approximate_instances(SemanticPair(pred, ref))
        res = {"status": "ok", "pred": np.asarray(out.prediction_arr), "ref": np.asarray(out.reference_arr),
               "n_pred": out.n_prediction_instance, "n_ref": out.n_reference_instance}
    except AssertionError:
        res = {"status": "err", "exc": "AssertionError"}
    except Exception as e:  # noqa
        res = {"status": "err", "exc": type(e).__name__ + ": " + str(e)[:200]}
    res["modified"] = not (pred.dtype == p0.dtype and ref.dtype == r0.dtype and pred.shape == p0.shape
                           and ref.shape == r0.shape and np.array_equal(pred, p0) and np.array_equal(ref, r0))
    return res


def canon(labels):
    """renumber by first occurrence"""
    seen = {}
    out = []
    for l in labels:
        if l not in seen:
            seen[l] = len(seen) + 1
        out.append(seen[l])
    return out


BITS = ["input well-formed", "foreground unchanged", "reported count = number of components", "labels within 1..n",
        "every label of 1..n used", "partition = connected components under the backend's adjacency"]


class Batch:
    """de-duplicated engine calls of one op; inputs are S-expression texts"""

    def __init__(self, op):
        self.op = op
        self.keys = {}
        self.inputs = []
        self.outputs = None

    def add(self, txt):
        i = self.keys.get(txt)
        if i is None:
            i = len(self.inputs)
            self.keys[txt] = i
            self.inputs.append(txt)
        return i

    def run(self):
        self.outputs = engine_run_text(self.op, self.inputs)

    def triples(self, n):
        if not self.outputs:
            return []
        step = max(1, len(self.inputs) // max(1, n))
        return [(self.op, common.parse_sx(i), o) for i, o in list(zip(self.inputs, self.outputs))[::step]][:n]


_default_cache = {}


def model_default_backend(ndim):
    if ndim not in _default_cache:
        _default_cache[ndim] = engine_run(503, [[ndim, 0]])[0][0]
    return _default_cache[ndim]


BK_TXT = {None: "()", "cc3d": "(0)", "scipy": "(1)"}


def prepare(case, impl, b504, b502):
    """register the engine inputs of one case; returns handles"""
    pred, ref, bk = case
    (mp, lp), (mr, lr) = sparse_cached(pred), sparse_cached(ref)
    h = {"n_vox": (len(lp), len(lr)), "h504": b504.add(f"({BK_TXT[bk]} {pred.ndim} {mp} {mr})")}
    if impl["status"] == "ok":
        b = BK_ENC[bk][0] if bk is not None else model_default_backend(pred.ndim)
        for side, m in (("pred", mp), ("ref", mr)):
            n = impl["n_" + side]
            try:
                n_int = int(n)
                if n_int != n:
                    n_int = None
            except Exception:  # noqa
                n_int = None
            h["n_" + side] = n_int
            lab, labs = sparse(impl[side])
            h["labs_" + side] = labs
            h["h502_" + side] = b502.add(f"({b} {m} {lab} {n_int if n_int is not None else -1})")
    return h


def judge(case, impl, h, o504, o502p, o502r):
    """-> (violations [str], disagreements [str]); the oracle is the proved checker / the model"""
    pred, ref, bk = case
    viol, dis = [], []
    if impl["modified"]:
        viol.append(("modified", "input arrays were modified"))
    if o504[0] == 1:                       # the model rejects: negative labels
        if impl["status"] == "ok":
            viol.append(("negative", "negative labels were accepted (no AssertionError)"))
        elif impl["exc"] != "AssertionError":
            viol.append(("negative", "negative labels raised " + impl["exc"] + " instead of AssertionError"))
        return viol, dis
    if impl["status"] != "ok":
        viol.append(("raised", "approximate_instances raised " + impl["exc"] + " on a valid semantic pair"))
        return viol, dis
    width = o504[3]
    for side, o502, model in (("pred", o502p, o504[1]), ("ref", o502r, o504[2])):
        out = impl[side]
        n = h["n_" + side]
        name = "prediction" if side == "pred" else "reference"
        if n is None:
            viol.append(("count-type", f"{name}: reported instance count {impl['n_' + side]!r} is not an integer"))
            continue
        if o502[0] != 1:
            failed = [BITS[i] for i, bit in enumerate(o502[1]) if bit != 1]
            viol.append(("not-cca", f"{name}: output is not a valid connected-component labelling -- fails: " + "; ".join(failed)))
        labs = h["labs_" + side]
        distinct = sorted(set(labs))
        if distinct != list(range(1, n + 1)):
            viol.append(("labels", f"{name}: labels {distinct[:8]}{'...' if len(distinct) > 8 else ''} are not exactly 1..{n} (reported count {n})"))
        if out.dtype != np.dtype(f"uint{width}"):
            viol.append(("dtype", f"{name}: output dtype {out.dtype} is not the smallest fitting unsigned type uint{width}"))
        if out.shape != (pred if side == "pred" else ref).shape:
            viol.append(("shape", f"{name}: output shape changed"))
        # same partition as the model, via canonical numbering (the proof says this follows from holds_C05)
        if o502[0] == 1:
            mlabs = [l for _, l in model[0]]
            if canon(labs) != mlabs or model[1] != n:
                dis.append(f"{name}: canonical labelling differs from the model's although holds_C05 accepts it")
    return viol, dis


def evaluate(pred, ref, bk, approx=None):
    """single-case slow path (replay, shrinking): returns (violations, impl, model output)"""
    impl = run_impl(pred, ref, bk, approx)
    b504, b502 = Batch(504), Batch(502)
    h = prepare((pred, ref, bk), impl, b504, b502)
    b504.run()
    if b502.inputs:
        b502.run()
    o504 = b504.outputs[h["h504"]]
    op = b502.outputs[h["h502_pred"]] if "h502_pred" in h else None
    orr = b502.outputs[h["h502_ref"]] if "h502_ref" in h else None
    viol, dis = judge((pred, ref, bk), impl, h, o504, op, orr)
    return viol, dis, impl, o504


def shrink(pred, ref, bk, key, budget=120):
    """greedy: zero whole sides, drop trailing slices, zero single voxels -- keep the same kind of failure"""

    def fails(p, r):
        nonlocal budget
        if budget <= 0:
            return False
        budget -= 1
        try:
            v, _, _, _ = evaluate(p.copy(), r.copy(), bk)
        except Exception:  # noqa
            return False
        return any(k == key for k, _ in v)

    changed = True
    while changed and budget > 0:
        changed = False
        for which in (0, 1):
            a = [pred, ref][which]
            if a.any():
                z = np.zeros_like(a)
                cand = (z, ref) if which == 0 else (pred, z)
                if fails(*cand):
                    pred, ref = cand
                    changed = True
        for ax in range(pred.ndim):
            while pred.shape[ax] > 1 and budget > 0:
                sl = [slice(None)] * pred.ndim
                sl[ax] = slice(0, pred.shape[ax] - 1)
                cand = (np.ascontiguousarray(pred[tuple(sl)]), np.ascontiguousarray(ref[tuple(sl)]))
                if fails(*cand):
                    pred, ref = cand
                    changed = True
                else:
                    break
        for which in (0, 1):
            a = [pred, ref][which]
            for idx in np.argwhere(a != 0).tolist():
                if budget <= 0:
                    break
                b = a.copy()
                b[tuple(idx)] = 0
                cand = (b, ref) if which == 0 else (pred, b)
                if fails(*cand):
                    pred, ref = cand
                    a = b
                    changed = True
    return pred, ref


# ------------------------------------------------------------------ generators
SMALL_SHAPES = [(1, 8), (3, 3), (2, 2, 2), (1, 3, 3)]


def all_maps(shape):
    n = int(np.prod(shape))
    return np.array(list(itertools.product([0, 1, 2], repeat=n)), dtype=np.int64).reshape((-1,) + shape)


def gen_exhaustive(ctx):
    """yields (tag, pred, ref, bk).  thorough: every map is prediction once and reference once, under every
    backend and dtype; quick: a seeded slice"""
    rng = ctx.rng
    full = ctx.tier == "thorough" and not ctx.search
    total = 0
    for shape in SMALL_SHAPES:
        maps = all_maps(shape)
        N = len(maps)
        perm = list(range(N))
        rng.shuffle(perm)
        idxs = range(N) if full else rng.sample(range(N), ctx.scale(600, 1500))
        for i in idxs:
            j = perm[i]
            dts = MAIN_DTYPES if full else [MAIN_DTYPES[i % 3]]
            for dt in dts:
                for bk in BK_NAMES:
                    yield ("exh", maps[i].astype(dt), maps[j].astype(dt), bk)
        total += len(idxs)
    ctx.layers.append({"layer": "all maps over {0,1,2} on 1x8, 3x3, 2x2x2, 1x3x3, each as prediction and as reference, "
                                "x {None,cc3d,scipy}" + (" x {uint8,int16,int64}" if full else " (dtype rotated)"),
                       "maps": total, "of": 52488, "exhaustive": full})


BIG = [255, 256, 257, 65535, 65536, 2 ** 32 - 2, 2 ** 32 - 1, 2 ** 32, 2 ** 40]


def rand_shape(rng, nd):
    if nd == 1:
        return (rng.randint(1, 14),)
    return tuple(rng.randint(1, 6) for _ in range(nd))


def rand_map(rng, shape, kind):
    nd = len(shape)
    a = np.zeros(shape, dtype=np.int64)
    size = a.size
    if kind == "blob":
        k = rng.choice([1, 2, 3])
        p = rng.choice([0.2, 0.5, 0.8])
        flat = a.reshape(-1)
        for i in range(size):
            if rng.random() < p:
                flat[i] = rng.randint(1, k)
    elif kind == "diag":
        for _ in range(rng.randint(1, 4)):
            while True:
                d = [rng.choice([-1, 0, 1]) for _ in range(nd)]
                if sum(1 for x in d if x) >= min(2, nd):
                    break
            pos = [rng.randrange(s) for s in shape]
            lab = rng.choice([1, 1, 2])
            for _ in range(rng.randint(2, 6)):
                if all(0 <= x < s for x, s in zip(pos, shape)):
                    a[tuple(pos)] = lab
                pos = [x + y for x, y in zip(pos, d)]
    elif kind == "slabs":
        ax = rng.randrange(nd)
        cuts = sorted(rng.sample(range(shape[ax] + 1), min(shape[ax] + 1, rng.randint(1, 3))))
        lab = rng.randint(1, 3)
        idx = [slice(None)] * nd
        prev = 0
        for c in cuts + [shape[ax]]:
            idx[ax] = slice(prev, c)
            a[tuple(idx)] = lab
            lab = lab % 3 + 1
            prev = c
        flat = a.reshape(-1)
        for _ in range(rng.randint(0, max(1, size // 4))):
            flat[rng.randrange(size)] = 0
    elif kind == "big":
        vals = rng.sample(BIG, 2) + [1]
        flat = a.reshape(-1)
        for i in range(size):
            if rng.random() < 0.5:
                flat[i] = rng.choice(vals)
    return a


def fit_dtype(rng, mx):
    cands = [d for d in ["uint8", "int16", "int64", "uint16", "int32", "uint32", "uint64"] if mx <= np.iinfo(d).max]
    main = [d for d in cands if d in MAIN_DTYPES]
    return rng.choice(main) if main and rng.random() < 0.7 else rng.choice(cands)


def _strided(a):
    """the same logical array as every second element of a larger one (not contiguous)"""
    big = np.zeros(tuple(2 * x for x in a.shape), a.dtype)
    view = big[tuple(slice(0, None, 2) for _ in a.shape)]
    view[...] = a
    return view


def gen_random(ctx):
    rng = ctx.rng
    for _ in range(ctx.scale(1200, 6000)):
        nd = rng.choice([1, 2, 2, 3, 3, 3])
        shape = rand_shape(rng, nd)
        kind = rng.choice(["blob", "blob", "diag", "diag", "slabs", "slabs", "big"])
        pred = rand_map(rng, shape, kind)
        r = rng.random()
        if r < 0.4:
            ref = pred.copy()
            flat = ref.reshape(-1)
            for _ in range(rng.randint(0, 4)):
                flat[rng.randrange(flat.size)] = rng.choice([0, 1, 2])
        elif r < 0.5:
            ref = np.zeros_like(pred)
        else:
            ref = rand_map(rng, shape, rng.choice(["blob", "diag", "slabs"]))
        if rng.random() < 0.05:
            pred = np.zeros_like(pred)
        dt = fit_dtype(rng, int(max(pred.max(), ref.max())))
        pa, ra = pred.astype(dt), ref.astype(dt)
        if rng.random() < 0.15:
            # memory layout is not part of a map: every k-th slice of a larger array, a column of an image, Fortran order
            lay = rng.choice(["strided", "strided", "F"])
            pa, ra = (_strided(pa), _strided(ra)) if lay == "strided" else (np.asfortranarray(pa), np.asfortranarray(ra))
        for bk in BK_NAMES:
            yield ("rnd-" + kind, pa, ra, bk)
    # row-like maps (1-D, (n,1,1), (1,n,1)) taken as strided views of larger arrays, already in the smallest unsigned dtype
    for _ in range(ctx.scale(40, 300)):
        n = rng.randint(5, 14)
        row = np.array([rng.choice([0, 0, 1, 1, 2]) for _k in range(n)], dtype="uint8")
        other = row.copy()
        for _k in range(rng.randint(0, 3)):
            other[rng.randrange(n)] = rng.choice([0, 1, 2])
        shape = rng.choice([(n,), (n, 1, 1), (1, n, 1), (1, 1, n), (n, 1)])
        pa, ra = _strided(row.reshape(shape)), _strided(other.reshape(shape))
        for bk in BK_NAMES:
            yield ("row-like strided view", pa, ra, bk)
    # many components around the uint8 / uint16 boundary (n = 254..258), 1-D and 2-D, every backend
    for n in ([254, 255, 256, 257] if ctx.tier == "quick" and not ctx.search else [253, 254, 255, 256, 257, 258, 300]):
        row = np.zeros(2 * n, dtype=np.int64)
        row[::2] = 1
        other = np.zeros(2 * n, dtype=np.int64)
        other[: 2 * rng.randint(1, 5): 2] = 2
        for dt in ("uint8", "int64"):
            for bk in BK_NAMES:
                yield ("many", row.astype(dt), other.astype(dt), bk)
                yield ("many", other.reshape(2, n).astype(dt), row.reshape(2, n).astype(dt), bk)


def gen_malformed(ctx):
    rng = ctx.rng
    for _ in range(ctx.scale(100, 600)):
        nd = rng.choice([1, 2, 3])
        shape = rand_shape(rng, nd)
        dt = rng.choice(["int8", "int16", "int32", "int64"])
        pred = rand_map(rng, shape, "blob").astype(dt)
        ref = rand_map(rng, shape, "blob").astype(dt)
        neg = rng.choice([-1, -1, -2, -100, int(np.iinfo(dt).min)])
        where = rng.choice(["pred", "ref", "both"])
        for a, w in ((pred, "pred"), (ref, "ref")):
            if where in (w, "both"):
                flat = a.reshape(-1)
                for _ in range(rng.randint(1, 2)):
                    flat[rng.randrange(flat.size)] = neg
        yield ("malformed", pred, ref, rng.choice(BK_NAMES))


def gen_corpus():
    cdir = common.VERIF / "corpus" / "C05"
    if cdir.exists():
        for f in sorted(cdir.glob("*.json")):
            d = json.loads(f.read_text())
            yield ("corpus", common.arr_from_json(d["pred"]), common.arr_from_json(d["ref"]), d["backend"])


# ------------------------------------------------------------------ driver
def private_engine():
    """Other checks may relink engine/pan_engine while this one runs (shared tree): work on a verified private copy."""
    import atexit
    import os
    import shutil
    import subprocess
    import time
    if getattr(common, "_c05_private_engine", None):
        return
    src = common.VERIF / "engine" / "pan_engine"
    dst = common.WORK / f"pan_engine_c05_{os.getpid()}"
    common.WORK.mkdir(exist_ok=True)
    for _ in range(30):
        try:
            shutil.copy2(src, dst)
            r = subprocess.run([str(dst)], input="503 (3 300)\n", capture_output=True, text=True, timeout=20)
            if r.returncode == 0 and r.stdout.strip() == "(0 16)":
                common.ENGINE = dst
                common._c05_private_engine = dst
                atexit.register(lambda: dst.exists() and dst.unlink())
                return
        except Exception:  # noqa
            pass
        time.sleep(1)
    raise RuntimeError("could not obtain a working copy of the extracted engine")


def process(ctx, chunk, triples, state):
    impls = [run_impl(p, r, bk) for _, p, r, bk in chunk]
    b504, b502 = Batch(504), Batch(502)
    hs = [prepare((p, r, bk), im, b504, b502) for (_, p, r, bk), im in zip(chunk, impls)]
    b504.run()
    if b502.inputs:
        b502.run()
    for (tag, p, r, bk), im, h in zip(chunk, impls, hs):
        o504 = b504.outputs[h["h504"]]
        op = b502.outputs[h["h502_pred"]] if "h502_pred" in h else None
        orr = b502.outputs[h["h502_ref"]] if "h502_ref" in h else None
        viol, dis = judge((p, r, bk), im, h, o504, op, orr)
        nontriv = max(h["n_vox"]) >= 2
        ctx.count({"pred": p.tolist(), "ref": r.tolist(), "dtype": str(p.dtype), "backend": bk}, nontriv)
        ctx.bump(f"{tag}/{p.ndim}d/{bk or 'default'}")
        ctx.bump(f"dtype/{p.dtype}")
        if o504[0] == 0:
            # how often the backend matters: same pair under cc3d and under scipy, different model partition
            key = (p.tobytes(), r.tobytes(), str(p.dtype), p.shape)
            if bk is not None:
                seen = state["pairs"].setdefault(key, {})
                seen[bk] = (o504[1], o504[2])
                if len(seen) == 2:
                    ctx.bump("backend-sensitive pairs" if seen["cc3d"] != seen["scipy"] else "backend-insensitive pairs")
                    del state["pairs"][key]
            nmax = max(o504[1][1], o504[2][1])
            ctx.bump("components/" + ("0" if nmax == 0 else "1" if nmax == 1 else "2-5" if nmax <= 5 else "6-255" if nmax <= 255 else ">255"))
            state["ok"] += 1
        else:
            state["rejected"] += 1
        for d in dis:
            ctx.disagree("model-vs-implementation", {"what": d, "pred": p, "ref": r, "backend": bk})
        for kind, v in viol:
            state["nviol"] += 1
            if state["nviol"] > 8:          # enough detailed replays; keep counting, stay within the time budget
                ctx.bump("violations beyond the first 8 (not shrunk)")
                if len(ctx.violations) < 30:
                    ctx.violation(v, {"pred": p, "ref": r, "backend": bk, "implementation": describe(im), "model": o504})
                continue
            sp, sr = p, r
            if state["shrunk"] < 3:
                state["shrunk"] += 1
                sp, sr = shrink(p.copy(), r.copy(), bk, kind)
            vv, _, im2, mo = evaluate(sp.copy(), sr.copy(), bk)
            same = [x for k, x in vv if k == kind]
            if not same:
                sp, sr, im2 = p, r, im
                mo = o504
            ctx.violation((same[0] if same else v), {
                "pred": sp, "ref": sr, "backend": bk,
                "implementation": describe(im2), "model": mo, "original_shape": list(p.shape)})
    if len(triples) < 400:
        triples += b504.triples(12) + b502.triples(12)


def describe(im):
    if im["status"] != "ok":
        return {"raised": im["exc"], "inputs_modified": im["modified"]}
    return {"prediction_arr": im["pred"], "reference_arr": im["ref"], "n_prediction_instance": im["n_pred"],
            "n_reference_instance": im["n_ref"], "inputs_modified": im["modified"]}


def run(ctx):
    private_engine()
    state = {"ok": 0, "rejected": 0, "shrunk": 0, "nviol": 0, "pairs": {}}
    triples = []
    # model rules (default backend, dtype chain) on boundary values, against the implementation's helpers
    from panoptica.utils.numpy_utils import _get_smallest_fitting_uint
    vals = [0, 1, 254, 255, 256, 257, 65534, 65535, 65536, 65537, 2 ** 32 - 2, 2 ** 32 - 1, 2 ** 32, 2 ** 32 + 1, 2 ** 40, 2 ** 63]
    vals += [ctx.rng.randrange(0, 2 ** 34) for _ in range(ctx.scale(50, 500))]
    rule_in = [[nd, v] for nd in (1, 2, 3, 4) for v in vals]
    rule_out = engine_run(503, rule_in)
    for (nd, v), (b, w) in zip(rule_in, rule_out):
        iw = np.dtype(_get_smallest_fitting_uint(v)).itemsize * 8
        if iw != w:
            ctx.disagree("smallest_fitting_uint", {"value": v, "implementation": iw, "model": w})
        if not (0 <= v < 2 ** iw):
            ctx.violation("selected dtype cannot hold the value", {"value": v, "dtype_bits": iw})
    triples += [(503, i, o) for i, o in list(zip(rule_in, rule_out))[::max(1, len(rule_in) // 8)]][:10]
    ctx.notes["dtype_rule_checked"] = len(rule_in)

    chunk = []
    size = 4000 if ctx.tier == "thorough" else 1000
    for gen in (gen_corpus(), gen_exhaustive(ctx), gen_random(ctx), gen_malformed(ctx)):
        for case in gen:
            chunk.append(case)
            if len(chunk) >= size:
                process(ctx, chunk, triples, state)
                chunk = []
        if chunk:
            process(ctx, chunk, triples, state)
            chunk = []
    large_layer(ctx)
    crop_layer(ctx)
    reuse_layer(ctx)
    ctx.notes["valid_pairs"] = state["ok"]
    ctx.notes["malformed_pairs_rejected_by_model"] = state["rejected"]
    ctx.notes["model_completeness"] = "total by construction (structural recursion); no None/fuel case exists"
    ctx.notes["observation"] = "_get_smallest_fitting_uint sends 2^32-1 to uint64 (threshold 4294967295); harmless for label counts"
    step = max(1, len(triples) // 70)
    sample = triples[::step][:80]
    n, bad = coq_crosscheck("C05", sample, timeout=600)
    ctx.crosschecked = n
    for b in bad:
        ctx.disagree("extraction-vs-vm_compute", sample[b])
    ctx.exhaustive = ctx.tier == "thorough" and not ctx.search


def block_map(shape, k, seed):
    """k two-class boxes separated by background along the last axis; each box is class 1 on its left half, class 2 on its
    right half (the halves touch).  By the definitions: the scipy backend (labels ignored) must return exactly the k boxes,
    the cc3d backend (same label only) exactly the 2k halves."""
    rr = np.random.RandomState(seed)
    a = np.zeros(shape, np.uint8)
    w = shape[-1]
    step = w // k
    boxes = []
    for i in range(k):
        lo = i * step + 1
        hi = lo + max(2, step - 2 - int(rr.randint(0, 2)))
        mid = (lo + hi) // 2
        sl = tuple(slice(1, max(2, d - 1)) for d in shape[:-1])
        a[sl + (slice(lo, mid),)] = 1
        a[sl + (slice(mid, hi),)] = 2
        boxes.append((sl, lo, mid, hi))
    return a, boxes


def large_problems(arr, boxes, lab, n, bk, ndim):
    eff = bk or ("cc3d" if ndim >= 3 else "scipy")
    parts = []
    for sl, lo, mid, hi in boxes:
        parts += [[sl + (slice(lo, hi),)]] if eff == "scipy" else [[sl + (slice(lo, mid),)], [sl + (slice(mid, hi),)]]
    probs = []
    if not np.array_equal(lab != 0, arr != 0):
        probs.append("foreground changed")
    if n != len(parts):
        probs.append(f"{n} instances reported, {len(parts)} connected components by the definition of the {eff} backend")
    seen = set()
    for (sl,) in parts:
        u = np.unique(lab[sl])
        if len(u) != 1 or int(u[0]) == 0:
            probs.append("a connected component carries several instance labels")
            break
        seen.add(int(u[0]))
    if len(seen) != len(parts):
        probs.append("two connected components share an instance label")
    if sorted(int(x) for x in np.unique(lab) if x) != list(range(1, n + 1)):
        probs.append("labels are not 1..n")
    return probs


def large_layer(ctx):
    """inputs at and above 2^20 voxels (no size-dependent behaviour is allowed by the property); oracle by construction"""
    shapes = [(1024, 1024), (64, 128, 128), (1 << 20,), (1025, 1031), (1000, 1000)]
    if ctx.tier == "thorough":
        shapes += [(2048, 1024), (101, 103, 107), (3, 700, 700)]
    for si, shape in enumerate(shapes):
        for bk in (None, "cc3d", "scipy"):
            k = 3 + (si % 3)
            arr, boxes = block_map(shape, k, si)
            ref = np.zeros(shape, np.uint8)
            ref[tuple(slice(0, 1) for _ in shape)] = 1
            im = run_impl(arr.copy(), ref, bk)
            ctx.count({"large": list(shape), "backend": bk, "k": k}, True)
            ctx.bump(f"large/{len(shape)}d/{bk or 'default'}")
            if im["status"] != "ok":
                ctx.violation("approximate_instances raised on a large valid semantic pair: " + im.get("exc", ""),
                              {"large_shape": list(shape), "k": k, "seed": si, "backend": bk})
                continue
            probs = large_problems(arr, boxes, im["pred"], im["n_pred"], bk, len(shape))
            if probs:
                ctx.violation("large input: " + "; ".join(probs[:3]), {"large_shape": list(shape), "k": k, "seed": si, "backend": bk})


def cropped_first(pred, ref, bk):
    """the public sequence  pair.crop_data(); approximate_instances(pair)  -> (n_pred, n_ref, foreground sizes, labels ok) or error"""
    from panoptica import ConnectedComponentsInstanceApproximator
    from panoptica.utils.processing_pair import SemanticPair
    try:
        pair = SemanticPair(pred.copy(), ref.copy())
        pair.crop_data()
        out = ConnectedComponentsInstanceApproximator(cca_backend=_backend(bk)).approximate_instances(pair)
        pa, ra = np.asarray(out.prediction_arr), np.asarray(out.reference_arr)
        ok = sorted(int(x) for x in np.unique(pa) if x) == list(range(1, out.n_prediction_instance + 1)) and \
            sorted(int(x) for x in np.unique(ra) if x) == list(range(1, out.n_reference_instance + 1))
        return {"n_pred": int(out.n_prediction_instance), "n_ref": int(out.n_reference_instance), "fg_pred": int((pa != 0).sum()),
                "fg_ref": int((ra != 0).sum()), "labels_1_to_n": ok}
    except Exception as e:  # noqa
        return {"error": type(e).__name__ + ": " + str(e)[:160]}


def reuse_sequence(rng, n):
    """n semantic pairs of mixed dimensionality with diagonal contacts and touching classes"""
    seq = []
    for _ in range(n):
        nd = rng.choice([1, 2, 2, 3, 3])
        shape = tuple(rng.randint(2, 4) for _k in range(nd)) if nd > 1 else (rng.randint(3, 8),)
        size = int(np.prod(shape))
        a = np.array([rng.choice([0, 0, 1, 1, 2]) for _k in range(size)], "uint8").reshape(shape)
        b = np.array([rng.choice([0, 1, 1, 2]) for _k in range(size)], "uint8").reshape(shape)
        seq.append((a, b))
    return seq


def run_reuse(seq, bk, upto=None):
    """one approximator object fed the pairs of seq in order; every step judged against the model -> (step, violations) of the first bad step"""
    from panoptica import ConnectedComponentsInstanceApproximator
    approx = ConnectedComponentsInstanceApproximator(cca_backend=_backend(bk))
    for i, (a, b) in enumerate(seq if upto is None else seq[:upto + 1]):
        viol, dis, im, mo = evaluate(a.copy(), b.copy(), bk, approx)
        if viol or dis:
            return i, viol, dis
    return None, [], []


def reuse_layer(ctx):
    """the property holds for every call, not only the first one of an approximator object: one object per backend choice is fed
    pairs of mixed dimensionality (the default backend depends on the dimensionality of each input) and every output is judged
    by the proved checker exactly as in the main layers"""
    rng = ctx.rng
    for _ in range(ctx.scale(6, 40)):
        bk = rng.choice([None, None, "cc3d", "scipy"])
        seq = reuse_sequence(rng, rng.randint(3, 6))
        step, viol, dis = run_reuse(seq, bk)
        ctx.count({"reuse": True, "backend": bk, "seq": [[a.tolist(), b.tolist()] for a, b in seq]}, True)
        ctx.bump(f"reused approximator/{bk or 'default'}/dims " + "-".join(str(a.ndim) for a, _b in seq))
        if step is None:
            continue
        # shorten the history: the shortest suffix-preserving prefix that still fails at the same pair
        best = seq[:step + 1]
        for start in range(step, -1, -1):
            cand = seq[start:step + 1]
            st2, v2, d2 = run_reuse(cand, bk)
            if st2 == len(cand) - 1 and (v2 or d2) and len(cand) > 1:
                best = cand
                break
        rp = {"reuse": True, "backend": bk, "seq": [[a, b] for a, b in best]}
        if viol:
            ctx.violation(f"approximator object reused: call {len(best)} of one object (inputs of {'-'.join(str(a.ndim) for a, _b in best)} dimensions) "
                          "is not the connected-component labelling although a fresh object's is: " + "; ".join(v for _k, v in viol)[:300], rp)
        else:
            ctx.disagree("reused approximator", rp)
    ctx.layers.append({"layer": "reused approximator objects", "rule": "one object per backend choice, 3-6 pairs of mixed 1-3 dimensions, every call judged"})


def crop_layer(ctx):
    """instances of a pair that was cropped first (crop_data is public API and what evaluate() does) = instances of the pair itself:
    same counts, same foreground sizes, labels 1..n -- for maps embedded at an offset"""
    rng = ctx.rng
    for _ in range(ctx.scale(40, 400)):
        nd = rng.choice([1, 2, 3])
        shape = rand_shape(rng, nd)
        a = np.array([rng.choice([0, 0, 1, 1, 2]) for _ in range(int(np.prod(shape)))], "uint8").reshape(shape)
        b = a.copy()
        fl = b.reshape(-1)
        for _k in range(rng.randint(0, 3)):
            fl[rng.randrange(fl.size)] = rng.choice([0, 1, 2])
        pads = [(rng.randint(0, 6), rng.randint(0, 4)) for _k in range(nd)]
        pred, ref = np.pad(a, pads), np.pad(b, pads)
        bk = rng.choice([None, "cc3d", "scipy"])
        if not pred.any() or not ref.any():
            continue
        base = run_impl(pred.copy(), ref.copy(), bk)
        got = cropped_first(pred, ref, bk)
        ctx.count({"crop_first": True, "pred": pred.tolist(), "ref": ref.tolist(), "backend": bk}, True)
        ctx.bump(f"crop_data first/{nd}d/{bk or 'default'}")
        if base["status"] != "ok":
            continue
        want = {"n_pred": int(base["n_pred"]), "n_ref": int(base["n_ref"]), "fg_pred": int((pred != 0).sum()), "fg_ref": int((ref != 0).sum()),
                "labels_1_to_n": True}
        if got != want:
            ctx.violation("approximate_instances on a pair cropped with crop_data() differs from the uncropped pair: " +
                          ", ".join(f"{k}: {got.get(k)} vs {want[k]}" for k in want if got.get(k) != want[k]) + (" " + got["error"] if "error" in got else ""),
                          {"crop_first": True, "pred": pred, "ref": ref, "backend": bk, "observed": got, "expected": want})


def replay(path):
    d = json.loads(open(path).read())
    private_engine()
    if d.get("crop_first"):
        pred, ref = common.arr_from_json(d["pred"]), common.arr_from_json(d["ref"])
        base = run_impl(pred.copy(), ref.copy(), d["backend"])
        got = cropped_first(pred, ref, d["backend"])
        print("uncropped pair: n_pred =", base.get("n_pred"), "n_ref =", base.get("n_ref"), "foreground", int((pred != 0).sum()), int((ref != 0).sum()))
        print("crop_data() first:", got)
        ok = "error" not in got and got["n_pred"] == base.get("n_pred") and got["n_ref"] == base.get("n_ref") and \
            got["fg_pred"] == int((pred != 0).sum()) and got["fg_ref"] == int((ref != 0).sum()) and got["labels_1_to_n"]
        print("agree" if ok else "DIFFER")
        return 0 if ok else 1
    if d.get("reuse"):
        seq = [(common.arr_from_json(a), common.arr_from_json(b)) for a, b in d["seq"]]
        step, viol, dis = run_reuse(seq, d["backend"])
        print(f"one approximator object (backend {d['backend'] or 'default'}) fed {len(seq)} pairs of dimensions", [a.ndim for a, _b in seq])
        if step is None:
            print("every call is the connected-component labelling the model computes\nagree")
            return 0
        print(f"call {step + 1}: prediction map\n", seq[step][0], "\nreference map\n", seq[step][1])
        for _k, v in viol:
            print("VIOLATED:", v)
        for x in dis:
            print("DISAGREE:", x)
        fresh = evaluate(seq[step][0].copy(), seq[step][1].copy(), d["backend"])
        print("the same pair on a fresh object:", "agrees with the model" if not fresh[0] and not fresh[1] else "also differs")
        print("DIFFER")
        return 1
    if "large_shape" in d:
        shape = tuple(d["large_shape"])
        arr, boxes = block_map(shape, d["k"], d["seed"])
        ref = np.zeros(shape, np.uint8); ref[tuple(slice(0, 1) for _ in shape)] = 1
        im = run_impl(arr.copy(), ref, d["backend"])
        print(f"{d['k']} two-class boxes in a {shape} map, backend {d['backend'] or 'default'}")
        if im["status"] != "ok":
            print("implementation raised", im.get("exc"))
            return 1
        probs = large_problems(arr, boxes, im["pred"], im["n_pred"], d["backend"], len(shape))
        print("implementation: n =", im["n_pred"], "| problems:", probs)
        return 1 if probs else 0
    if "value" in d and "pred" not in d:       # dtype rule on a single value
        from panoptica.utils.numpy_utils import _get_smallest_fitting_uint
        v = int(d["value"])
        iw = np.dtype(_get_smallest_fitting_uint(v)).itemsize * 8
        mw = engine_run(503, [[3, v]])[0][1]
        print(f"_get_smallest_fitting_uint({v}): implementation uint{iw}, model uint{mw}, value fits: {0 <= v < 2 ** iw}")
        ok = iw == mw and 0 <= v < 2 ** iw
        print("agree" if ok else "DIFFER")
        return 0 if ok else 1
    pred, ref = common.arr_from_json(d["pred"]), common.arr_from_json(d["ref"])
    bk = d["backend"]
    viol, dis, im, mo = evaluate(pred.copy(), ref.copy(), bk)
    print("backend:", bk or "default", " dtype:", pred.dtype)
    print("prediction map:\n", pred, "\nreference map:\n", ref)
    print("implementation:", json.dumps(common.jsonable(describe(im))))
    if mo[0] == 0:
        print("model: prediction labelling", [l for _, l in mo[1][0]], "n =", mo[1][1], "| reference labelling",
              [l for _, l in mo[2][0]], "n =", mo[2][1], "| dtype uint%d" % mo[3])
    else:
        print("model: AssertionError (negative labels)")
    for _, v in viol:
        print("VIOLATED:", v)
    for x in dis:
        print("DISAGREE:", x)
    ok = not viol and not dis
    print("agree" if ok else "DIFFER")
    return 0 if ok else 1
