"""C08 -- zero-true-positive cases report exactly what the edge case handler prescribes."""
import itertools
import json
import math
from fractions import Fraction

import numpy as np

from harness import common, impl
from harness.common import engine_run, coq_crosscheck, unfval

TARGETS = ["theories/Props/C08.vo", "theories/Proofs/GenEq_EdgeCase.vo", "theories/Proofs/GenEq_ResultCalc.vo",
           "theories/Proofs/GenEq_ZeroCases.vo"]
GENEQ = {"theories/Proofs/GenEq_EdgeCase.vo": "EdgeCase", "theories/Proofs/GenEq_ResultCalc.vo": "ResultCalc",
         "theories/Proofs/GenEq_ZeroCases.vo": "ZeroCases"}
# T1 units added after round 4 of the seeded changes
TARGETS = TARGETS + ["theories/Proofs/GenEq_ResultInit.vo"]
GENEQ = dict(GENEQ, **{"theories/Proofs/GenEq_ResultInit.vo": "ResultInit"})
ALLOWED_AXIOMS = []
RULE = ("case = (handler table: 4 scenario entries in {INF,NAN,ZERO,ONE,NONE} per metric + empty-list value, input type, scenario input); "
        "thorough: all 5^4 tables x 5 std values (metrics varied in parallel by rotating the table) on one representative input per "
        "scenario and input type; quick: a seeded slice plus random inputs per scenario; non-trivial = table injective on the scenario "
        "or a >=1-TP handler-independence pair")
ASSUMPTIONS = [
    "instance counts of the scenario inputs are computed by the harness independently (unique labels; scipy.ndimage.label for semantic inputs)",
    "float means/std of non-empty lists are not involved here (tp = 0) except in the handler-independence pairs, compared NaN-aware and exactly",
]
TRUSTED = ["numpy/scipy/cc3d C code (modelled, not verified)"]
LEVEL_TEXT = ("Theorems in Props/C08.v quantify over every handler table, every empty-list value and all instance counts: the four scenarios are "
              "exhaustive and exclusive, a zero-TP result exists, has tp=0, fp/fn = instance counts, sq_m = the table entry of the scenario, "
              "sq_m_std = the empty-list value; with tp>0 the handler is irrelevant. Tied to the code by re-translating the dispatch, the value "
              "table, the default filling, the early-exit dispatch and the calculators from the AST each run (GenEq) and by correspondence "
              "through Panoptica_Evaluator.evaluate for all three input types (exhaustive over tables in the thorough tier).")
LEVEL_NOTE = ("Trusted: Coq kernel, translator, extraction+driver (cross-checked), harness conversions; numpy/scipy/cc3d modelled. "
              "Which inputs reach tp=0 through matching is covered by C01/C03's pipeline model; here the scenario inputs are constructed.")
TECHNIQUE = "machine-checked proof in Rocq (Coq) + AST re-translation (GenEq) + model/implementation correspondence (exhaustive over handler tables)"

SCEN = ["NO_INSTANCES", "EMPTY_PRED", "EMPTY_REF", "NORMAL"]
IM = ["DSC", "IOU", "ASSD", "RVD"]


def scenario_inputs(rng, itype, scen, random_shape=False):
    """(pred, ref) realising the scenario for the input type; instances are isolated boxes."""
    nd = rng.choice([1, 2, 3]) if random_shape else 2
    shape = tuple(rng.randint(6, 9) for _ in range(nd)) if random_shape else (6, 8)
    dt = "uint8" if itype != "semantic" else rng.choice(["uint8", "int16", "int64"]) if random_shape else "uint8"
    pred = np.zeros(shape, dt)
    ref = np.zeros(shape, dt)

    def put(a, where, lab):
        idx = [slice(0, 1)] * a.ndim
        idx[-1] = slice(where, where + 2)
        a[tuple(idx)] = lab
    if scen in ("EMPTY_REF", "NORMAL"):
        put(pred, 0, 1)
        if not random_shape or rng.random() < 0.5:
            put(pred, 3, 2 if itype != "semantic" else 1)
    if scen in ("EMPTY_PRED", "NORMAL"):
        # far from the prediction: no overlap, hence no match; for matched input use labels absent from pred
        idx = [slice(-1, None)] * ref.ndim
        idx[-1] = slice(shape[-1] - 2, shape[-1])
        # reference label values are arbitrary (sparse, not starting at 1): fresh labels of unmatched predictions must avoid them
        lab = 1 if itype == "semantic" else (5 if not random_shape else rng.choice([2, 3, 4, 5, 6] if itype == "unmatched" else [3, 4, 5, 6]))
        ref[tuple(idx)] = lab
    return pred, ref


def count_instances(a, itype):
    if itype != "semantic":
        return len([x for x in np.unique(a) if x != 0])
    from scipy.ndimage import label
    return int(label(a != 0, structure=np.ones((3,) * a.ndim))[1])  # isolated boxes: any connectivity agrees


def table_for(base, rot):
    """vary all metrics in parallel: metric i uses the base 4-tuple rotated through the value set"""
    return {m: [(v + i * rot) % 5 for v in base] for i, m in enumerate(impl.METRICS)}


def expected_value(idx):
    return {0: "inf", 1: "nan", 2: Fraction(0), 3: Fraction(1), 4: None}[idx]


def check_case(ctx, itype, scen, table, std, pred, ref, cache, ev=None, im=None, extra=None, decision=None):
    """ev: an evaluator built earlier with (table, std) (other handlers may have been constructed since); im: evaluated metrics;
    decision: (metric, threshold) no instance of the input passes"""
    im_ = im or IM
    cfg = {"input": itype, "imetrics": im_, "gmetrics": [], "table": table, "std": std}
    if decision is not None:
        cfg["dmetric"], cfg["dthr"] = decision
    if ev is None:
        ev = impl.make_evaluator(cfg)
    out = impl.evaluate(ev, pred.copy(), ref.copy())
    npi, nri = count_instances(pred, itype), count_instances(ref, itype)
    case = {"input": itype, "scenario": scen, "table": table, "std": std, "pred": pred, "ref": ref}
    if im is not None:
        case["imetrics"] = im
    if extra:
        case.update(extra)
    si = SCEN.index(scen)
    inj = len({table[m][k] for k in range(4) for m in [im_[0]]}) >= 3
    ctx.count({"input": itype, "scenario": scen, "table": table[im_[0]], "metrics": im_, "std": std}, nontrivial=inj)
    ctx.bump(f"{itype}/{scen}")
    if isinstance(out, tuple):
        ctx.violation("zero-TP evaluation raised", {**case, "observed": out})
        return None
    r = impl.canon_result(out["ungrouped"][0])
    bad = []
    if r.get("tp") != 0:
        bad.append(f"tp={r.get('tp')}")
    if r.get("fp") != npi or r.get("fn") != nri:
        bad.append(f"fp={r.get('fp')} fn={r.get('fn')} but instance counts are {npi}/{nri}")
    for m in im_:
        e = r["metrics"].get(m)
        if e is None:
            bad.append(f"{m} missing")
            continue
        if not impl.same_float(e.get("sq", "absent") if "sq" in e else None, expected_value(table[m][si])) or ("sq" not in e):
            bad.append(f"sq[{m}]={e.get('sq', 'absent')} expected {impl.ECR[table[m][si]]}")
        if "std" not in e or not impl.same_float(e["std"], expected_value(std)):
            bad.append(f"std[{m}]={e.get('std', 'absent')} expected {impl.ECR[std]}")
    if bad:
        ctx.violation("zero-TP result differs from the handler's prescription: " + "; ".join(bad[:4]), {**case, "observed": r})
    return (npi, nri, r)


def compare_model(ctx, recs):
    """full result dictionary against Model.Result.panoptica_result (engine op 801)"""
    ins = []
    for (itype, scen, table, std, npi, nri, r) in recs:
        ins.append([npi, nri, 0, [[impl.METRICS.index(m), []] for m in IM], impl.enc_handler(table, std)])
    outs = engine_run(801, ins)
    for rec, i, o in zip(recs, ins, outs):
        itype, scen, table, std, npi, nri, r = rec
        if o[0] != 0:
            ctx.disagree("Result", {"case": rec[:4], "model": o})
            continue
        mo = o[1]
        ok = (r.get("fp") == mo[3] and r.get("fn") == mo[4] and impl.same_float(r.get("rq"), unfval(mo[7])))
        ok = ok and (("prec" in r) == (len(mo[5]) == 1)) and (("rec" in r) == (len(mo[6]) == 1))
        for e in mo[8]:
            m = impl.METRICS[e[0]]
            ie = r["metrics"].get(m, {})
            ok = ok and impl.same_float(ie.get("sq"), unfval(e[1])) and impl.same_float(ie.get("std"), unfval(e[2]))
            if m in impl.PQ_KEY:
                ok = ok and (("pq" in ie) == (len(e[3]) == 1)) and (len(e[3]) == 0 or impl.same_float(ie.get("pq"), unfval(e[3][0])))
        if not ok:
            ctx.disagree("Result", {"case": [itype, scen, table, std, npi, nri], "implementation": r, "model": mo})
    return [(801, i, o) for i, o in zip(ins, outs)]


def run(ctx):
    common.serial_pool()
    rng = ctx.rng
    full = ctx.tier == "thorough"
    bases = list(itertools.product(range(5), repeat=4))
    if not full:
        bases = rng.sample(bases, ctx.scale(40, 0)) + [(0, 1, 2, 3), (4, 3, 2, 1), (1, 2, 2, 2)]
    recs = []
    reps = {(it, sc): scenario_inputs(rng, it, sc) for it in ("matched", "unmatched", "semantic") for sc in SCEN}
    for bi, base in enumerate(bases):
        for std in (range(5) if full else [rng.randrange(5)]):
            table = table_for(base, 1 + (bi % 4))
            for (it, sc), (pred, ref) in reps.items():
                res = check_case(ctx, it, sc, table, std, pred, ref, None)
                if res and (bi % 7 == 0 or not full):
                    recs.append((it, sc, table, std) + res)
    ctx.layers.append({"layer": "handler tables 5^4 x std 5 on representative inputs x 3 input types x 4 scenarios",
                       "tables": len(bases), "exhaustive": full})
    # random inputs per scenario (1-D..3-D, dtypes) with random tables
    for _ in range(ctx.scale(120, 1500)):
        it = rng.choice(["matched", "unmatched", "semantic"])
        sc = rng.choice(SCEN)
        table = {m: [rng.randrange(5) for _ in range(4)] for m in impl.METRICS}
        std = rng.randrange(5)
        pred, ref = scenario_inputs(rng, it, sc, random_shape=True)
        res = check_case(ctx, it, sc, table, std, pred, ref, None)
        if res:
            recs.append((it, sc, table, std) + res)
    # zero true positives because no matched pair passes the DECISION threshold (instances on both sides, overlapping, matched):
    # the NORMAL entry applies exactly as when nothing overlaps; thresholds at the end of the scale for either direction
    for _ in range(ctx.scale(40, 400)):
        it = rng.choice(["matched", "unmatched", "semantic"])
        table = {m: [rng.randrange(5) for _ in range(4)] for m in impl.METRICS}
        std = rng.randrange(5)
        w = rng.randint(8, 12)
        pred = np.zeros((3, w), np.uint8); ref = np.zeros((3, w), np.uint8)
        n = rng.randint(1, 2)
        for k in range(n):
            lab = 1 if it == "semantic" else k + 1
            a = rng.randint(2, 3)
            ref[2 * k, 1:1 + a] = lab
            pred[2 * k, 1:1 + a + rng.randint(1, 2)] = lab          # the prediction is larger: IoU >= 1/2, ASSD > 0, RVD > 0
        dm, thr = rng.choice([("IOU", 1.0), ("DSC", 1.0), ("ASSD", 0.0), ("RVD", 0.0), ("IOU", 0.95), ("ASSD", 0.01)])
        check_case(ctx, it, "NORMAL", table, std, pred, ref, None, decision=(dm, thr), extra={"decision": [dm, thr]})
    # several handlers alive at once (custom tables, tables that list exactly the evaluated metrics, default-constructed ones):
    # all evaluators of a batch are built FIRST and used afterwards in another order -- a handler's prescription must not
    # depend on which other handlers were constructed after it
    for _ in range(ctx.scale(12, 120)):
        batch = []
        for k in range(rng.randint(3, 6)):
            it = rng.choice(["matched", "unmatched", "semantic"])
            kind = rng.choice(["full", "exact", "default"])
            im = IM if kind != "exact" else rng.choice([["DSC", "IOU"], ["IOU"], ["DSC", "IOU", "ASSD"], ["RVD", "DSC"]])
            if kind == "default":
                table, std, tarb = {m: list(v) for m, v in impl.DEFAULT_TABLE.items()}, 1, None
            else:
                table = {m: [rng.randrange(5) for _ in range(4)] for m in (impl.METRICS if kind == "full" else im)}
                std, tarb = rng.randrange(5), table
            ev = impl.make_evaluator({"input": it, "imetrics": im, "gmetrics": [], "table": tarb, "std": std})
            batch.append((it, kind, im, table, std, ev))
        order = list(range(len(batch)))
        rng.shuffle(order)
        spec = [[b[0], b[1], b[2], b[3] if b[1] != "default" else None, b[4]] for b in batch]
        for j in order:
            it, kind, im, table, std, ev = batch[j]
            sc = rng.choice(SCEN)
            pred, ref = scenario_inputs(rng, it, sc)
            check_case(ctx, it, sc, table, std, pred, ref, None, ev=ev, im=im,
                       extra={"coexisting": spec, "index": j, "default_constructed": kind == "default"})
    # a single-instance class group whose label is missing in the prediction, the reference or both: the zero-instance scenarios
    # apply to it exactly as to any group (fp / fn are the instance counts 0 or 1, sq the handler's entry)
    from panoptica.utils.segmentation_class import SegmentationClassGroups
    from panoptica.utils.label_group import LabelGroup
    for _ in range(ctx.scale(18, 150)):
        it = rng.choice(["unmatched", "semantic", "matched"])
        sc = rng.choice(["NO_INSTANCES", "EMPTY_PRED", "EMPTY_REF"])
        table = {m: [rng.randrange(5) for _ in range(4)] for m in impl.METRICS}
        std = rng.randrange(5)
        shape = (6, 10)
        pred = np.zeros(shape, np.uint8); ref = np.zeros(shape, np.uint8)
        ref[4:6, 6:9] = 2; pred[4:6, 6:8] = 2                               # the other group always has a (matched) instance
        if sc in ("EMPTY_REF",):
            pred[0:2, 0:3] = 1
        if sc in ("EMPTY_PRED",):
            ref[0:2, 0:3] = 1
        groups = SegmentationClassGroups({"organ": LabelGroup(1, single_instance=True), "lesion": LabelGroup([2, 3])})
        cfg = {"input": it, "imetrics": IM, "gmetrics": [], "table": table, "std": std, "groups": groups}
        out = impl.evaluate(impl.make_evaluator(cfg), pred.copy(), ref.copy())
        case = {"input": it, "scenario": sc, "table": table, "std": std, "pred": pred, "ref": ref, "single_instance_group": True}
        ctx.count({"single_instance_group": sc, "input": it, "table": table["IOU"], "std": std}, True)
        ctx.bump(f"single-instance group/{it}/{sc}")
        if isinstance(out, tuple):
            ctx.violation("zero-TP evaluation of a single-instance group raised", {**case, "observed": out})
            continue
        r = impl.canon_result(out["organ"][0])
        si = SCEN.index(sc)
        npi, nri = int(sc == "EMPTY_REF"), int(sc == "EMPTY_PRED")
        bad = []
        if r.get("tp") != 0 or r.get("fp") != npi or r.get("fn") != nri:
            bad.append(f"tp={r.get('tp')} fp={r.get('fp')} fn={r.get('fn')} but the group has {npi} predicted / {nri} reference instance(s)")
        for m in IM:
            e = r["metrics"].get(m, {})
            if "sq" not in e or not impl.same_float(e.get("sq"), expected_value(table[m][si])):
                bad.append(f"sq[{m}]={e.get('sq', 'absent')} expected {impl.ECR[table[m][si]]}")
            if "std" not in e or not impl.same_float(e["std"], expected_value(std)):
                bad.append(f"std[{m}]={e.get('std', 'absent')} expected {impl.ECR[std]}")
        if bad:
            ctx.violation("single-instance group in a zero-TP scenario differs from the handler's prescription: " + "; ".join(bad[:4]), {**case, "observed": r})
    # default handler (constructed without arguments) on every scenario: ties Gen default table to behaviour
    for (it, sc), (pred, ref) in reps.items():
        res = check_case(ctx, it, sc, {m: list(v) for m, v in impl.DEFAULT_TABLE.items()}, 1, pred, ref, None)
        ev = impl.make_evaluator({"input": it, "imetrics": IM, "gmetrics": [], "table": None})
        out = impl.evaluate(ev, pred.copy(), ref.copy())
        if isinstance(out, tuple) or res is None or json.dumps(common.jsonable(impl.canon_result(out["ungrouped"][0])), sort_keys=True) != json.dumps(common.jsonable(res[2]), sort_keys=True):
            ctx.disagree("default handler table", {"input": it, "scenario": sc})
    # >= 1 TP: the handler has no influence
    for _ in range(ctx.scale(60, 600)):
        it = rng.choice(["matched", "unmatched"])
        pred, ref = impl.rand_pair(rng, dtype="uint8")
        t1 = {m: [rng.randrange(5) for _ in range(4)] for m in impl.METRICS}
        t2 = {m: [rng.randrange(5) for _ in range(4)] for m in impl.METRICS}
        o1 = impl.evaluate(impl.make_evaluator({"input": it, "imetrics": IM, "gmetrics": [], "table": t1, "std": rng.randrange(5)}), pred.copy(), ref.copy())
        o2 = impl.evaluate(impl.make_evaluator({"input": it, "imetrics": IM, "gmetrics": [], "table": t2, "std": rng.randrange(5)}), pred.copy(), ref.copy())
        if isinstance(o1, tuple) or isinstance(o2, tuple):
            continue
        r1, r2 = impl.canon_result(o1["ungrouped"][0]), impl.canon_result(o2["ungrouped"][0])
        if r1.get("tp", 0) >= 1:
            ctx.count({"kind": "handler-independence", "pred": pred.tolist(), "ref": ref.tolist()}, True)
            ctx.bump("tp>=1 pair")
            if json.dumps(common.jsonable(r1), sort_keys=True) != json.dumps(common.jsonable(r2), sort_keys=True):
                ctx.violation("with >= 1 true positive the result depends on the edge case handler",
                              {"input": it, "pred": pred, "ref": ref, "table1": t1, "table2": t2, "r1": r1, "r2": r2})
    triples = compare_model(ctx, recs)
    step = max(1, len(triples) // 60)
    n, bad = coq_crosscheck("C08", triples[::step][:80])
    ctx.crosschecked = n
    for b in bad:
        ctx.disagree("extraction-vs-vm_compute", triples[::step][b])
    ctx.exhaustive = full


def replay(path):
    common.serial_pool()
    d = json.loads(open(path).read())
    pred, ref = common.arr_from_json(d["pred"]), common.arr_from_json(d["ref"])
    cfg = {"input": d["input"], "imetrics": d.get("imetrics") or IM, "gmetrics": [], "table": d.get("table") or d.get("table1"), "std": d.get("std", 1)}
    if d.get("decision"):
        cfg["dmetric"], cfg["dthr"] = d["decision"]
        print("decision metric / threshold (no instance of this input passes it):", d["decision"])
    print("evaluate() options for this input:", impl.options_for(pred, ref))
    if d.get("single_instance_group"):
        from panoptica.utils.segmentation_class import SegmentationClassGroups
        from panoptica.utils.label_group import LabelGroup
        groups = SegmentationClassGroups({"organ": LabelGroup(1, single_instance=True), "lesion": LabelGroup([2, 3])})
        out = impl.evaluate(impl.make_evaluator({**cfg, "groups": groups}), pred, ref)
        if isinstance(out, tuple):
            print("evaluation raised:", out)
            return 1
        r = impl.canon_result(out["organ"][0])
        si = SCEN.index(d["scenario"])
        print("group organ:", {k: r.get(k) for k in ("tp", "fp", "fn")}, {m: r["metrics"].get(m, {}).get("sq") for m in IM})
        print("prescribed sq:", {m: impl.ECR[cfg["table"][m][si]] for m in IM})
        npi, nri = int(d["scenario"] == "EMPTY_REF"), int(d["scenario"] == "EMPTY_PRED")
        ok = r.get("tp") == 0 and r.get("fp") == npi and r.get("fn") == nri and all(
            impl.same_float(r["metrics"].get(m, {}).get("sq"), expected_value(cfg["table"][m][si])) for m in IM)
        return 0 if ok else 1
    if d.get("coexisting"):
        # rebuild the whole batch of handlers in the recorded order, then use the recorded one
        evs = [impl.make_evaluator({"input": it, "imetrics": im, "gmetrics": [], "table": tb, "std": sd}) for it, kind, im, tb, sd in d["coexisting"]]
        ev = evs[d["index"]]
        print(f"{len(evs)} evaluators with different handlers were constructed; using number {d['index']}"
              + (" (default-constructed)" if d.get("default_constructed") else ""))
    else:
        ev = impl.make_evaluator(cfg)
    out = impl.evaluate(ev, pred, ref)
    print("implementation:", out if isinstance(out, tuple) else common.jsonable(impl.canon_result(out["ungrouped"][0])))
    if "scenario" in d:
        si = SCEN.index(d["scenario"])
        print("prescribed sq:", {m: impl.ECR[cfg["table"][m][si]] for m in cfg["imetrics"]}, "std:", impl.ECR[cfg["std"]])
    ctx = common.Ctx("C08", "quick", 0)
    if "scenario" in d:
        check_case(ctx, d["input"], d["scenario"], cfg["table"], cfg["std"], pred, ref, None, ev=ev, im=d.get("imetrics"))
    print("violations:", [w for w, _ in ctx.violations])
    return 1 if ctx.violations else 0
