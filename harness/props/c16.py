"""C16 -- concurrent aggregation records every subject exactly once, intact.

Proof (Props/C16.v over Model/Aggregator.v): for ANY number of evaluate()/make_statistic() calls, ANY names and
ANY schedule: mutual exclusion, duplicate-free claims, rows subset of claims and duplicate-free, deadlock freedom,
a strictly decreasing measure (<= 8 steps per call), final rows = exactly the distinct submitted names with the
values of a submitted call, independence of the schedule, readers see complete rows.
T1: Gen/AggOps (lock/file instruction structure re-extracted from the AST) = the model's programs (GenEq_AggOps),
and the model's program counters are derived from those programs (C16_counters_from_instructions).
T2: harness/agg_sched.py drives the REAL Panoptica_Aggregator in real threads, one logical step at a time, through
enumerated / random schedules, compares both files with the model after every step, and evaluates the proved
oracles on the OBSERVED files."""
import json

from harness import common, agg_sched as A

TARGETS = ["theories/Props/C16.vo", "theories/Proofs/GenEq_AggOps.vo"]
GENEQ = {"theories/Proofs/GenEq_AggOps.vo": "AggOps"}
# T1 units added after round 4 of the seeded changes
TARGETS = TARGETS + ["theories/Proofs/GenEq_AggIO.vo"]
GENEQ = dict(GENEQ, **{"theories/Proofs/GenEq_AggIO.vo": "AggIO"})
ALLOWED_AXIOMS = []
OP = 1600
RULE = ("case = (initial rows, 2-4 evaluate()/make_statistic() calls with distinct or colliding subject names, schedule = list "
        "of call ids at the finest granularity: lock acquire / buffer read / claim write / release / evaluate / lock acquire / row "
        "write / release; a blocked call does not move); thorough: ALL interleavings of two calls (distinct, colliding, name already "
        "recorded, evaluate + statistics), seeded bursty random schedules for 3-4 calls, runs with a real Panoptica_Evaluator and the "
        "real Panoptica_Statistic loader, forked-process smoke runs; non-trivial = at least two context switches and (a blocked "
        "step, a colliding name, or > 12 steps)")
ASSUMPTIONS = [
    "one buffered append of a short row (open('a') ... write ... close) is atomic: the model appends a row in one step (C16_reader_sees_complete_rows and the crash theorems of C17 rest on it)",
    "multiprocessing.Lock provides mutual exclusion and is shared over fork: in the model a lock is held iff a program counter is inside the `with` block (tied to the source by T1); the harness replaces the two module-level locks by instrumented objects",
    "the model explores all interleavings of the LOGICAL steps; real pre-emption inside one step and fork inheritance are runtime behaviour outside the model (covered only by the forked-process smoke run that checks the final file)",
    "values of a row are abstracted to an input id; a row counts as intact when its text equals the text a sequential run writes for that input",
    "make_statistic on a header-only file raises IndexError inside Panoptica_Statistic.from_file (DESIGN O1): the reader is modelled by the file content it sees, not by the object built from it",
]
TRUSTED = ["harness/agg_sched.py: controlled scheduler (instrumented locks and file helpers installed in the module namespace at run time, no repository hook)",
           "python threading, csv, os (modelled, validated by this correspondence only)"]
LEVEL_TEXT = ("Theorems in Props/C16.v (Coq 8.16.1, closed under the global context) are proved by induction over the step relation of a "
              "transition system whose states are the two files and the program counters of arbitrarily many calls; they hold for every "
              "number of calls, every choice of names and every schedule. The system is tied to the code by re-extracting the lock/file "
              "instruction structure from the AST on every run (GenEq_AggOps) and by lock-step trace validation of the real code under a "
              "controlled scheduler, with the proved invariants evaluated on the observed files.")
LEVEL_NOTE = ("Trusted: Coq kernel; AST translator; extraction + driver (cross-checked by vm_compute); the scheduler harness; atomic row append "
              "and lock semantics are assumptions. Partial: genuine pre-emption / fork inheritance are only smoke-tested.")
TECHNIQUE = "machine-checked proof in Rocq (Coq) of a transition system + AST re-translation (GenEq) + trace validation under a controlled scheduler"


def comp(calls, init="absent", rows=None):
    return {"file": "a.tsv", "init": init, "init_rows": rows or [], "ready": True, "calls": calls}


def scen(calls, sched, init="absent", rows=None):
    return {"comps": [comp(calls, init, rows)], "events": [[0, 0, i] for i in sched], "complete": True}


TWO_CALL_CONFIGS = [
    ("2 calls, distinct names", [["e", "s1", 3], ["e", "s2", 4]], "absent", None, [9, 9]),
    ("2 calls, colliding name", [["e", "s1", 3], ["e", "s1", 3]], "absent", None, [9, 9]),
    ("2 calls, colliding name that the tsv writer quotes", [["e", 'q"1', 3], ["e", 'q"1', 3]], "absent", None, [9, 9]),
    ("2 calls, one name already recorded", [["e", "s0", 1], ["e", "s2", 4]], "rows", [["s0", 1], ["s9", 2]], [9, 9]),
    ("evaluate + make_statistic", [["e", "s1", 3], ["s"]], "rows", [["s0", 1]], [9, 3]),
    ("evaluate + make_statistic, colliding evaluate", [["e", "s0", 1], ["s"]], "rows", [["s0", 1]], [4, 3]),
]


def random_case(rng, max_calls=4):
    n = rng.randint(3, max_calls)
    # names the tsv writer has to quote (double quote, tab, newline) are ordinary subject names too
    pool = ["s1", "s2", "s3", "subject_name", 'q"1', "t\tb", "n\nl"]
    inp = {"s1": 3, "s2": 4, "s3": 5, "subject_name": 6, "s0": 1, "s9": 2, 'q"1': 4, "t\tb": 5, "n\nl": 3}
    calls = []
    for _ in range(n):
        if rng.random() < 0.2:
            calls.append(["s"])
        else:
            nm = rng.choice(pool + ["s0"])
            calls.append(["e", nm, inp[nm]])
    init = rng.choice(["absent", "empty", "header", "rows", "rows"])
    rows = [["s0", 1], ["s9", 2]][: rng.randint(1, 2)] if init == "rows" else None
    return scen(calls, A.random_schedule(rng, n, 9 * n + rng.randint(0, 6)), init, rows)


def run(ctx):
    rng = ctx.rng
    full = ctx.tier == "thorough"
    triples = []
    # ---- corpus
    cdir = common.VERIF / "corpus" / "C16"
    corpus = [json.loads(f.read_text()) for f in sorted(cdir.glob("*.json"))] if cdir.exists() else []
    for kind in ("stub", "real"):
        cs = [d["scenario"] for d in corpus if d.get("evaluator", "stub") == kind]
        if cs:
            A.record(ctx, cs, A.parallel_check(cs, real=(kind == "real"), nproc=1, op_base=OP), "corpus", kind == "real", triples)
    # ---- two calls, finest granularity
    for label, calls, init, rows, counts in TWO_CALL_CONFIGS:
        allsched = list(A.interleavings(counts))
        if not full and len(allsched) > ctx.scale(350, 0):
            allsched = rng.sample(allsched, ctx.scale(350, 0))
        scens = [scen(calls, s, init, rows) for s in allsched]
        vs = A.parallel_check(scens, op_base=OP)
        A.record(ctx, scens, vs, label, False, triples)
        ctx.layers.append({"layer": label + ", finest granularity", "schedules": len(scens),
                           "exhaustive": full or len(scens) == len(list(A.interleavings(counts)))})
    # ---- 3-4 calls, random schedules
    scens = [random_case(rng) for _ in range(ctx.scale(300, 6000))]
    A.record(ctx, scens, A.parallel_check(scens, op_base=OP), "3-4 calls, random schedules", False, triples)
    ctx.layers.append({"layer": "3-4 calls (evaluate / make_statistic, colliding names, all initial file states), seeded random schedules",
                       "schedules": len(scens), "exhaustive": False})
    # ---- real evaluator + real statistics loader
    scens = []
    for _ in range(ctx.scale(40, 400)):
        sc = random_case(rng, 3)
        sc["real_stat"] = True
        scens.append(sc)
    # make_statistic while the table has no complete row yet (the real loader raises there: O1), then further calls: an exception
    # inside a locked region must leave the locks free -- no later call may block forever
    for init in ("absent", "empty", "header"):
        for calls in ([["s"], ["e", "s1", 3], ["e", "s2", 4]], [["e", "s1", 3], ["s"], ["s"]], [["s"], ["s"], ["e", "s1", 3]]):
            for _k in range(ctx.scale(2, 10)):
                sc = scen(calls, A.random_schedule(rng, 3, 30), init, None)
                sc["real_stat"] = True
                sc["complete"] = True
                scens.append(sc)
    A.record(ctx, scens, A.parallel_check(scens, real=True, op_base=OP), "real Panoptica_Evaluator on 2x2 arrays", True, triples)
    ctx.layers.append({"layer": "real Panoptica_Evaluator (2x2 arrays) + real Panoptica_Statistic.from_file", "schedules": len(scens),
                       "exhaustive": False})
    # ---- forked processes, final file only
    n_smoke = ctx.scale(1, 5)
    for _ in range(n_smoke):
        jobs, kk, lines, seq, rep = A.fork_smoke(rng)
        case = {"fork_smoke_jobs": jobs}
        ctx.count(case, True)
        ctx.bump("forked processes (final file only)")
        ok = lines is not None and seq is not None and lines[:1] == seq[:1] and sorted(map(tuple, lines[1:])) == sorted(map(tuple, seq[1:])) \
            and '"alive": [false' in rep.replace("False", "false") and "true" not in rep.lower().split('"codes"')[0]
        if ok:
            # the proved final-state oracle on the observed file
            hdr = {tuple(seq[0]): 7}
            rid = {tuple(r[1:]): i + 1 for i, r in enumerate(seq[1:])}
            sub = [[A.enc_name(r[0]), rid[tuple(r[1:])]] for r in seq[1:]]
            res = common.engine_run(OP + 2, [[[3, 7, [], sub, A.enc_file_lines(lines, hdr, rid)]]], nproc=1)[0]
            ok = res == [1]
        if not ok:
            ctx.violation("forked worker processes: final file differs from a sequential run (or a worker did not return)",
                          {"fork_smoke": True, "jobs": jobs, "inputs": kk, "file": lines, "sequential": seq, "processes": rep})
    ctx.layers.append({"layer": "forked worker processes on the unmodified module, final file = sequential run", "runs": n_smoke,
                       "exhaustive": False})
    # ---- forked processes, barrier-synchronised rounds with colliding names, both values of continue_file
    n_rounds = ctx.scale(4, 24)
    for i in range(n_rounds):
        case = A.fork_rounds_case(rng)
        case["continue_file"] = bool(i % 2)
        lines, seq, rep = A.fork_rounds_run(case)
        ctx.count({"fork_rounds": case}, True)
        ctx.bump(f"forked processes, synchronised rounds, continue_file={case['continue_file']}")
        probs = A.fork_rounds_problems(lines, seq, rep)
        if probs:
            ctx.violation("forked worker processes submitting colliding names at the same moment: " + "; ".join(probs[:3]),
                          {"fork_rounds": case, "file": lines, "sequential": seq, "processes": rep})
    ctx.layers.append({"layer": "forked worker processes, barrier-synchronised rounds with colliding names (continue_file True/False)",
                       "runs": n_rounds, "exhaustive": False})
    # ---- free-running threads sharing one aggregator and a real evaluator with class groups + decision threshold
    n_thr = ctx.scale(2, 8)
    for i in range(n_thr):
        lines, seq, rep = A.thread_smoke()
        ctx.count({"thread_smoke": i}, True)
        ctx.bump("free-running threads, real evaluator with groups (final file only)")
        probs = A.thread_smoke_problems(lines, seq, rep)
        if probs:
            ctx.violation("worker threads sharing one aggregator: " + "; ".join(probs[:3]),
                          {"thread_smoke": True, "file": lines, "sequential": seq, "threads": rep})
            break
    ctx.layers.append({"layer": "free-running threads on one aggregator, real evaluator with class groups (single-instance + plain) and a decision "
                                "threshold, rows = sequential run", "runs": n_thr, "exhaustive": False})
    # ---- the same with colliding names: every worker submits every name (barrier per name) on a slow disk (files take a few ms to close)
    n_col = ctx.scale(2, 4)
    for i in range(n_col):
        lines, seq, rep = A.thread_smoke(n_workers=4, n_subjects=8, collide=True)
        ctx.count({"thread_collide": i}, True)
        ctx.bump("free-running threads, every worker submits every name, slow file close")
        probs = A.thread_smoke_problems(lines, seq, rep)
        if probs:
            ctx.violation("worker threads submitting the same names at the same moment: " + "; ".join(probs[:3]),
                          {"thread_smoke": True, "collide": True, "file": lines, "sequential": seq, "threads": rep})
            break
    ctx.layers.append({"layer": "free-running threads, every worker submits every name at a barrier, file objects of the aggregator module close slowly "
                                "(3 ms): one row per name, rows = sequential run", "runs": n_col, "exhaustive": False})
    # ---- one aggregator, submissions nested in time: an evaluation that RAISES (or is interrupted) while other submissions complete
    #      inside its window, then the same names again -- every 4-step history over two names, compared step by step with the
    #      sequential model of Model/AggHistory.v (no second session here: that is C17)
    import itertools
    steps = [[k, 0, n] for k in ("ok", "die") for n in ("s1", "s2")] + [["fail", 0, "failing", [[k, 0, n]]] for k in ("ok", "die") for n in ("s1", "s2")]
    hcases = [{"history_case": True, "subjects": ["s1", "s2"], "history": json.loads(json.dumps(list(h))), "file": "a.tsv", "sibling": "b.tsv"}
              for h in itertools.product(steps, repeat=3 if not full else 4) if sum(1 for st in h if st[0] == "fail") in (1, 2)]
    for c in hcases:
        for k, st in enumerate(c["history"]):
            if st[0] == "fail":
                st[2] = f"failing{k}"            # the failing subject of every such step is a name nobody else submits
    hres = A.history_run(hcases)
    hmod = common.engine_run(1704, [A.history_model_input(c) for c in hcases])
    n_bad = 0
    for case, res, mo in zip(hcases, hres, hmod):
        ctx.count(case, True)
        ctx.bump("nested submissions on one aggregator (failing / interrupted evaluations)")
        dd = A.history_trace_differs(case, res, mo)
        if dd and n_bad < 3:
            ctx.disagree("nested submissions: files after a step differ from Model/AggHistory.v", dict(case, differs=dd))
        probs = A.history_problems(case, res)
        if probs and n_bad < 5:
            n_bad += 1
            ctx.violation("submissions nested inside a failing evaluation on one aggregator: " + "; ".join(probs[:3]), dict(case, result=res))
    ctx.layers.append({"layer": "every history of %d steps (submit / interrupted submit / failing evaluation with a submission inside its window) "
                                "on one aggregator, two names" % (3 if not full else 4), "cases": len(hcases), "exhaustive": True})
    # ---- extraction cross-check
    n, bad = common.coq_crosscheck("C16", triples[:60])
    ctx.crosschecked = n
    for b in bad:
        ctx.disagree("extraction-vs-vm_compute", triples[b])
    ctx.exhaustive = full
    ctx.notes["granularity"] = "evaluate(): acquire E, read buffer, [duplicate: release+return] | write claim, release E, evaluate, acquire F, write row, release F"
    ctx.notes["observations"] = ("O1: make_statistic on a header-only file raises IndexError in Panoptica_Statistic.from_file (not claimed); "
                                 "a subject literally named 'subject_name' is recorded (D13 fixed) and is part of the random name pool")


def replay(path):
    d = json.loads(open(path).read())
    if d.get("history_case"):
        from harness.props import c17
        return c17.replay_history(d)
    if d.get("fork_rounds"):
        # real processes: not deterministic, so the recorded rounds are run several times
        rc = 0
        for attempt in range(4):
            lines, seq, rep = A.fork_rounds_run(d["fork_rounds"])
            probs = A.fork_rounds_problems(lines, seq, rep)
            print(f"attempt {attempt + 1}: continue_file={d['fork_rounds']['continue_file']} ->", probs or "final file equals a sequential run")
            rc |= bool(probs)
        return rc
    if d.get("thread_smoke"):
        rc = 0
        for attempt in range(3):
            lines, seq, rep = A.thread_smoke(n_workers=4, n_subjects=8, collide=True) if d.get("collide") else A.thread_smoke()
            probs = A.thread_smoke_problems(lines, seq, rep)
            print(f"attempt {attempt + 1}:", probs or "rows equal a sequential run")
            rc |= bool(probs)
        return rc
    if d.get("fork_smoke"):
        print("forked-process smoke run (not deterministic); recorded final file:", d.get("file"))
        print("sequential run:", d.get("sequential"))
        return 1
    return A.replay_file(path, OP)
