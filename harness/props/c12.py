"""C12 -- class groups are evaluated independently and completely."""
import json

import numpy as np

from harness import common, impl, meta
from harness.props.c02 import gen_cfg

TARGETS = ["theories/Props/C12.vo", "theories/Proofs/GenEq_Groups.vo"]
GENEQ = {"theories/Proofs/GenEq_Groups.vo": "Groups"}
# units added to the cone after round 2 of the seeded changes (a refused / changed unit must be noticed by this check too)
TARGETS = TARGETS + ["theories/Proofs/GenEq_EvalSM.vo"]
GENEQ = dict(GENEQ, **{"theories/Proofs/GenEq_EvalSM.vo": "EvalSM"})
ALLOWED_AXIOMS = []
RULE = ("implementation-vs-implementation: evaluate with SegmentationClassGroups vs evaluate WITHOUT groups on the two arrays restricted to the "
        "group's labels (binarised for a merge group; as matched input, one instance, no decision filtering for a single-instance group); random "
        "partitions of {1..6} into plain / merge / single-instance groups, all input types; interference test: change voxels of other groups "
        "and require the group's result to stay identical; malformed stream: a non-zero label outside all groups must raise; non-trivial = "
        ">= 2 groups with instances in both arrays")
ASSUMPTIONS = ["the ungrouped evaluation used as oracle is the same implementation (its own correctness is C01)"]
TRUSTED = ["numpy C code (modelled, not verified)"]
LEVEL_TEXT = ("Props/C12.v: label extraction keeps exactly the voxels whose label belongs to the group (binarised for merge groups), is idempotent, "
              "and two inputs that agree on every voxel carrying a label of the group in either have the same extraction -- so the group's result, "
              "a function of the extraction alone, cannot depend on voxels of other groups; an input with a non-zero label outside every group is "
              "rejected (Err), never evaluated. The per-group dispatch (single-instance shortcut, forced decision threshold, undefined-label check) "
              "is re-translated from the AST each run (GenEq_Groups).")
LEVEL_NOTE = "Trusted: Coq kernel, translator, harness. The oracle for group results is the ungrouped implementation."
TECHNIQUE = "machine-checked proof in Rocq (Coq) (non-interference of label extraction) + AST re-translation + implementation-vs-implementation correspondence"


def make_groups(rng):
    from panoptica.utils.segmentation_class import SegmentationClassGroups
    from panoptica.utils.label_group import LabelGroup, LabelMergeGroup
    labels = list(range(1, 7))
    rng.shuffle(labels)
    groups, spec = {}, {}
    i = 0
    gi = 0
    while i < len(labels):
        k = rng.randint(1, 3)
        ls = sorted(labels[i:i + k])
        i += k
        kind = rng.choice(["plain", "plain", "merge", "single"] if len(ls) == 1 else ["plain", "plain", "merge"])
        name = f"g{gi}"
        if "ungrouped" not in spec and rng.random() < 0.15:
            name = "ungrouped"                      # an ordinary user-chosen name (also the library's own key for "no groups")
        gi += 1
        given = list(ls)
        if kind != "single" and rng.random() < 0.25:
            # the label list as a user may write it: repeated entries, any order (the group is the SET of its labels)
            given = given + [rng.choice(ls) for _ in range(rng.randint(1, 2))]
            rng.shuffle(given)
        if kind == "plain":
            groups[name] = LabelGroup(given)
        elif kind == "merge":
            groups[name] = LabelMergeGroup(given)
        else:
            groups[name] = LabelGroup(given, single_instance=True)
        spec[name] = (kind, ls)
    return SegmentationClassGroups(groups), spec


def make_groups_wide(rng):
    """a scheme defined over a label space wider than the arrays' dtype: some groups also list labels >= 256 whose low byte
    equals a label of ANOTHER group (they select nothing in a uint8 array; they must not alias by wrap-around)"""
    from panoptica.utils.segmentation_class import SegmentationClassGroups
    from panoptica.utils.label_group import LabelGroup, LabelMergeGroup
    _, spec = make_groups(rng)
    names = list(spec)
    if len(names) >= 2:
        for _ in range(rng.randint(1, 2)):
            a, b = rng.sample(names, 2)
            alias = 256 * rng.randint(1, 3) + rng.choice(spec[b][1])
            if spec[a][0] != "single":
                spec[a] = (spec[a][0], sorted(set(spec[a][1] + [alias])))
    groups = {}
    for n, (kind, ls) in spec.items():
        groups[n] = LabelGroup(ls) if kind == "plain" else LabelMergeGroup(ls) if kind == "merge" else LabelGroup(ls, single_instance=True)
    return SegmentationClassGroups(groups), spec


def restrict(a, ls, binar):
    out = np.where(np.isin(a, ls), a, 0).astype(a.dtype)
    if binar:
        out[out != 0] = 1
    return out


def d18_witness(ctx):
    """single-instance group + decreasing decision metric: the instance must still count (forced threshold must let it pass)."""
    from panoptica.utils.segmentation_class import SegmentationClassGroups
    from panoptica.utils.label_group import LabelGroup
    ref = np.zeros((4, 6), np.uint8); ref[1:3, 1:5] = 6
    pred = np.zeros((4, 6), np.uint8); pred[1:3, 1:4] = 6
    for dm, dthr in (("ASSD", 100.0), ("RVD", 5.0), ("IOU", 0.99)):
        cfg = {"input": "unmatched", "matcher": "naive", "mmetric": "IOU", "mthr": 0.5, "imetrics": ["IOU", "ASSD", "RVD"], "gmetrics": [],
               "dmetric": dm, "dthr": dthr, "groups": SegmentationClassGroups({"g": LabelGroup([6], single_instance=True)})}
        out = impl.evaluate(impl.make_evaluator(cfg), pred.copy(), ref.copy())
        ctx.count({"corpus": "D18", "dm": dm}, True)
        if isinstance(out, tuple) or impl.canon_result(out["g"][0]).get("tp") != 1:
            ctx.violation(f"single-instance group with decision metric {dm}: the instance was filtered out or the evaluation raised",
                          {"cfg": {k: v for k, v in cfg.items() if k != "groups"}, "groups": {"g": ["single", [6]]}, "pred": pred, "ref": ref,
                           "observed": out if isinstance(out, tuple) else impl.canon_result(out["g"][0])})


def run(ctx):
    common.serial_pool()
    rng = ctx.rng
    d18_witness(ctx)
    for _ in range(ctx.scale(250, 2500)):
        it = rng.choice(["matched", "unmatched", "semantic"])
        nd = rng.choice([1, 2, 3])
        shape = tuple(rng.randint(2, 6) for _ in range(nd))
        dt = "uint8" if it != "semantic" else rng.choice(["uint8", "int16"])
        ref = np.array([rng.choice([0, 0, 1, 2, 3, 4, 5, 6]) for _ in range(int(np.prod(shape)))], dtype=dt).reshape(shape)
        pred = ref.copy()
        flat = pred.reshape(-1)
        for _ in range(rng.randint(0, 5)):
            flat[rng.randrange(flat.size)] = rng.choice([0, 1, 2, 3, 4, 5, 6])
        groups, spec = make_groups(rng) if (dt != "uint8" or rng.random() < 0.7) else make_groups_wide(rng)
        if rng.random() < 0.12:
            # a scheme with MANY labels per group spread over a wide id range (anatomical atlases), on a small array; the array's
            # labels repeat (a label map is not a set), some labels of each group are absent
            from panoptica.utils.segmentation_class import SegmentationClassGroups
            from panoptica.utils.label_group import LabelGroup, LabelMergeGroup
            dt = "uint16"
            ga = sorted(rng.sample(range(1, 40), 21) + [2000 + rng.randint(0, 50)])
            gb = sorted(set(rng.sample(range(50, 400), 12) + [3000]) - set(ga))
            kinds = [rng.choice(["plain", "merge"]), rng.choice(["plain", "plain", "merge"])]
            spec = {"atlas_a": (kinds[0], ga), "atlas_b": (kinds[1], gb)}
            groups = SegmentationClassGroups({n: (LabelGroup(ls) if k == "plain" else LabelMergeGroup(ls)) for n, (k, ls) in spec.items()})
            pool = [0, 0] + rng.sample(ga, 3) + rng.sample(gb, 3)
            shape = (rng.randint(6, 12), rng.randint(6, 12))
            ref = np.array([rng.choice(pool) for _ in range(shape[0] * shape[1])], dtype=dt).reshape(shape)
            pred = ref.copy()
            flat = pred.reshape(-1)
            for _k in range(rng.randint(0, 6)):
                flat[rng.randrange(flat.size)] = rng.choice(pool)
            if it == "semantic":
                it = "unmatched"
        cfg = gen_cfg(rng, it)
        if rng.random() < 0.35:
            # a decision threshold that imperfect instances fail (the filter must act in every group but a single-instance one,
            # whatever kind of group was evaluated before it)
            if "IOU" not in cfg["imetrics"]:
                cfg["imetrics"] = cfg["imetrics"] + ["IOU"]
            cfg["dmetric"], cfg["dthr"] = "IOU", rng.choice([0.6, 0.8, 1.0])
            if it != "matched":
                cfg["matcher"], cfg["m2o"], cfg["mmetric"], cfg["mthr"] = "naive", False, "IOU", rng.choice([0.1, 0.3])
        cfg["groups"] = groups
        cfgj = {k: v for k, v in cfg.items() if k != "groups"}
        out = impl.evaluate(impl.make_evaluator(cfg), pred.copy(), ref.copy())
        ctx.count({"cfg": cfgj, "groups": spec, "pred": pred.tolist(), "ref": ref.tolist()}, len(spec) >= 2)
        ctx.bump(f"{it}/groups={len(spec)}")
        case = {"cfg": cfgj, "groups": spec, "pred": pred, "ref": ref}
        results = {}
        for name, (kind, ls) in spec.items():
            cfg_u = dict(cfgj)
            p_g, r_g = restrict(pred, ls, kind == "merge"), restrict(ref, ls, kind == "merge")
            if kind == "single" and it != "matched":
                cfg_u["input"] = "matched"
                for k in ("matcher", "m2o", "mmetric", "mthr", "backend"):
                    cfg_u.pop(k, None)
                if cfg_u.get("dmetric") is not None:
                    cfg_u["dthr"] = 0.0 if cfg_u["dmetric"] != "ASSD" else float("inf")   # "no decision filtering"
            o_u = impl.evaluate(impl.make_evaluator(cfg_u), p_g, r_g)
            results[name] = o_u
        if isinstance(out, tuple):
            if not any(isinstance(o, tuple) and o[1] == out[1] for o in results.values()):
                ctx.violation("grouped evaluation raised although no group's own evaluation raises: " + str(out[1:]), {**case, "observed": out})
            continue
        if set(out.keys()) != set(spec.keys()):
            ctx.violation(f"groups reported {sorted(out.keys())} but defined {sorted(spec.keys())}", case)
            continue
        for name, o_u in results.items():
            if isinstance(o_u, tuple):
                ctx.violation(f"group {name}: ungrouped evaluation of the restricted arrays raises {o_u[1:]} but the grouped one returned a result", {**case, "group": name})
                continue
            d = meta.same_outcome({"ungrouped": out[name]}, o_u)
            if d:
                ctx.violation(f"group {name} ({spec[name][0]} {spec[name][1]}) differs from the evaluation of the restricted arrays: " + d, {**case, "group": name})
        # non-interference: rewrite voxels of OTHER groups only
        name = rng.choice(list(spec))
        ls = spec[name][1]
        others = [l for l in range(1, 7) if l not in ls]
        if others:
            p2, r2 = pred.copy(), ref.copy()
            for arr in (p2, r2):
                fl = arr.reshape(-1)
                idx = [i for i in range(fl.size) if fl[i] not in ls]
                for i in rng.sample(idx, min(len(idx), 3)):
                    fl[i] = rng.choice(others + [0])
            out2 = impl.evaluate(impl.make_evaluator(cfg), p2, r2)
            if not isinstance(out2, tuple):
                d = meta.same_outcome({"ungrouped": out[name]}, {"ungrouped": out2[name]})
                if d:
                    ctx.violation(f"voxels of other groups influenced group {name}: " + d, {**case, "group": name, "pred2": p2, "ref2": r2})
        # malformed stream 2: arrays WITHOUT background whose smallest / largest label belongs to no group
        if rng.random() < 0.25:
            from panoptica.utils.segmentation_class import SegmentationClassGroups
            from panoptica.utils.label_group import LabelGroup
            gl = sorted(rng.sample(range(2, 7), 3))
            g2 = SegmentationClassGroups({"a": LabelGroup(gl[:2]), "b": LabelGroup(gl[2:])})
            undefined = rng.choice([1, 7, min(set(range(1, 8)) - set(gl))])
            full = np.array([rng.choice(gl) for _ in range(pred.size)], dtype=pred.dtype).reshape(pred.shape)
            badarr = full.copy()
            badarr.reshape(-1)[rng.randrange(badarr.size)] = undefined
            cfg2 = dict(cfg); cfg2["groups"] = g2
            which = rng.choice(["pred", "ref"])
            o_bad = impl.evaluate(impl.make_evaluator(cfg2), badarr if which == "pred" else full.copy(), full.copy() if which == "pred" else badarr)
            ctx.bump("malformed-no-background")
            if not isinstance(o_bad, tuple):
                ctx.violation(f"input without background voxels containing label {undefined} that belongs to no group was evaluated instead of rejected",
                              {**case, "groups": {"a": ["plain", gl[:2]], "b": ["plain", gl[2:]]}, "bad_array": which, "bad": badarr, "full": full})
        # malformed stream: two group names that collide in the scheme's (case-insensitive, string) namespace: only the later group
        # exists, so the labels of the earlier one belong to no group and input containing them must be rejected
        if rng.random() < 0.15:
            from panoptica.utils.segmentation_class import SegmentationClassGroups
            from panoptica.utils.label_group import LabelGroup
            n1, n2 = rng.choice([("Lesion", "lesion"), ("kidney_L", "kidney_l"), (1, "1"), ("A", "a")])
            gc = SegmentationClassGroups({n1: LabelGroup([1, 2]), n2: LabelGroup([3]), "rest": LabelGroup([4, 5, 6])})
            arr = np.array([rng.choice([0, 3, 4, 5]) for _ in range(pred.size)], dtype=pred.dtype).reshape(pred.shape)
            badarr = arr.copy()
            badarr.reshape(-1)[rng.randrange(badarr.size)] = rng.choice([1, 2])
            cfg3 = dict(cfg); cfg3["groups"] = gc
            which = rng.choice(["pred", "ref"])
            o_bad = impl.evaluate(impl.make_evaluator(cfg3), badarr if which == "pred" else arr.copy(), arr.copy() if which == "pred" else badarr)
            ctx.bump("malformed-colliding-names")
            if not isinstance(o_bad, tuple):
                ctx.violation(f"groups {n1!r} and {n2!r} collide (only the later exists: {sorted(o_bad.keys())}); input with a label of the dropped "
                              "group was evaluated instead of rejected",
                              {"cfg": cfgj, "colliding_names": [str(n1), str(n2)], "int_key": isinstance(n1, int), "bad_array": which, "bad": badarr, "full": arr})
        # malformed stream: a label outside all groups must be rejected
        if rng.random() < 0.3:
            alien = next(l for l in (9, 10, 11, 7, 8, 250, 251) if all(l not in ls_ for _, ls_ in spec.values()))
            bad_p = pred.copy()
            if cfg.get("input") == "semantic" and rng.random() < 0.6:
                # a NEGATIVE label in a signed map (an "ignore" label such as -1): it belongs to no group either
                top = max([l for _, ls_ in spec.values() for l in ls_] + [1])
                alien = rng.choice([-1, -1, -2, -top, -(top + 1), -rng.randint(1, top + 1)])
                bad_p = bad_p.astype(rng.choice(["int8", "int16", "int32", "int64"]))
            bad_p.reshape(-1)[rng.randrange(bad_p.size)] = alien
            which = rng.choice(["pred", "ref"])
            o_bad = impl.evaluate(impl.make_evaluator(cfg), bad_p if which == "pred" else pred.copy(),
                                  ref.copy() if which == "pred" else (bad_p if alien < 0 else bad_p.astype(ref.dtype)))
            ctx.bump("malformed" + ("-negative" if alien < 0 else ""))
            if not isinstance(o_bad, tuple):
                ctx.violation(f"input with a label ({alien}) that belongs to no group was evaluated instead of rejected", {**case, "bad_array": which, "bad": bad_p})


def groups_from_spec(spec):
    from panoptica.utils.segmentation_class import SegmentationClassGroups
    from panoptica.utils.label_group import LabelGroup, LabelMergeGroup
    groups = {}
    for n, (kind, ls) in spec.items():
        groups[n] = LabelGroup(ls) if kind == "plain" else LabelMergeGroup(ls) if kind == "merge" else LabelGroup(ls, single_instance=True)
    return SegmentationClassGroups(groups)


def replay(path):
    common.serial_pool()
    d = json.loads(open(path).read())
    if "colliding_names" in d:
        from panoptica.utils.segmentation_class import SegmentationClassGroups
        from panoptica.utils.label_group import LabelGroup
        n1, n2 = d["colliding_names"]
        if d.get("int_key"):
            n1 = int(n1)
        gc = SegmentationClassGroups({n1: LabelGroup([1, 2]), n2: LabelGroup([3]), "rest": LabelGroup([4, 5, 6])})
        bad, full = common.arr_from_json(d["bad"]), common.arr_from_json(d["full"])
        o = impl.evaluate(impl.make_evaluator({**d["cfg"], "groups": gc}), bad if d["bad_array"] == "pred" else full, full if d["bad_array"] == "pred" else bad)
        print("groups that exist:", list(gc.keys()) if hasattr(gc, "keys") else "?", "| evaluation:", o[:2] if isinstance(o, tuple) else "returned results for " + str(sorted(o.keys())))
        return 0 if isinstance(o, tuple) else 1
    if "groups" not in d or "cfg" not in d:
        print("case:", json.dumps(d)[:600])
        return 1
    spec = {n: (k, ls) for n, (k, ls) in d["groups"].items()}
    pred, ref = common.arr_from_json(d["pred"]), common.arr_from_json(d["ref"])
    cfgj = d["cfg"]
    it = cfgj["input"]
    out = impl.evaluate(impl.make_evaluator({**cfgj, "groups": groups_from_spec(spec)}), pred.copy(), ref.copy())
    if isinstance(out, tuple):
        print("grouped evaluation raised:", out)
        return 1
    rc = 0
    for name, (kind, ls) in spec.items():
        cfg_u = dict(cfgj)
        p_g, r_g = restrict(pred, ls, kind == "merge"), restrict(ref, ls, kind == "merge")
        if kind == "single" and it != "matched":
            cfg_u["input"] = "matched"
            for k in ("matcher", "m2o", "mmetric", "mthr", "backend"):
                cfg_u.pop(k, None)
            if cfg_u.get("dmetric") is not None:
                cfg_u["dthr"] = 0.0 if cfg_u["dmetric"] != "ASSD" else float("inf")
        o_u = impl.evaluate(impl.make_evaluator(cfg_u), p_g, r_g)
        diff = "ungrouped evaluation raised " + str(o_u[1:]) if isinstance(o_u, tuple) else meta.same_outcome({"ungrouped": out[name]}, o_u)
        print(f"group {name} ({kind} {ls}): " + ("same as the evaluation of the restricted arrays" if not diff else "DIFFERS: " + diff))
        rc |= bool(diff)
    if "pred2" in d:
        p2, r2 = common.arr_from_json(d["pred2"]), common.arr_from_json(d["ref2"])
        out2 = impl.evaluate(impl.make_evaluator({**cfgj, "groups": groups_from_spec(spec)}), p2, r2)
        name = d["group"]
        diff = meta.same_outcome({"ungrouped": out[name]}, {"ungrouped": out2[name]}) if not isinstance(out2, tuple) else None
        print(f"non-interference for group {name}: " + ("unchanged" if not diff else "CHANGED: " + diff))
        rc |= bool(diff)
    return rc
