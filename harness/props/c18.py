"""C18 -- what the aggregator writes is what the statistics loader reads.

T1: Gen/StatParse (header split call, loop slices, missing-value condition, first-appearance metric list) and
    Gen/TsvLayout (key universe satisfies keys_ok, header comprehension, row nesting/default, key-list copy).
T2: real Panoptica_Evaluators (1-4 groups with nasty names, random metric selections, decision metric,
    matched/unmatched input, group times on/off) are run over small random arrays through a real
    Panoptica_Aggregator in a temp dir; the file is loaded with Panoptica_Statistic.from_file.
    Oracle 1 (the property itself): get / get_one_subject return, bit for bit, what the result objects the
    aggregator saw reported in to_dict() (None for NaN / +-inf / None / absent key).
    Oracle 2 (the model, proved in Props/C18.v): the file's cells equal Model/Tsv.write, and the loaded
    object equals Model/Tsv.load of those cells (engine ops 1801 / 1802).
    A second stream feeds directly constructed results with extreme doubles / random bit patterns through
    _save_one_subject to validate the repr/float round-trip assumption; a third feeds arbitrary
    (also malformed) tables to the loader alone."""
import contextlib
import csv
import io
import json
import math
import struct
import tempfile
from fractions import Fraction
from pathlib import Path

import numpy as np

from harness import common
from harness.common import engine_run, coq_crosscheck, fq

TARGETS = ["theories/Props/C18.vo", "theories/Proofs/GenEq_StatParse.vo", "theories/Proofs/TsvGenEq_Layout.vo"]
GENEQ = {"theories/Proofs/GenEq_StatParse.vo": "StatParse", "theories/Proofs/TsvGenEq_Layout.vo": "TsvLayout"}
# T1 units added after round 4 of the seeded changes
TARGETS = TARGETS + ["theories/Proofs/GenEq_AggIO.vo"]
GENEQ = dict(GENEQ, **{"theories/Proofs/GenEq_AggIO.vo": "AggIO"})
ALLOWED_AXIOMS = []
RULE = ("case = (evaluator configuration: 1-4 class groups named from a nasty-name stream ('-', '_', blanks, upper case, "
        "unicode, digits, colliding after lower-casing; tabs/quotes/newlines in a separate stream), random instance/global "
        "metric subsets, optional decision metric, matched or unmatched input, group times on/off; aggregator log_times "
        "on/off, optionally a second aggregator on the same evaluator; 2-6 subjects with printable names incl. "
        "'subject_name' and repeated names; random small label maps incl. empty prediction/reference). Plus directly "
        "constructed results with extreme doubles and random 64-bit patterns, and arbitrary/malformed tables for the loader. "
        "non-trivial = at least two groups or at least one missing (NaN/inf/None/absent) cell")
ASSUMPTIONS = [
    "float(str(x)) == x bit for bit for every double x, 'nan'/'inf'/'-inf' for the non-finite ones, '' for None "
    "(Section hypotheses print_none / print_nonempty / parse_print of Props/C18.v; validated here on every run with extreme "
    "doubles and random bit patterns, not proved)",
    "the csv module's quoting (tabs, quotes, newlines in names) is an injective cell encoding: a file is modelled as its rows "
    "of cells (validated with nasty names, not proved)",
    "metric keys contain no '-' and are distinct (keys_ok): proved for panoptica's key universe read off the source "
    "(Proofs/TsvGenEq_Layout.v) and re-checked on every header",
    "names containing a carriage return are outside the property (not printable): python 3.12's csv.writer with "
    "lineterminator='\\n' does not quote a bare '\\r' and the reader then splits the row (observed, excluded from the streams)",
    "group names given as a dict are lower-cased by SegmentationClassGroups (str.lower is abstract in the model); names that "
    "collide afterwards denote ONE group (the later definition replaces the earlier): one column block, nothing shifted",
    "integers are written exactly; values above 2^53 and non-double types are outside the round-trip assumption",
]
TRUSTED = ["python csv module and float()/repr (modelled, validated by correspondence only)"]
LEVEL_TEXT = ("Theorems in Props/C18.v (Coq 8.16.1, closed under the global context): for every list of distinct group names "
              "(any characters), every list of distinct dash-free keys, every sequence of subjects and every result values, "
              "load(write(...)) is exactly the dataset of the recorded subjects: under (subject, group, key) the written value, "
              "None for NaN/+-inf/None/absent, no column shifted; rsplit at the last '-' inverts the header join; repeated "
              "subject names keep the first call. Tied to the code by AST re-translation of the loader's split/condition/loops "
              "and the aggregator's header/row layout on every run (GenEq lemmas) and by bit-exact correspondence through real "
              "evaluators, aggregators and files.")
LEVEL_NOTE = ("Cell text is abstract: the float repr round trip and csv quoting are assumed (Section hypotheses) and validated "
              "only by correspondence. Trusted: Coq kernel, the AST translator, extraction + driver (cross-checked by vm_compute), "
              "the python harness. Unicode lower-casing of group names is abstract.")
TECHNIQUE = "machine-checked proof in Rocq (Coq) + AST re-translation (GenEq) + bit-exact model/implementation correspondence"

ERR_CODE = {"ZeroDivisionError": 1, "AssertionError": 2, "Exception": 3, "NotImplementedError": 4, "IndexError": 5,
            "KeyError": 5, "ValueError": 6, "UnboundLocalError": 7}
NAN_TXT, INF_TXT, NINF_TXT = [110, 97, 110], [105, 110, 102], [45, 105, 110, 102]


# ---------------------------------------------------------------- encodings shared with c20
def enc_name(s: str) -> list:
    return [ord(c) for c in s]


def dec_name(l) -> str:
    return "".join(chr(c) for c in l)


def toy_cell(t: str) -> list:
    """abstraction of a data cell: python's own float() decides what the text means"""
    if t == "":
        return []
    try:
        v = float(t)
    except ValueError:
        return [63]
    if math.isnan(v):
        return NAN_TXT
    if v == math.inf:
        return INF_TXT
    if v == -math.inf:
        return NINF_TXT
    f = Fraction(v)
    return [35, f.numerator, f.denominator]


def toy_of_value(x) -> list:
    """what the model's reference codec prints for a python value"""
    if x is None:
        return []
    v = float(x)
    if math.isnan(v):
        return NAN_TXT
    if v == math.inf:
        return INF_TXT
    if v == -math.inf:
        return NINF_TXT
    f = Fraction(v)
    return [35, f.numerator, f.denominator]


def enc_table(cells: list) -> list:
    """file cells (strings) -> model table; header row and first column are text"""
    out = []
    for i, r in enumerate(cells):
        if i == 0:
            out.append([enc_name(c) for c in r])
        else:
            out.append([enc_name(c) if j == 0 else toy_cell(c) for j, c in enumerate(r)])
    return out


def dec_opt(o):
    return None if o == [] else Fraction(o[0][0], o[0][1])


def dec_stat(r):
    """engine load-result -> ('ok', subjects, groups, metrics, {g: {m: [Fraction|None]}}) or ('err', code)"""
    if r[0] == 1:
        return ("err", r[1])
    subs, gs, ms, vd = r[1]
    d = {}
    for g, gd in vd:
        d[dec_name(g)] = {dec_name(m): [dec_opt(o) for o in c] for m, c in gd}
    return ("ok", [dec_name(s) for s in subs], [dec_name(g) for g in gs], [dec_name(m) for m in ms], d)


def quiet(f, *a, **k):
    with contextlib.redirect_stdout(io.StringIO()), np.errstate(all="ignore"):
        return f(*a, **k)


def read_cells(path) -> list:
    with open(str(path), "r", encoding="utf8", newline="") as f:
        return [row for row in csv.reader(f, delimiter="\t", lineterminator="\n")]


def write_cells(path, cells):
    with open(str(path), "w", encoding="utf8", newline="") as f:
        w = csv.writer(f, delimiter="\t", lineterminator="\n")
        for r in cells:
            w.writerow(r)


def impl_load(path):
    """('ok', subjects, groups, metrics, {g:{m:[float|None]}}, stat) or ('err', code, text)"""
    from panoptica.panoptica_statistics import Panoptica_Statistic
    try:
        st = quiet(Panoptica_Statistic.from_file, str(path))
    except Exception as e:  # noqa
        return ("err", ERR_CODE.get(type(e).__name__, type(e).__name__), repr(e)[:200])
    d = {g: {m: list(st.get(g, m)) for m in st.metricnames} for g in st.groupnames}
    return ("ok", list(st.subjectnames), list(st.groupnames), list(st.metricnames), d, st)


def same_loaded(impl, model) -> str | None:
    """None if the implementation's loaded object equals the model's, else a description"""
    if impl[0] != model[0]:
        return f"implementation {impl[:3] if impl[0] == 'err' else 'loads'}, model {model[:2] if model[0] == 'err' else 'loads'}"
    if impl[0] == "err":
        return None          # which exception is informational
    if impl[1] != model[1]:
        return f"subjects {impl[1]} vs {model[1]}"
    if impl[2] != model[2]:
        return f"group order {impl[2]} vs {model[2]}"
    if impl[3] != model[3]:
        return f"metric order {impl[3]} vs {model[3]}"
    for g in model[2]:
        for m in model[3]:
            a, b = impl[4][g][m], model[4][g][m]
            if len(a) != len(b):
                return f"column ({g},{m}) length {len(a)} vs {len(b)}"
            for i, (x, y) in enumerate(zip(a, b)):
                if (x is None) != (y is None) or (x is not None and (not isinstance(x, float) or math.isnan(x) or math.isinf(x) or Fraction(x) != y)):
                    return f"value ({impl[1][i]},{g},{m}) = {x!r}, model {y}"
    return None


def bits(x):
    return struct.pack(">d", float(x))


def expected_value(v):
    """what the loader must report for a value the result reported"""
    if v is None:
        return None
    f = float(v)
    if math.isnan(f) or math.isinf(f):
        return None
    return f


def same_value(loaded, v) -> bool:
    e = expected_value(v)
    if e is None:
        return loaded is None
    return isinstance(loaded, float) and bits(loaded) == bits(e)


# ---------------------------------------------------------------- generators
NASTY = ["lung", "left-lung", "a-b-c", "-", "--x", "x-", "Upper Case", "snake_case", "with space", " lead", "trail ", "Größe",
         "脊椎", "été-1", "42", "0", "a.b", "g/h", "tp", "sq-dsc", "subject_name", "ÄB", "äb", "Ab", "aB", "x" * 40, "e+1", "1e5",
         "nan", "inf", "#", "a,b", "a;b", "it's", "µ", "İ", "ß", "ǅ"]
NASTY_CSV = ["tab\there", 'q"uote', '"', '""', "new\nline", "\t", 'a"\tb', "'", ' " ', "back\\slash"]
SUBJECTS = ["s1", "s2", "case-001", "Patient 7", "subject_name", "ünï", "患者", "001", "a-b", "x_y", "nan", "1.5", "S1", "-",
            "sub ject", "computation_time", "#3", "a=b", "p(1)", "tp"]
SUBJECTS_CSV = ["t\tab", 'qu"ote', '"lead', "nl\nx", "'", 'a""b']


def gen_eval_case(rng, csv_stream=False):
    ng = rng.choice([1, 1, 2, 2, 3, 4])
    mode = rng.choice(["dict", "dict", "dict", "dict", "list", "none"]) if ng > 1 else rng.choice(["dict", "dict", "none", "list"])
    pool = NASTY + (NASTY_CSV * 3 if csv_stream else [])
    names = []
    while len(names) < ng:
        n = rng.choice(pool)
        if n not in names:
            names.append(n)
    if rng.random() < 0.15 and ng >= 2:           # collision after lower-casing
        names[1] = names[0].swapcase() if names[0].swapcase() != names[0] else names[0].upper()
    groups = []
    lab = 1
    for n in names:
        k = rng.choice([1, 1, 2])
        groups.append([n, list(range(lab, lab + k)), rng.random() < 0.2 and k == 1])
        lab += k
    inst = [m for m in ["DSC", "IOU", "ASSD", "RVD"] if rng.random() < 0.6]
    glob = [m for m in ["DSC", "IOU", "RVD", "ASSD"] if rng.random() < 0.35]
    dec = rng.choice([None, None, None, "IOU", "DSC"])
    if dec and dec not in inst:
        inst.append(dec)
    cfg = {
        "mode": mode, "groups": groups, "instance_metrics": inst, "global_metrics": glob,
        "decision_metric": dec, "decision_threshold": rng.choice([0.5, 0.3, 0.9]) if dec else None,
        "input": rng.choice(["MATCHED", "MATCHED", "UNMATCHED"]), "save_group_times": rng.random() < 0.4,
        "log_times": rng.random() < 0.5, "second_aggregator": rng.random() < 0.3,
    }
    if mode == "dict":          # a later group replaces an earlier one with the same lower-cased name
        surv = {}
        for g in groups:
            surv[g[0].lower()] = g[1]
        labels = [l for v in surv.values() for l in v]
    else:
        labels = [l for g in groups for l in g[1]] if mode != "none" else [1, 2, 3]
    ns = rng.randint(2, 6)
    spool = SUBJECTS + (SUBJECTS_CSV * 3 if csv_stream else [])
    subs = []
    for _ in range(ns):
        nm = rng.choice(spool)
        if nm in [s[0] for s in subs] and rng.random() < 0.7:
            nm = nm + str(len(subs))
        shape = (rng.randint(3, 7), rng.randint(3, 7))
        n = shape[0] * shape[1]
        kind = rng.choice(["rand", "rand", "same", "empty_pred", "empty_ref", "both_empty", "shift"])
        ref = np.array([rng.choice([0, 0, 0] + labels) for _ in range(n)], dtype=np.uint8).reshape(shape)
        # make instances blocky so that matched input is plausible
        ref = np.repeat(np.repeat(ref[::2, ::2], 2, axis=0), 2, axis=1)[: shape[0], : shape[1]].copy()
        if kind == "same":
            pred = ref.copy()
        elif kind == "empty_pred":
            pred = np.zeros_like(ref)
        elif kind == "empty_ref":
            pred = ref.copy()
            ref = np.zeros_like(ref)
        elif kind == "both_empty":
            pred = np.zeros_like(ref)
            ref = np.zeros_like(ref)
        elif kind == "shift":
            pred = np.roll(ref, 1, axis=1)
        else:
            pred = ref.copy()
            flat = pred.reshape(-1)
            for _ in range(rng.randint(0, 6)):
                flat[rng.randrange(flat.size)] = rng.choice([0] + labels)
        subs.append([nm, pred, ref])
    return {"kind": "eval", "cfg": cfg, "subjects": subs}


def build_evaluator(cfg):
    from panoptica import Panoptica_Evaluator, InputType, NaiveThresholdMatching
    from panoptica.metrics import Metric
    from panoptica.utils.segmentation_class import SegmentationClassGroups
    from panoptica.utils.label_group import LabelGroup
    if cfg["mode"] == "none":
        scg = None
    elif cfg["mode"] == "list":
        scg = SegmentationClassGroups([LabelGroup(g[1], g[2]) for g in cfg["groups"]])
    else:
        scg = SegmentationClassGroups({g[0]: LabelGroup(g[1], g[2]) for g in cfg["groups"]})
    matched = cfg["input"] == "MATCHED"
    return Panoptica_Evaluator(
        expected_input=InputType.MATCHED_INSTANCE if matched else InputType.UNMATCHED_INSTANCE,
        instance_matcher=None if matched else NaiveThresholdMatching(),
        segmentation_class_groups=scg,
        instance_metrics=[getattr(Metric, m) for m in cfg["instance_metrics"]],
        global_metrics=[getattr(Metric, m) for m in cfg["global_metrics"]],
        decision_metric=getattr(Metric, cfg["decision_metric"]) if cfg["decision_metric"] else None,
        decision_threshold=cfg["decision_threshold"], save_group_times=cfg["save_group_times"])


class FakeResult:
    def __init__(self, d, ct=None):
        self._d = d
        self.computation_time = ct

    def to_dict(self):
        return dict(self._d)


EXTREME = [5e-324, 2.2250738585072014e-308, 2.225073858507201e-308, 1.7976931348623157e308, -1.7976931348623157e308,
           -0.0, 0.0, 0.1 + 0.2, 1 / 3, 2 / 3, 1e22, 1e23, 9007199254740993.0, 123456789012345680.0, 1e-7, 1.5e-5, 0.1,
           1e16, 9.999999999999999e22, 4.35, 0.5, 1.0, 100.0, 1e21, 1e-5, 2.5e-324, 1.0000000000000002, 0.9999999999999999]


def gen_fake_case(rng):
    """directly constructed results for a plain evaluator: values = extreme doubles / random bit patterns"""
    ng = rng.choice([1, 2, 3])
    names = rng.sample([n for n in NASTY if n == n.lower()], ng)
    rows = []
    for i in range(rng.randint(2, 5)):
        per_group = []
        for _ in range(ng):
            vals = []
            for _ in range(19):           # at most as many as header keys; the harness cuts to the header
                c = rng.random()
                if c < 0.35:
                    v = rng.choice(EXTREME)
                elif c < 0.65:
                    v = struct.unpack(">d", struct.pack(">Q", rng.getrandbits(64)))[0]
                elif c < 0.72:
                    v = rng.choice([float("nan"), float("inf"), float("-inf")])
                elif c < 0.78:
                    v = None
                elif c < 0.85:
                    v = "ABSENT"
                elif c < 0.92:
                    v = rng.choice([0, 1, 7, 2 ** 31, 2 ** 53, -3])
                else:
                    v = rng.uniform(-10, 10)
                vals.append(["np" if (isinstance(v, float) and rng.random() < 0.3) else "py", v])
            per_group.append(vals)
        rows.append([f"f{i}", per_group])
    return {"kind": "fake", "groups": names, "rows": rows, "log_times": rng.random() < 0.5}


def gen_table_case(rng, well_formed_only=False):
    """arbitrary table for the loader alone (C18 op 1802; C20 reuses the generator)"""
    ng, nm, ns = rng.randint(1, 4), rng.randint(1, 4), rng.randint(0 if not well_formed_only else 1, 7)
    gs = rng.sample(NASTY + NASTY_CSV, ng)
    ms = rng.sample(["tp", "sq", "pq_dsc", "global_bin_dsc", "m", "x y", "Mé", "rq", "1", "sq_assd_std"], nm)
    mal = None if well_formed_only else rng.choice([None] * 8 + ["dash_metric", "no_dash", "dup_col", "short_row", "long_row",
                                                                 "bad_first", "missing_col", "text_cell", "empty_row", "metric_major"])
    if mal == "dash_metric":
        ms[0] = ms[0] + "-x"
    header = ["subject_name"] + ([f"{g}-{m}" for m in ms for g in gs] if mal == "metric_major" else [f"{g}-{m}" for g in gs for m in ms])
    if mal == "no_dash":
        header[rng.randrange(1, len(header))] = "nodash"
    if mal == "dup_col":
        header.append(header[1])
    if mal == "bad_first":
        header[0] = "subject"
    if mal == "missing_col" and len(header) > 2:
        header.pop()
    rows = []
    for i in range(ns):
        r = [rng.choice(SUBJECTS + SUBJECTS_CSV) + (str(i) if rng.random() < 0.85 else "")]
        for _ in header[1:]:
            c = rng.random()
            if c < 0.5:
                r.append(repr(rng.choice([0.0, 0.5, 1.0, 0.25, 2.0, -1.5, 0.1 + 0.2, 1 / 3, 7.0, 1e-9, 12345.678])))
            elif c < 0.6:
                r.append(repr(rng.uniform(-5, 5)))
            elif c < 0.72:
                r.append("")
            elif c < 0.8:
                r.append(rng.choice(["nan", "NaN", "-nan"]))
            elif c < 0.88:
                r.append(rng.choice(["inf", "Infinity", "1e999", "+inf"]))
            elif c < 0.95:
                r.append(rng.choice(["-inf", "-Infinity", "-1e999"]))
            else:
                r.append(rng.choice(["3", " 2.5 ", "1_0", "-0.0", "5e-324", "1E2"]))
        rows.append(r)
    if mal == "short_row" and rows and len(rows[0]) > 1:
        rows[rng.randrange(len(rows))].pop()
    if mal == "long_row" and rows:
        rows[rng.randrange(len(rows))].append("1.0")
    if mal == "text_cell" and rows and len(rows[0]) > 1:
        rows[rng.randrange(len(rows))][1] = rng.choice(["abc", "1,5", "--1", "0x10", "None"])
    if mal == "empty_row" and rows:
        rows.insert(rng.randrange(len(rows) + 1), [])
    return {"kind": "table", "cells": [header] + rows, "malformed": mal}


# ---------------------------------------------------------------- running one case
def run_table_case(case):
    """loader alone: implementation vs Model/Tsv.load"""
    with tempfile.TemporaryDirectory() as d:
        p = Path(d) / "t.tsv"
        write_cells(p, case["cells"])
        back = read_cells(p)
        impl = impl_load(p)
    model_in = enc_table(case["cells"])
    return impl, model_in, back


def value_to_model(v):
    """python value of a result dict -> Sx.fval encoding; None if it is not a number (outside the model)"""
    if v is None:
        return [4]
    if isinstance(v, (bool, np.bool_)) or not isinstance(v, (int, float, np.integer, np.floating)):
        return None
    return common.fval(v)


def run_eval_case(case):
    """returns dict with everything observed"""
    from panoptica.panoptica_aggregator import Panoptica_Aggregator
    cfg = case["cfg"]
    obs = {"violations": [], "disagreements": [], "notes": {}}
    ev = quiet(build_evaluator, cfg)
    keys_before = list(quiet(lambda: ev.resulting_metric_keys))
    captured = []
    orig = ev.evaluate

    def wrapped(*a, **k):
        r = orig(*a, **k)
        captured.append(r)
        return r
    ev.evaluate = wrapped
    with tempfile.TemporaryDirectory() as d:
        if cfg["second_aggregator"]:
            quiet(Panoptica_Aggregator, ev, Path(d) / "first.tsv", log_times=True)
        agg = quiet(Panoptica_Aggregator, ev, Path(d) / "out.tsv", log_times=cfg["log_times"])
        keys_after = list(ev.resulting_metric_keys)
        calls = []
        for nm, pred, ref in case["subjects"]:
            n0 = len(captured)
            quiet(agg.evaluate, pred.copy(), ref.copy(), nm)
            calls.append((nm, captured[n0] if len(captured) > n0 else None))
        cells = read_cells(Path(d) / "out.tsv")
        impl = impl_load(Path(d) / "out.tsv")
        try:
            agg._Panoptica_Aggregator__exist_handler()
        except Exception:  # noqa
            pass
    groups = list(ev.segmentation_class_groups_names)
    obs["groups"], obs["cells"], obs["impl"] = groups, cells, impl
    if keys_after != keys_before:
        obs["violations"].append(("creating an aggregator changed the evaluator's metric key list (duplicate column)",
                                  {"keys_before": keys_before, "keys_after": keys_after}))
    # ---- what each call reported
    recorded, seen, model_subs, weird = [], set(), [], []
    for nm, res in calls:
        first = nm not in seen
        if res is None:
            if first:
                obs["violations"].append((f"subject {nm!r} was not evaluated although its name is new", {"subject": nm}))
            continue
        if not first:
            obs["violations"].append((f"subject {nm!r} evaluated twice", {"subject": nm}))
        seen.add(nm)
        per_group, per_group_model = {}, []
        for g in groups:
            r = res[g][0]
            dct = dict(r.to_dict())
            if r.computation_time is not None:
                dct["computation_time"] = r.computation_time
            per_group[g] = dct
            kv = []
            for k, v in dct.items():
                mv = value_to_model(v)
                if mv is None:
                    weird.append((nm, g, k, repr(v)))
                    continue
                kv.append([enc_name(k), mv])
            per_group_model.append([enc_name(g), kv])
        recorded.append((nm, per_group))
        model_subs.append([enc_name(nm), per_group_model])
    # subjects skipped as duplicates still reach the model (it drops them itself)
    model_all, k = [], 0
    names_seen = set()
    for nm, res in calls:
        if nm in names_seen:
            model_all.append([enc_name(nm), []])
        else:
            names_seen.add(nm)
            if res is not None:
                model_all.append(model_subs[k])
                k += 1
    obs["recorded"] = recorded
    obs["model_in"] = [[enc_name(g) for g in groups], [enc_name(x) for x in keys_before], cfg["log_times"], model_all]
    obs["weird"] = weird
    # ---- oracle 1: the property on the implementation
    header_keys = keys_before + (["computation_time"] if cfg["log_times"] else [])
    if impl[0] == "err":
        if recorded:
            obs["violations"].append((f"from_file raises {impl[2]} on the aggregator's own output", {}))
        return obs
    st = impl[5]
    if list(st.subjectnames) != [r[0] for r in recorded]:
        obs["violations"].append((f"loaded subjects {list(st.subjectnames)} != recorded {[r[0] for r in recorded]}", {}))
        return obs
    if sorted(st.groupnames) != sorted(groups) or sorted(st.metricnames) != sorted(header_keys):
        obs["violations"].append((f"loaded groups/metrics {st.groupnames}/{st.metricnames} != written {groups}/{header_keys}", {}))
        return obs
    for i, (nm, per_group) in enumerate(recorded):
        one = None
        if [r[0] for r in recorded].count(nm) == 1:
            one = quiet(st.get_one_subject, nm)
        for g in groups:
            dct = per_group[g]
            lost = [k for k in dct if k not in header_keys and k != "computation_time"]   # times only with log_times
            if lost:
                obs["violations"].append((f"result of {nm!r}/{g!r} reports {lost} but the file has no such column", {"lost": lost}))
            for k in header_keys:
                want = dct.get(k)
                if value_to_model(want) is None:
                    continue
                got = st.get(g, k)[i]
                if not same_value(got, want):
                    obs["violations"].append((f"get({g!r},{k!r})[{nm!r}] = {got!r} but the result reported {want!r}",
                                              {"subject": nm, "group": g, "metric": k, "loaded": repr(got), "reported": repr(want)}))
                if one is not None and not same_value(one[g][k], want):
                    obs["violations"].append((f"get_one_subject({nm!r})[{g!r}][{k!r}] = {one[g][k]!r} but the result reported {want!r}",
                                              {"subject": nm, "group": g, "metric": k}))
    return obs


def compare_with_model(obs, out):
    """model output of op 1801 vs file cells and loaded object"""
    problems = []
    keys_ok, table, loadres = out
    if not keys_ok:
        problems.append("keys_ok is false for the aggregator's key list")
    want = [[dec_name(c) for c in table[0]]] + [[dec_name(r[0])] + [tuple(c) for c in r[1:]] for r in table[1:]]
    cells = obs["cells"]
    got = [cells[0]] + [[r[0]] + [tuple(toy_cell(c)) for c in r[1:]] for r in cells[1:] if r]
    if want != got:
        if want[0] != got[0]:
            problems.append(f"header differs: file {got[0]} model {want[0]}")
        elif [r[0] for r in want[1:]] != [r[0] for r in got[1:]]:
            problems.append(f"recorded subjects differ: file {[r[0] for r in got[1:]]} model {[r[0] for r in want[1:]]}")
        else:
            for a, b in zip(want[1:], got[1:]):
                if a != b:
                    j = next((j for j in range(min(len(a), len(b))) if a[j] != b[j]), min(len(a), len(b)))
                    problems.append(f"row {a[0]!r} differs at column {j} ({got[0][j] if j < len(got[0]) else '?'}): "
                                    f"file {b[j] if j < len(b) else None} model {a[j] if j < len(a) else None}")
                    break
    d = same_loaded(obs["impl"], dec_stat(loadres))
    if d:
        problems.append("loaded object differs from Model/Tsv.load: " + d)
    return problems


def run_fake_case(case):
    from panoptica import Panoptica_Evaluator, InputType
    from panoptica.metrics import Metric
    from panoptica.utils.segmentation_class import SegmentationClassGroups
    from panoptica.utils.label_group import LabelGroup
    from panoptica.panoptica_aggregator import Panoptica_Aggregator
    obs = {"violations": []}
    scg = SegmentationClassGroups({g: LabelGroup([i + 1]) for i, g in enumerate(case["groups"])})
    ev = quiet(Panoptica_Evaluator, InputType.MATCHED_INSTANCE, segmentation_class_groups=scg,
               instance_metrics=[Metric.DSC, Metric.IOU], global_metrics=[Metric.DSC])
    keys = list(quiet(lambda: ev.resulting_metric_keys))
    groups = list(ev.segmentation_class_groups_names)
    hk = keys + (["computation_time"] if case["log_times"] else [])
    recorded, model_subs = [], []
    with tempfile.TemporaryDirectory() as d:
        agg = quiet(Panoptica_Aggregator, ev, Path(d) / "out.tsv", log_times=case["log_times"])
        for nm, per_group in case["rows"]:
            res, pg, pgm = {}, {}, []
            for g, vals in zip(groups, per_group):
                dct = {}
                for k, (ty, v) in zip(keys, vals):
                    if v == "ABSENT":
                        continue
                    dct[k] = np.float64(v) if ty == "np" else v
                ct = None
                if case["log_times"] and vals:
                    ct = vals[-1][1] if isinstance(vals[-1][1], float) and not math.isnan(vals[-1][1]) else None
                res[g] = (FakeResult(dct, ct),)
                full = dict(dct)
                if ct is not None:
                    full["computation_time"] = ct
                pg[g] = full
                pgm.append([enc_name(g), [[enc_name(k), common.fval(v)] for k, v in full.items()]])
            quiet(agg._save_one_subject, nm, res)
            recorded.append((nm, pg))
            model_subs.append([enc_name(nm), pgm])
        cells = read_cells(Path(d) / "out.tsv")
        impl = impl_load(Path(d) / "out.tsv")
        try:
            agg._Panoptica_Aggregator__exist_handler()
        except Exception:  # noqa
            pass
    obs.update(groups=groups, cells=cells, impl=impl, recorded=recorded, weird=[],
               model_in=[[enc_name(g) for g in groups], [enc_name(k) for k in keys], case["log_times"], model_subs])
    if impl[0] == "err":
        obs["violations"].append((f"from_file raises {impl[2]} on the aggregator's own output", {}))
        return obs
    st = impl[5]
    for i, (nm, pg) in enumerate(recorded):
        try:
            one = quiet(st.get_one_subject, nm)
        except Exception as e:  # noqa
            obs["violations"].append((f"the loader cannot return the row of subject {nm!r} it was given: {type(e).__name__}: {str(e)[:120]}",
                                      {"subject": nm}))
            continue
        for g in groups:
            for k in hk:
                want = pg[g].get(k)
                if isinstance(want, int) and abs(want) > 2 ** 53:
                    continue
                try:
                    got = st.get(g, k)[i]
                    got_one = one[g][k]
                except Exception as e:  # noqa
                    obs["violations"].append((f"the loader cannot return the value recorded under ({nm!r}, {g!r}, {k!r}): {type(e).__name__}: {str(e)[:120]}",
                                              {"subject": nm, "group": g, "metric": k}))
                    return obs
                if not same_value(got, want) or not same_value(got_one, want):
                    obs["violations"].append((f"value {want!r} written under ({nm},{g},{k}) is read back as {got!r}",
                                              {"subject": nm, "group": g, "metric": k, "loaded": repr(got), "reported": repr(want)}))
    return obs


# ---------------------------------------------------------------- (de)serialisation of cases for replay
def case_to_json(case):
    if case["kind"] == "eval":
        return {"kind": "eval", "cfg": case["cfg"],
                "subjects": [[nm, common.jsonable(p), common.jsonable(r)] for nm, p, r in case["subjects"]]}
    if case["kind"] == "fake":
        def enc(v):
            return {"f": struct.pack(">d", v).hex()} if isinstance(v, float) else v
        return {"kind": "fake", "groups": case["groups"], "log_times": case["log_times"],
                "rows": [[nm, [[[ty, enc(v)] for ty, v in vals] for vals in pg]] for nm, pg in case["rows"]]}
    return case


def case_from_json(d):
    if d["kind"] == "eval":
        return {"kind": "eval", "cfg": d["cfg"],
                "subjects": [[nm, common.arr_from_json(p), common.arr_from_json(r)] for nm, p, r in d["subjects"]]}
    if d["kind"] == "fake":
        def dec(v):
            return struct.unpack(">d", bytes.fromhex(v["f"]))[0] if isinstance(v, dict) else v
        return {"kind": "fake", "groups": d["groups"], "log_times": d["log_times"],
                "rows": [[nm, [[[ty, dec(v)] for ty, v in vals] for vals in pg]] for nm, pg in d["rows"]]}
    return d


def check_case(case):
    """-> (violations, disagreements, (op, model_in, model_out), nontrivial, bucket)"""
    if case["kind"] == "table":
        impl, model_in, back = run_table_case(case)
        out = engine_run(1802, [model_in])[0]
        dis = []
        if back != [list(map(str, r)) for r in case["cells"]]:
            dis.append("csv round trip changed the cells")
        d = same_loaded(impl, dec_stat(out))
        if d:
            dis.append("loader differs from Model/Tsv.load: " + d)
        return [], dis, (1802, model_in, out), impl[0] == "ok", "table/" + str(case.get("malformed"))
    obs = run_eval_case(case) if case["kind"] == "eval" else run_fake_case(case)
    out = engine_run(1801, [obs["model_in"]])[0]
    dis = compare_with_model(obs, out) if not obs.get("weird") else []
    if obs.get("weird"):
        dis.append(f"result values that are not numbers: {obs['weird'][:3]}")
    cells = obs["cells"]
    missing = any(c == "" or toy_cell(c)[:1] != [35] for r in cells[1:] for c in r[1:])
    nontrivial = len(obs["groups"]) >= 2 or missing
    bucket = f"{case['kind']}/{len(obs['groups'])}g/{'missing' if missing else 'full'}"
    if case["kind"] == "eval" and len(obs["groups"]) < len(case["cfg"]["groups"]) and case["cfg"]["mode"] == "dict":
        bucket += "/collided"
        lowered = [enc_name(g[0].lower()) for g in case["cfg"]["groups"]]
        got = engine_run(1803, [lowered])[0]
        if [dec_name(g) for g in got] != obs["groups"]:
            dis.append(f"group names after lower-casing: evaluator {obs['groups']} model {[dec_name(g) for g in got]}")
    return obs["violations"], dis, (1801, obs["model_in"], out), nontrivial, bucket


def split_checks(ctx):
    """rsplit on python strings vs Model/Tsv.split_cell (op 1804), incl. keys with '-'"""
    rng = ctx.rng
    ins, strs = [], []
    for _ in range(ctx.scale(300, 3000)):
        s = "".join(rng.choice("ab-_ Ü-") for _ in range(rng.randint(0, 8)))
        strs.append(s)
        ins.append(enc_name(s))
    outs = engine_run(1804, ins)
    for s, o in zip(strs, outs):
        parts = s.rsplit("-", 1)
        want = [0, [enc_name(parts[0]), enc_name(parts[1])]] if len(parts) == 2 else [1, 5]
        if o != want:
            ctx.disagree("split_cell", {"cell": s, "python": parts, "model": o})
    return [(1804, i, o) for i, o in list(zip(ins, outs))[:20]]


def permuted_sessions(ctx):
    """two sessions on ONE output file whose evaluators declare the same groups in a different order: the second session must
    either be refused or its values must be recovered under the right group (columns never shifted between groups)"""
    from panoptica import Panoptica_Evaluator, InputType
    from panoptica.metrics import Metric
    from panoptica.panoptica_aggregator import Panoptica_Aggregator
    from panoptica.panoptica_statistics import Panoptica_Statistic
    from panoptica.utils.segmentation_class import SegmentationClassGroups
    from panoptica.utils.label_group import LabelGroup
    rng = ctx.rng
    for trial in range(3):
        names = rng.sample(["alpha", "b-eta", "gamma g", "d_elta"], 3)
        labs = {n: [i + 1] for i, n in enumerate(names)}
        order2 = names[:]
        while order2 == names:
            rng.shuffle(order2)

        def mk(order):
            return Panoptica_Evaluator(expected_input=InputType.MATCHED_INSTANCE, instance_metrics=[Metric.IOU], global_metrics=[],
                                       segmentation_class_groups=SegmentationClassGroups({n: LabelGroup(labs[n]) for n in order}))
        def arr():
            ref = np.zeros((3, 8), np.uint8); pred = np.zeros((3, 8), np.uint8)
            for n in names:
                l = labs[n][0]
                w = rng.randint(1, 2)
                ref[l - 1, 0:2 * w] = l
                if rng.random() < 0.7:
                    pred[l - 1, 0:w + rng.randint(0, w)] = l
            return pred, ref
        with tempfile.TemporaryDirectory() as d:
            out = Path(d) / "o.tsv"
            ev1, ev2 = quiet(mk, names), quiet(mk, order2)
            expect = {}
            a1 = quiet(Panoptica_Aggregator, ev1, out)
            p, r = arr()
            quiet(a1.evaluate, p.copy(), r.copy(), "s1")
            expect["s1"] = quiet(ev1.evaluate, p.copy(), r.copy())
            try:
                a1._Panoptica_Aggregator__exist_handler()
            except Exception:  # noqa
                pass
            refused = False
            try:
                a2 = quiet(Panoptica_Aggregator, ev2, out)
                p, r = arr()
                quiet(a2.evaluate, p.copy(), r.copy(), "s2")
                expect["s2"] = quiet(ev2.evaluate, p.copy(), r.copy())
            except AssertionError:
                refused = True
            ctx.count({"permuted_sessions": [names, order2], "refused": refused}, True)
            ctx.bump("permuted-group-order sessions")
            st = quiet(Panoptica_Statistic.from_file, str(out))
            for sname, res in expect.items():
                one = st.get_one_subject(sname)
                for g in names:
                    want = res[g][0].to_dict()
                    for m in ("tp", "fp", "fn", "num_ref_instances", "num_pred_instances"):
                        if not same_value(one[g][m], want[m]):
                            ctx.violation(f"a later session with another group order was accepted and subject {sname!r}, group {g!r}, {m}: "
                                          f"loaded {one[g][m]} but the result says {want[m]} (columns shifted between groups)",
                                          {"kind": "permuted_sessions", "groups": names, "order2": order2})
                            return


def resumed_sessions(ctx):
    """several sessions with the SAME setup on one output file, the path given in different spellings (with / without the .tsv
    extension, str / Path): every value recorded by any session must be read back by the loader from <path>.tsv"""
    from panoptica import Panoptica_Evaluator, InputType
    from panoptica.metrics import Metric
    from panoptica.panoptica_aggregator import Panoptica_Aggregator
    from panoptica.panoptica_statistics import Panoptica_Statistic
    from panoptica.utils.segmentation_class import SegmentationClassGroups
    from panoptica.utils.label_group import LabelGroup
    rng = ctx.rng
    for trial in range(ctx.scale(16, 80)):
        names = rng.sample(["alpha", "b-eta", "gamma g", "d_elta"], rng.randint(1, 3))
        labs = {n: [i + 1] for i, n in enumerate(names)}
        log_times = rng.random() < 0.3

        def mk():
            return Panoptica_Evaluator(expected_input=InputType.MATCHED_INSTANCE, instance_metrics=[Metric.IOU, Metric.DSC], global_metrics=[Metric.DSC],
                                       segmentation_class_groups=SegmentationClassGroups({n: LabelGroup(labs[n]) for n in names}))

        def arr():
            ref = np.zeros((3, 8), np.uint8); pred = np.zeros((3, 8), np.uint8)
            for n in names:
                l = labs[n][0]
                w = rng.randint(1, 2)
                ref[l - 1, 0:2 * w] = l
                if rng.random() < 0.7:
                    pred[l - 1, 0:w + rng.randint(0, w)] = l
            return pred, ref
        spelling = rng.choice(["ext", "noext", "noext", "mixed"])
        as_str = rng.random() < 0.5
        with tempfile.TemporaryDirectory() as d:
            base = Path(d) / rng.choice(["out", "results_run1", "o"])
            final = Path(str(base) + ".tsv")
            n_sessions = rng.randint(2, 3)
            expect, problem = {}, None
            k = 0
            for si in range(n_sessions):
                given = final if spelling == "ext" or (spelling == "mixed" and si % 2 == 0) else base
                ev = quiet(mk)
                try:
                    agg = quiet(Panoptica_Aggregator, ev, str(given) if as_str else given, log_times=log_times)
                    for _ in range(rng.randint(1, 2)):
                        k += 1
                        p, r = arr()
                        quiet(agg.evaluate, p.copy(), r.copy(), f"s{k}")
                        expect[f"s{k}"] = quiet(ev.evaluate, p.copy(), r.copy())
                    if rng.random() < 0.5:
                        try:
                            agg._Panoptica_Aggregator__exist_handler()
                        except Exception:  # noqa
                            pass
                except Exception as e:  # noqa
                    problem = f"session {si + 1} on {given.name!r} raised {type(e).__name__}: {str(e)[:120]}"
                    break
            other = None
            if problem is None and trial % 2 == 0:
                # a further session with a DIFFERENT setup (other metrics) on the same file, continuing or not: it is refused, or whatever
                # it records can be read back like everything else -- it never shifts values under the wrong column
                other = {"continue_file": trial % 4 == 0, "metrics": rng.choice([["IOU"], ["DSC", "IOU", "RVD"], ["RVD"]])}
                ev2 = quiet(lambda: Panoptica_Evaluator(expected_input=InputType.MATCHED_INSTANCE, instance_metrics=[getattr(Metric, m) for m in other["metrics"]],
                                                        global_metrics=[Metric.IOU], segmentation_class_groups=SegmentationClassGroups({n: LabelGroup(labs[n]) for n in names})))
                try:
                    agg2 = quiet(Panoptica_Aggregator, ev2, str(final) if as_str else final, log_times=log_times, continue_file=other["continue_file"])
                    k += 1
                    p, r = arr()
                    quiet(agg2.evaluate, p.copy(), r.copy(), f"s{k}")
                    expect[f"s{k}"] = quiet(ev2.evaluate, p.copy(), r.copy())
                    other["accepted"] = True
                except AssertionError:
                    other["accepted"] = False
                except Exception as e:  # noqa
                    problem = f"a session with another setup raised {type(e).__name__}: {str(e)[:120]}"
            case = {"kind": "resumed_sessions", "groups": names, "spelling": spelling, "as_str": as_str, "sessions": n_sessions, "log_times": log_times,
                    "other_setup": other}
            ctx.count(dict(case, trial=trial), True)
            ctx.bump(f"resumed sessions, path spelling {spelling}")
            if problem is None:
                try:
                    st = quiet(Panoptica_Statistic.from_file, str(final))
                    for sname, res in expect.items():
                        one = st.get_one_subject(sname)
                        for g in names:
                            want = res[g][0].to_dict()
                            for m in ("tp", "fp", "fn", "num_ref_instances", "num_pred_instances", "global_bin_dsc", "global_bin_iou", "sq", "sq_dsc"):
                                if m not in want:
                                    continue
                                if m not in one[g]:
                                    problem = f"subject {sname!r}, group {g!r}: the reported {m} = {want[m]} cannot be read back (no such column)"
                                elif not same_value(one[g][m], want[m]):
                                    problem = f"subject {sname!r}, group {g!r}, {m}: loaded {one[g][m]} but the result says {want[m]}"
                except Exception as e:  # noqa
                    problem = f"the loader fails on the file the sessions wrote: {type(e).__name__}: {str(e)[:120]} (rows: {[c[0] for c in read_cells(final)] if final.exists() else None})"
            if problem:
                ctx.violation("sessions resumed on one output file: " + problem, case)
                return


def run(ctx):
    common.serial_pool()
    rng = ctx.rng
    triples = split_checks(ctx)
    permuted_sessions(ctx)
    resumed_sessions(ctx)
    cases = []
    cdir = common.VERIF / "corpus" / "C18"
    if cdir.exists():
        for f in sorted(cdir.glob("*.json")):
            cases.append(case_from_json(json.loads(f.read_text())))
    n_corpus = len(cases)
    for _ in range(ctx.scale(150, 2000)):
        cases.append(gen_eval_case(rng))
    for _ in range(ctx.scale(30, 400)):
        cases.append(gen_eval_case(rng, csv_stream=True))
    for _ in range(ctx.scale(80, 1500)):
        cases.append(gen_fake_case(rng))
    for _ in range(ctx.scale(250, 4000)):
        cases.append(gen_table_case(rng))
    n_viol = 0
    for ci, case in enumerate(cases):
        vio, dis, triple, nontrivial, bucket = check_case(case)
        cj = case_to_json(case)
        ctx.count(cj, nontrivial)
        ctx.bump(bucket)
        if ci < n_corpus:
            ctx.bump("corpus")
        for what, extra in vio[:3]:
            n_viol += 1
            if n_viol <= 10:
                ctx.violation(what, {"case": cj, **extra})
        if not vio:
            for dtxt in dis[:2]:
                ctx.disagree("model-vs-implementation", {"what": dtxt, "case": cj})
        if ci % 5 == 0 and len(triples) < 70 and len(json.dumps(triple[1])) < 6000:
            triples.append(triple)
    n, bad = coq_crosscheck("C18", triples, timeout=600)
    ctx.crosschecked = n
    for b in bad:
        ctx.disagree("extraction-vs-vm_compute", triples[b])
    ctx.layers.append({"layer": "real evaluator -> aggregator -> file -> from_file", "cases": sum(1 for c in cases if c["kind"] == "eval")})
    ctx.layers.append({"layer": "constructed results with extreme doubles / random bit patterns", "cases": sum(1 for c in cases if c["kind"] == "fake")})
    ctx.layers.append({"layer": "arbitrary and malformed tables through the loader", "cases": sum(1 for c in cases if c["kind"] == "table")})


class _ReplayCtx:
    """minimal stand-in for the session families (they draw their arrays from the rng): re-runs the family, prints what fails"""
    def __init__(self, seed):
        import random
        self.rng, self.tier, self.found = random.Random(seed), "thorough", []

    def scale(self, q, t):
        return t

    def count(self, *a, **k):
        pass

    def bump(self, *a, **k):
        pass

    def violation(self, what, rep):
        self.found.append((what, rep))


def replay(path):
    common.serial_pool()
    d = json.loads(open(path).read())
    if d.get("kind") in ("resumed_sessions", "permuted_sessions"):
        fam = resumed_sessions if d["kind"] == "resumed_sessions" else permuted_sessions
        found = []
        for seed in range(4):
            c = _ReplayCtx(seed)
            fam(c)
            found += c.found
        for what, rep in found[:5]:
            print("PROPERTY FAILS ON THE IMPLEMENTATION:", what, rep)
        print("DIFFER" if found else "agree (sessions of this family re-run with 4 seeds)")
        return 1 if found else 0
    case = case_from_json(d["case"] if "case" in d else d)
    vio, dis, triple, _, bucket = check_case(case)
    print("case:", bucket)
    if case["kind"] == "table":
        print("cells:", case["cells"])
    out = triple[2]
    if triple[0] == 1801:
        print("model: keys_ok =", bool(out[0]))
        for r in out[1][:1]:
            print("model header:", [dec_name(c) for c in r])
        for r in out[1][1:]:
            print("model row   :", [dec_name(r[0])] + [("" if c == [] else dec_name(c) if c[:1] != [35] else float(Fraction(c[1], c[2]))) for c in r[1:]])
        ld = dec_stat(out[2])
    else:
        ld = dec_stat(out)
    print("model load  :", ld[:4] if ld[0] == "ok" else ld)
    if ld[0] == "ok":
        for g in ld[2]:
            for m in ld[3]:
                print(f"   ({g!r}, {m!r}) ->", [None if v is None else float(v) for v in ld[4][g][m]])
    for what, extra in vio:
        print("PROPERTY FAILS ON THE IMPLEMENTATION:", what)
    for t in dis:
        print("MODEL AND IMPLEMENTATION DIFFER:", t)
    ok = not vio and not dis
    print("agree" if ok else "DIFFER")
    return 0 if ok else 1
