"""C03 -- the threshold matcher is a sound, conflict-free, maximal, best-first, monotone, total assignment."""
import itertools
import json
import math
from fractions import Fraction

import numpy as np

from harness import common, impl
from harness.common import engine_run, coq_crosscheck, fq

TARGETS = ["theories/Props/C03.vo", "theories/Proofs/GenEq_MetricTable.vo", "theories/Proofs/GenEq_MatcherLoop.vo"]
GENEQ = {"theories/Proofs/GenEq_MetricTable.vo": "MetricTable", "theories/Proofs/GenEq_MatcherLoop.vo": "MatcherLoop"}
# T1 units added after round 4 of the seeded changes
TARGETS = TARGETS + ["theories/Proofs/GenEq_MetricCall.vo"]
GENEQ = dict(GENEQ, **{"theories/Proofs/GenEq_MetricCall.vo": "MetricCall"})
ALLOWED_AXIOMS = []
RULE = ("case = (unmatched instance pair, matching metric in {IOU,DSC,ASSD}, threshold drawn from achieved scores / their float neighbours / 0 / 1 / "
        "random, allow_many_to_one); the implementation's matching (recovered from the relabelled array) is checked with the Coq-extracted "
        "check_valid (P1 conflict-free, P2 sound, P3 maximal, P4 best-first) against the implementation's own candidate list; candidates and "
        "IoU/Dice scores are compared exactly with the model; monotonicity over threshold pairs; exhaustive layer: all pairs of maps with "
        "<=3 labels on 1x5 (thorough); non-trivial = at least 2 candidates sharing a partner")
ASSUMPTIONS = [
    "candidate scores for ASSD are the implementation's own Metric.ASSD values (their equality with the definition is C07)",
    "the matching is recovered from match_instances' relabelled prediction: a prediction whose new label is a reference label is matched to it",
]
TRUSTED = ["numpy C code (modelled, not verified)"]
LEVEL_TEXT = ("Theorems in Props/C03.v hold for every candidate list, both directions, every threshold and both values of allow_many_to_one: the "
              "sorted greedy loop never raises and its result satisfies the relational specification P1-P4 (induction over the candidate list with "
              "a prefix invariant), scores at the threshold match, a stricter threshold yields a sub-matching, the specification has a unique "
              "solution when competing candidates have distinct scores, candidates are exactly the overlapping pairs. The loop body, the label-map "
              "predicates, the sort call and the pair code are re-translated from the AST each run (GenEq_MatcherLoop); the implementation's "
              "matchings are checked with the extracted checker, which is proved sound.")
LEVEL_NOTE = ("Trusted: Coq kernel, translator, extraction+driver (cross-checked), harness (recovery of the matching from arrays). numpy's unique/"
              "sorted semantics modelled (stable best-first order), validated by correspondence.")
TECHNIQUE = "machine-checked proof in Rocq (Coq) (induction over the candidate list) + AST re-translation + proved-sound checker on implementation output"


def impl_candidates(pred, ref, mname):
    from panoptica._functionals import _calc_matching_metric_of_overlapping_labels
    from panoptica.utils.processing_pair import UnmatchedInstancePair
    pc, rc = pred.copy(), ref.copy()            # the caller's arrays are never handed to the library (it must not modify them, but may)
    up = UnmatchedInstancePair(pc, rc)
    c = _calc_matching_metric_of_overlapping_labels(pc, rc, up.ref_labels, impl.metric(mname))
    return [(float(s), int(r), int(p)) for s, (r, p) in c]


def impl_match(pred, ref, mname, thr, m2o):
    """returns dict pred_label -> ref_label, or ('err', ...)"""
    from panoptica import NaiveThresholdMatching
    from panoptica.utils.processing_pair import UnmatchedInstancePair
    import contextlib, io
    try:
        with contextlib.redirect_stdout(io.StringIO()), np.errstate(all="ignore"):
            m = NaiveThresholdMatching(matching_metric=impl.metric(mname), matching_threshold=thr, allow_many_to_one=m2o)
            out = m.match_instances(UnmatchedInstancePair(pred.copy(), ref.copy()))
    except Exception as e:  # noqa
        return ("err", type(e).__name__, str(e)[:120])
    ref_labels = set(int(x) for x in np.unique(ref) if x != 0)
    mp = {}
    for p in [int(x) for x in np.unique(pred) if x != 0]:
        new = np.unique(out.prediction_arr[pred == p])
        if len(new) != 1:
            return ("err", "split", f"prediction {p} was split into {new.tolist()}")
        if int(new[0]) in ref_labels:
            mp[p] = int(new[0])
    return mp


def enc_cands(cands):
    return [[fq(s), r, p] for s, r, p in cands]


def thresholds(rng, cands, mname):
    ts = {0.0, 0.5, 1.0} if mname != "ASSD" else {0.0, 0.5, 1.0, 2.5}
    for s, _, _ in cands:
        ts.add(s)
        ts.add(float(np.nextafter(s, 0)))
        ts.add(float(np.nextafter(s, 10)))
    ts = sorted(t for t in ts if t >= 0 and (mname == "ASSD" or t <= 1.0))
    return ts


def near_equal_pair(L):
    """1-D: reference B (label 1, L+1 voxels) and A (label 2, L voxels), one prediction covering half of each: the two candidate
    scores are distinct but agree to six decimals (IoU 1/3 vs 1/3*(1-2/(3L)), Dice 1/2 vs 1/2*(1-1/(2L))); the better pair
    carries the HIGHER reference label"""
    n = 2 * L + 1 + 8
    ref = np.zeros((1, n), np.uint8); pred = np.zeros((1, n), np.uint8)
    ref[0, 0:L] = 2
    ref[0, L:2 * L + 1] = 1
    pred[0, L // 2:L // 2 + L] = 1
    return pred, ref


def gen_pairs(ctx):
    rng = ctx.rng
    pairs = []
    cdir = common.VERIF / "corpus" / "C03"
    if cdir.exists():
        for f in sorted(cdir.glob("*.json")):
            d = json.loads(f.read_text())
            pairs.append((common.arr_from_json(d["pred"]), common.arr_from_json(d["ref"])))
    # D3 witness and tie constructions
    pairs.append((np.array([[1, 1, 1, 1]], np.uint8), np.array([[1, 1, 2, 2]], np.uint8)))
    pairs.append((np.array([[1, 1, 2, 2, 0, 3]], np.uint8), np.array([[0, 1, 1, 2, 2, 2]], np.uint8)))
    pairs.append((np.array([[1, 1, 1, 1, 2, 2]], np.uint8), np.array([[1, 1, 2, 2, 2, 2]], np.uint8)))
    if ctx.tier == "thorough":
        maps = [np.array(v, np.uint8).reshape(1, 5) for v in itertools.product([0, 1, 2, 3], repeat=5)]
        idx = list(itertools.product(range(len(maps)), repeat=2))
        for i, j in rng.sample(idx, 6000):
            pairs.append((maps[i], maps[j]))
        ctx.layers.append({"layer": "pairs of maps over {0..3} on 1x5", "pairs": 6000, "of": len(idx), "exhaustive": False})
    for _ in range(ctx.scale(140, 1500)):
        p, r = impl.rand_pair(rng, max_side=6, max_inst=4)
        if rng.random() < 0.3:   # prediction spanning several references
            p = np.where(r != 0, 1, p).astype(p.dtype)
        pairs.append((p, r))
    # chains: p1 covers most of A, p2 straddles A and B with its larger part in A (fallback to the second-best reference)
    for _ in range(ctx.scale(20, 200)):
        pairs.append(impl.chain_pair(rng))
    # label magnitudes at which the integer code of a (prediction, reference) pair crosses 2^8 / 2^16 / 2^32
    for _ in range(ctx.scale(24, 200)):
        pairs.append(impl.code_boundary_pair(rng))
    # many instances: a grid of 130-400 small references, each overlapped by one or two predictions (hundreds of candidate pairs;
    # every pair must be scored and offered to the matcher, whatever their number)
    for _ in range(ctx.scale(2, 10)):
        rows, cols = rng.randint(10, 16), rng.randint(13, 25)
        ref = np.zeros((2 * rows, 4 * cols), np.uint16)
        pred = np.zeros((2 * rows, 4 * cols), np.uint16)
        labs = list(range(1, rows * cols + 1))
        plabs = labs[:]
        rng.shuffle(plabs)
        k = 0
        for i in range(rows):
            for j in range(cols):
                ref[2 * i, 4 * j:4 * j + 3] = labs[k]
                sh = rng.choice([0, 0, 1, 2])
                pred[2 * i, 4 * j + sh:min(4 * cols, 4 * j + sh + 3)] = plabs[k]        # shifted: may reach into the next reference
                k += 1
        pairs.append((pred, ref))
    return pairs


def run(ctx):
    common.serial_pool()
    rng = ctx.rng
    pairs = gen_pairs(ctx)
    chk_in, chk_meta, mod_in, mod_meta, cand_in, cand_meta = [], [], [], [], [], []
    for pred, ref in pairs:
        if not pred.any() or not ref.any():
            continue
        for mname in (["IOU", "DSC", "ASSD"] if ctx.tier == "thorough" else [rng.choice(["IOU", "DSC", "ASSD"])]):
            decr = mname == "ASSD"
            try:
                cands = impl_candidates(pred, ref, mname)
            except Exception as e:  # noqa
                ctx.violation("candidate computation raised", {"pred": pred, "ref": ref, "metric": mname, "observed": repr(e)[:200]})
                continue
            if any(math.isnan(c[0]) or math.isinf(c[0]) for c in cands):
                ctx.violation("a candidate pair has an undefined matching score (the pair does not exist / does not overlap)",
                              {"pred": pred, "ref": ref, "metric": mname, "candidates": cands})
                continue
            if mname != "ASSD":
                arr = [[int(a), int(b)] for a, b in zip(ref.ravel().tolist(), pred.ravel().tolist())]
                cand_in.append([impl.METRICS.index(mname), arr])
                cand_meta.append((pred, ref, mname, cands))
            ts = thresholds(rng, cands, mname)
            ts = ts if ctx.tier == "thorough" and len(ts) <= 12 else rng.sample(ts, min(len(ts), 3))
            shared = len(cands) - len({r for _, r, _ in cands}) + len(cands) - len({p for _, _, p in cands})
            for m2o in (False, True):
                prev = None
                for thr in sorted(ts, reverse=decr):      # from lenient to strict
                    mp = impl_match(pred, ref, mname, thr, m2o)
                    case = {"pred": pred, "ref": ref, "metric": mname, "threshold": thr, "m2o": m2o}
                    ctx.count({"pred": pred.tolist(), "ref": ref.tolist(), "metric": mname, "thr": thr, "m2o": m2o}, shared > 0)
                    ctx.bump(f"{mname}/m2o={m2o}/cands={min(len(cands), 4)}")
                    if isinstance(mp, tuple):
                        ctx.violation("matching did not return a result: " + str(mp[1:]), {**case, "observed": mp})
                        continue
                    cmap = {(r, p): s for s, r, p in cands}
                    M = []
                    bad = None
                    for p, r in mp.items():
                        if (r, p) not in cmap:
                            bad = f"prediction {p} assigned to reference {r} although they do not overlap"
                        else:
                            M.append((cmap[(r, p)], r, p))
                    if bad:
                        ctx.violation(bad, {**case, "matching": mp})
                        continue
                    chk_in.append([decr, m2o, fq(thr), enc_cands(cands), enc_cands(M)])
                    chk_meta.append((case, cands, mp))
                    mod_in.append([decr, m2o, fq(thr), enc_cands(cands)])
                    mod_meta.append((case, cands, M))
                    if prev is not None and not set(mp.items()) <= set(prev.items()):
                        ctx.violation("a stricter threshold added a match", {**case, "lenient_matching": prev, "strict_matching": mp})
                    prev = mp
    # large instances whose competing scores differ only from the 7th decimal on (the order must still be decided by the scores)
    for L, mname, m2o in ([(10 ** 6, "IOU", False), (10 ** 6, "DSC", True)] if ctx.tier != "thorough" else
                          [(l, m, o) for l in (10 ** 6, 3 * 10 ** 5) for m in ("IOU", "DSC") for o in (False, True)]):
        pred, ref = near_equal_pair(L)
        cands = impl_candidates(pred, ref, mname)
        thr = 0.2
        mp = impl_match(pred, ref, mname, thr, m2o)
        case = {"near_equal_pair": L, "metric": mname, "threshold": thr, "m2o": m2o}
        ctx.count(case, True)
        ctx.bump(f"{mname}/near-equal scores on large instances")
        if isinstance(mp, tuple):
            ctx.violation("matching did not return a result: " + str(mp[1:]), {**case, "observed": mp})
            continue
        cmap = {(r, p): sc for sc, r, p in cands}
        M = [(cmap[(r, p)], r, p) for p, r in mp.items() if (r, p) in cmap]
        chk_in.append([False, m2o, fq(thr), enc_cands(cands), enc_cands(M)])
        chk_meta.append((case, cands, mp))
    # ... and scores that are Farey neighbours (distinct, equal to nine decimals): two predictions competing for one reference
    import random as _random
    for k in range(2 if ctx.tier != "thorough" else 8):
        fseed = rng.randrange(10 ** 6)
        pred, ref, frac = impl.farey_pair(_random.Random(fseed))
        for m2o in (False, True):
            cands = impl_candidates(pred, ref, "IOU")
            thr = 0.25
            mp = impl_match(pred, ref, "IOU", thr, m2o)
            case = {"farey_pair_seed": fseed, "fractions": list(frac), "metric": "IOU", "threshold": thr, "m2o": m2o}
            ctx.count(case, True)
            ctx.bump("IOU/Farey-neighbour scores")
            if isinstance(mp, tuple):
                ctx.violation("matching did not return a result: " + str(mp[1:]), {**case, "observed": mp})
                continue
            cmap = {(r, p): sc for sc, r, p in cands}
            M = [(cmap[(r, p)], r, p) for p, r in mp.items() if (r, p) in cmap]
            chk_in.append([False, m2o, fq(thr), enc_cands(cands), enc_cands(M)])
            chk_meta.append((case, cands, mp))
    res = engine_run(302, chk_in)
    for (case, cands, mp), o in zip(chk_meta, res):
        if o != 1:
            ctx.violation("matching violates the specification (conflict-free / sound / maximal / best-first)",
                          {**case, "candidates": cands, "matching": mp})
    mres = engine_run(301, mod_in)
    for (case, cands, M), o in zip(mod_meta, mres):
        if o[0] != 0:
            ctx.disagree("Matcher.naive_match returned Err", {**case, "model": o})
            continue
        mm = {(c[1], c[2]) for c in o[1]}
        im = {(r, p) for _, r, p in M}
        if mm != im:
            ties = any(a[0] == b[0] and (a[1] == b[1] or a[2] == b[2]) for a, b in itertools.combinations(cands, 2))
            if not ties:
                ctx.disagree("Matcher.naive_match (unique case)", {**case, "implementation": sorted(im), "model": sorted(mm)})
            else:
                ctx.bump("tie-order differs from model (both valid)")
    cres = engine_run(303, cand_in)
    for (pred, ref, mname, cands), o in zip(cand_meta, cres):
        mc = {(c[1], c[2]): Fraction(c[0][0], c[0][1]) for c in o}
        ic = {(r, p): Fraction(s) for s, r, p in cands}
        if mc != ic:
            ctx.violation("candidate pairs / matching scores differ from the overlapping pairs and their metric values",
                          {"pred": pred, "ref": ref, "metric": mname, "implementation": cands, "definition": o})
    triples = [(302, i, o) for i, o in zip(chk_in, res)][:: max(1, len(chk_in) // 30)][:35] + \
              [(301, i, o) for i, o in zip(mod_in, mres)][:: max(1, len(mod_in) // 30)][:35]
    n, bad = coq_crosscheck("C03", triples)
    ctx.crosschecked = n
    for b in bad:
        ctx.disagree("extraction-vs-vm_compute", triples[b])


def replay(path):
    common.serial_pool()
    d = json.loads(open(path).read())
    pred, ref = common.arr_from_json(d["pred"]), common.arr_from_json(d["ref"])
    m = d.get("metric", "IOU")
    cands = impl_candidates(pred, ref, m)
    print("candidates (score, ref, pred):", cands)
    if "near_equal_pair" in d or "farey_pair_seed" in d:
        if "farey_pair_seed" in d:
            import random as _random
            pred, ref, _ = impl.farey_pair(_random.Random(d["farey_pair_seed"]))
        else:
            pred, ref = near_equal_pair(d["near_equal_pair"])
        m = d["metric"]
        cands = impl_candidates(pred, ref, m)
        mp = impl_match(pred, ref, m, d["threshold"], d["m2o"])
        print("candidates (score, ref, pred):", [(repr(s_), r, p) for s_, r, p in cands])
        print("implementation matching pred->ref:", mp)
        cmap = {(r, p): sc for sc, r, p in cands}
        M = [(cmap[(r, p)], r, p) for p, r in mp.items() if (r, p) in cmap] if not isinstance(mp, tuple) else []
        o = engine_run(302, [[False, d["m2o"], fq(d["threshold"]), enc_cands(cands), enc_cands(M)]])[0]
        print("specification (conflict-free, sound, maximal, best-first):", "holds" if o == 1 else "VIOLATED")
        return 0 if o == 1 else 1
    if "threshold" not in d:
        return 1
    mp = impl_match(pred, ref, m, d["threshold"], d["m2o"])
    print("implementation matching pred->ref:", mp)
    if isinstance(mp, tuple):
        return 1
    cmap = {(r, p): s for s, r, p in cands}
    M = [(cmap.get((r, p), 0.0), r, p) for p, r in mp.items()]
    o = engine_run(302, [[m == "ASSD", d["m2o"], fq(d["threshold"]), enc_cands(cands), enc_cands(M)]])[0]
    mo = engine_run(301, [[m == "ASSD", d["m2o"], fq(d["threshold"]), enc_cands(cands)]])[0]
    print("model matching:", mo)
    print("check_valid:", o)
    return 0 if o == 1 else 1
