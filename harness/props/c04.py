"""C04 -- relabelling after matching preserves both segmentations."""
import contextlib
import io
import json

import numpy as np

from harness import common, impl
from harness.common import engine_run, coq_crosscheck

TARGETS = ["theories/Props/C04.vo", "theories/Proofs/GenEq_MatcherLoop.vo"]
GENEQ = {"theories/Proofs/GenEq_MatcherLoop.vo": "MatcherLoop"}
ALLOWED_AXIOMS = []
RULE = ("case = (unmatched pair, matcher in {naive, naive many-to-one, merge}, metric, threshold, dtype uint8/16/32/64) with instance counts "
        "and label values chosen so that (largest reference label + number of unmatched predictions) straddles 255 and 65535; oracle on "
        "match_instances' output: reference values unchanged, prediction foreground unchanged, every prediction instance keeps one label, two "
        "instances share a label iff assigned to the same reference, matched ones carry the reference's label, unmatched ones get labels "
        "outside the reference labels; exact comparison with the model's relabelling; non-trivial = >=1 unmatched and >=1 matched prediction")
ASSUMPTIONS = ["the matching M is taken from the matcher's own _match_instances (the label map handed to map_instance_labels)",
               "numpy fancy indexing / promote_types / min_scalar_type behave as documented (modelled: unbounded integers)"]
TRUSTED = ["numpy C code (modelled, not verified)"]
LEVEL_TEXT = ("Theorems in Props/C04.v hold for every voxel list, every functional matching between occurring labels, unbounded integers: "
              "reference unchanged, foreground unchanged, new labels equal iff same instance or same reference, matched label = reference label, "
              "fresh labels outside the reference labels. The allocation rule (start at max(ref)+1 in Python ints, LUT widened by promote_types) "
              "is re-checked against the AST each run; correspondence stresses dtype limits (uint8 at 255, uint16 at 65535).")
LEVEL_NOTE = "Trusted: Coq kernel, translator, extraction+driver, harness. The absence of fixed-width wrap-around is validated by correspondence at the dtype limits, not proved about numpy."
TECHNIQUE = "machine-checked proof in Rocq (Coq) + AST re-translation + model/implementation correspondence at dtype boundaries"


def run_matcher(kind, mname, thr, pred, ref):
    from panoptica import NaiveThresholdMatching
    from panoptica.instance_matcher import MaximizeMergeMatching
    from panoptica.utils.processing_pair import UnmatchedInstancePair
    m = {"naive": lambda: NaiveThresholdMatching(impl.metric(mname), thr, False),
         "m2o": lambda: NaiveThresholdMatching(impl.metric(mname), thr, True),
         "merge": lambda: MaximizeMergeMatching(impl.metric(mname), thr)}[kind]()
    with contextlib.redirect_stdout(io.StringIO()), np.errstate(all="ignore"):
        # copies that keep the memory layout of the caller's arrays (order="K"): layout is part of what the matcher receives
        up = UnmatchedInstancePair(pred.copy(order="K"), ref.copy(order="K"))
        lm = dict(m._match_instances(up).get_one_to_one_dictionary())
        out = m.match_instances(UnmatchedInstancePair(pred.copy(order="K"), ref.copy(order="K")))
    return {int(k): int(v) for k, v in lm.items()}, out


def oracle(pred, ref, M, out):
    bad = []
    op, orf = out.prediction_arr, out.reference_arr
    if orf.shape != ref.shape or not np.array_equal(orf.astype(object), ref.astype(object)):
        bad.append("reference map changed")
    if op.shape != pred.shape or not np.array_equal(op != 0, pred != 0):
        bad.append("prediction foreground changed")
        return bad
    ref_labels = set(int(x) for x in np.unique(ref) if x != 0)
    L = {}
    for p in [int(x) for x in np.unique(pred) if x != 0]:
        vals = np.unique(op[pred == p])
        if len(vals) != 1:
            bad.append(f"prediction instance {p} was split into labels {vals.tolist()}")
            continue
        L[p] = int(vals[0])
    for p, l in L.items():
        if p in M and l != M[p]:
            bad.append(f"matched prediction {p} carries label {l}, its reference is {M[p]}")
        if p not in M and l in ref_labels:
            bad.append(f"unmatched prediction {p} received reference label {l}")
    ps = sorted(L)
    for i, p in enumerate(ps):
        for q in ps[i + 1:]:
            same = L[p] == L[q]
            should = p in M and q in M and M[p] == M[q]
            if same != should:
                bad.append(f"predictions {p},{q}: labels {L[p]},{L[q]} but {'not ' if not should else ''}assigned to the same reference")
    return bad


INTERLEAVED = set()


def gen(ctx):
    rng = ctx.rng
    cases = []
    # dtype boundary constructions: 1-D arrays, k reference instances with labels up to `top`, u unmatched predictions
    for dt, top in [("uint8", 255), ("uint8", 250), ("uint16", 65535), ("uint16", 65530), ("uint8", 200), ("uint32", 70000), ("uint64", 2 ** 20)]:
        for u in ([1, 3, 10] if ctx.tier == "quick" else [1, 2, 5, 10, 40]):
            k = rng.randint(1, 3)
            n = 3 * (k + u) + 2
            ref = np.zeros((1, n), dt)
            pred = np.zeros((1, n), dt)
            labs = sorted(set(rng.sample(range(max(1, top - 8), top), k - 1) + [top]))
            k = len(labs)
            plabs = rng.sample(range(1, min(top, 250) + 1), k + u)
            for i in range(k):
                ref[0, 3 * i:3 * i + 2] = labs[i]
                pred[0, 3 * i:3 * i + 2] = plabs[i]            # matched (IoU 1)
            for j in range(u):
                pred[0, 3 * (k + j):3 * (k + j) + 2] = plabs[k + j]   # unmatched
            cases.append((pred, ref))
    # missed reference with a label at the top of a wide dtype while every prediction ends up with small labels
    # (all predictions matched to small reference labels): the relabelled prediction must not narrow the reference
    for dt, big in [("uint16", 65535), ("uint16", 300), ("uint32", 70000), ("uint32", 2 ** 24 - 1), ("uint64", 2 ** 20), ("uint16", 256)]:
        for k in (1, 2):
            n = 3 * (k + 2)
            ref = np.zeros((1, n), dt)
            pred = np.zeros((1, n), dt)
            for i in range(k):
                ref[0, 3 * i:3 * i + 2] = i + 1
                pred[0, 3 * i:3 * i + 2] = rng.randint(1, 200)
                while len(set(pred[0, ::3][:i + 1].tolist())) != i + 1:
                    pred[0, 3 * i:3 * i + 2] = rng.randint(1, 200)
            ref[0, 3 * k:3 * k + 2] = big               # missed reference
            cases.append((pred, ref))
    # label values beyond 2^24 (uint32/uint64) with prediction labels that are a rotation of the reference labels: every new label
    # of one prediction is the old label of another one (chains), plus unmatched predictions drawn from the same pool
    for dt, top in ([("uint32", 20_000_000), ("uint64", 2 ** 24 + 5), ("uint32", 2 ** 24)] if ctx.tier == "quick" else
                    [("uint32", 20_000_000), ("uint64", 2 ** 24 + 5), ("uint32", 2 ** 24), ("uint64", 30_000_000), ("uint32", 2 ** 25 + 1)]):
        k = rng.randint(2, 4)
        labs = sorted(set([top] + rng.sample(range(1, 9), k - 1)))
        k = len(labs)
        n = 3 * (k + 2) + 1
        ref = np.zeros((1, n), dt); pred = np.zeros((1, n), dt)
        rot = labs[1:] + labs[:1]
        for i in range(k):
            ref[0, 3 * i:3 * i + 2] = labs[i]
            pred[0, 3 * i:3 * i + 2] = rot[i]
        extra = [x for x in (top - 1, 9, 10) if x not in labs][:2]
        for j, x in enumerate(extra):
            pred[0, 3 * (k + j):3 * (k + j) + 2] = x          # unmatched
        cases.append((pred, ref))
    if ctx.tier == "thorough":   # > 255 / > 65535 instances
        for dt, cnt in [("uint16", 300), ("uint32", 66000)]:
            ref = np.zeros((1, 2 * cnt + 4), dt)
            pred = np.zeros((1, 2 * cnt + 4), dt)
            ref[0, 0:2] = cnt
            pred[0, 0:2] = 1
            pred[0, 4::2][: cnt - 1] = np.arange(2, cnt + 1)
            cases.append((pred, ref))
    for _ in range(ctx.scale(150, 1500)):
        p, r = impl.rand_pair(rng, max_side=6, max_inst=4, dtype=rng.choice(["uint8", "uint16", "uint32", "uint64"]))
        if rng.random() < 0.5 and r.any():
            hi = int(np.iinfo(r.dtype).max) if r.dtype != np.uint64 else 2 ** 22
            hi = min(hi, 2 ** 22)
            r = np.where(r != 0, (hi - int(r.max())) + r.astype(np.int64), 0).astype(r.dtype)   # shift labels to the top of the dtype
        if p.ndim >= 2 and min(p.shape) >= 2 and rng.random() < 0.35:
            # memory layout is not part of the input: Fortran-ordered / transposed-view prediction (and sometimes reference)
            lay = rng.choice(["predF", "bothF", "predT"])
            if lay == "predT":
                p = np.ascontiguousarray(np.transpose(p)).T                 # same logical array, transposed storage
            else:
                p = np.asfortranarray(p)
                if lay == "bothF":
                    r = np.asfortranarray(r)
        cases.append((p, r))
    # several references, each with a main prediction and smaller fragments whose scores interleave with the other references'
    # candidates (best-first order: main of A, main of B, fragment of A, fragment of B, ...): a many-to-one / merge matcher inserts the
    # predictions of one reference NON-consecutively into its label map
    for _ in range(ctx.scale(40, 400)):
        k = rng.randint(2, 3)
        w = 14
        dt = rng.choice(["uint8", "uint16", "uint32"])
        ref = np.zeros((rng.choice([1, 2]), k * w), dt); pred = np.zeros_like(ref)
        rl = rng.sample(range(1, 9), k)
        pl = rng.sample(range(1, 30), 3 * k)
        for i in range(k):
            o = i * w
            n = rng.randint(9, 12)
            ref[:, o:o + n] = rl[i]
            main = n - rng.randint(3, 5) - i                      # different main scores per reference
            pred[:, o:o + main] = pl[3 * i]
            f1 = rng.randint(1, 2)
            pred[:, o + main:o + main + f1] = pl[3 * i + 1]
            if rng.random() < 0.5 and main + f1 < n:
                pred[:, o + main + f1:o + n] = pl[3 * i + 2]
        cases.append((pred, ref))
        INTERLEAVED.add(id(pred))
    # volumes of several million voxels with a handful of instances, one of them entirely in the LAST rows in memory order (whatever
    # is collected block-wise or in passes must see every voxel): an unmatched prediction carrying a reference's label lies there
    for _ in range(ctx.scale(2, 8)):
        spec = big_spec(rng)
        p, r = big_arrays(spec)
        BIG[id(p)] = spec
        cases.append((p, r))
    return cases


BIG = {}


def big_spec(rng):
    shape = rng.choice([(2304, 2048), (2100, 2100), (172, 160, 160), (4_400_000,), (3, 1_500_000)])
    dt = rng.choice(["uint8", "uint16", "uint32"])
    boxes = []          # (which, label, lo, hi)
    nd = len(shape)

    def box(lo0, h0):
        lo = [lo0] + [rng.randint(0, max(0, s - 8)) for s in shape[1:]]
        hi = [min(shape[0], lo0 + h0)] + [min(s, l + rng.randint(2, 6)) for s, l in zip(shape[1:], lo[1:])]
        return lo, hi
    # a matched pair near the start
    lo, hi = box(rng.randint(0, 5), rng.randint(2, 4))
    boxes.append(("ref", 1, lo, hi)); boxes.append(("pred", rng.choice([1, 3]), lo, hi))
    # a missed reference with label 2 somewhere in the middle
    lo, hi = box(shape[0] // 2, 2)
    boxes.append(("ref", 2, lo, hi))
    # an unmatched prediction carrying label 2 (a reference's label) entirely inside the last rows
    lo, hi = box(shape[0] - rng.randint(1, 2), 2)
    boxes.append(("pred", 2, lo, hi))
    if rng.random() < 0.5:
        lo, hi = box(shape[0] - rng.randint(1, 3), 3)
        boxes.append(("ref", 4, lo, hi))
    return {"shape": list(shape), "dtype": dt, "boxes": boxes}


def big_arrays(spec):
    pred = np.zeros(spec["shape"], spec["dtype"])
    ref = np.zeros(spec["shape"], spec["dtype"])
    for which, lab, lo, hi in spec["boxes"]:
        a = pred if which == "pred" else ref
        sl = tuple(slice(int(l), int(h)) for l, h in zip(lo, hi))
        a[sl] = np.where(a[sl] == 0, lab, a[sl])
    return pred, ref


def run(ctx):
    common.serial_pool()
    rng = ctx.rng
    mod_in, mod_meta = [], []
    for pred, ref in gen(ctx):
        if not pred.any() or not ref.any():
            continue
        kind = rng.choice(["naive", "m2o", "merge"])
        mname = rng.choice(["IOU", "DSC"])
        thr = rng.choice([0.0, 0.3, 0.5, 0.9])
        if id(pred) in INTERLEAVED:
            kind, thr = rng.choice(["m2o", "merge", "m2o", "naive"]), rng.choice([0.0, 0.05, 0.1])
        case = {"pred": pred, "ref": ref, "matcher": kind, "metric": mname, "threshold": thr}
        if id(pred) in BIG:
            case = {"large": BIG[id(pred)], "matcher": kind, "metric": mname, "threshold": thr}
        try:
            M, out = run_matcher(kind, mname, thr, pred, ref)
        except Exception as e:  # noqa
            ctx.violation("match_instances raised: " + repr(e)[:150], {**case})
            continue
        npl = len([x for x in np.unique(pred) if x != 0])
        ctx.count({"pred": pred.tolist() if pred.size < 200 else "large", "ref": ref.tolist() if ref.size < 200 else "large",
                   "dtype": str(pred.dtype), "matcher": kind, "thr": thr}, 0 < len(M) < npl)
        ctx.bump(f"{pred.dtype}/{kind}/maxref+unmatched={'>255' if int(ref.max()) + npl - len(M) > 255 else '<=255'}")
        bad = oracle(pred, ref, M, out)
        if bad:
            ctx.violation("relabelling does not preserve the segmentations: " + "; ".join(bad[:3]),
                          {**case, "matching": M, **({} if "large" in case else {"relabelled": out.prediction_arr})})
        if pred.size <= 400:
            arr = [[int(a), int(b)] for a, b in zip(ref.ravel().tolist(), pred.ravel().tolist())]
            mod_in.append([[[p, r] for p, r in M.items()], arr])
            mod_meta.append((case, M, out.prediction_arr.ravel().tolist()))
    # a pair object whose arrays are edited IN PLACE after it was built (a preallocated buffer refilled, an instance split) and then
    # matched: the relabelling must describe the arrays as they are at matching time, not as they were when the pair was constructed
    from panoptica import NaiveThresholdMatching
    from panoptica.instance_matcher import MaximizeMergeMatching
    from panoptica.utils.processing_pair import UnmatchedInstancePair
    for _ in range(ctx.scale(30, 300)):
        dt = rng.choice(["uint8", "uint16", "uint32", "uint64"])
        w = rng.randint(10, 16)
        ref = np.zeros((2, w), dt); pred = np.zeros((2, w), dt)
        ref[:, 0:3] = 1; ref[:, 5:8] = 2
        pred[:, 0:3] = 1; pred[0, 9:w] = 2
        kind = rng.choice(["naive", "m2o", "merge"])
        matcher = {"naive": lambda: NaiveThresholdMatching(impl.metric("IOU"), 0.5, False), "m2o": lambda: NaiveThresholdMatching(impl.metric("IOU"), 0.5, True),
                   "merge": lambda: MaximizeMergeMatching(impl.metric("IOU"), 0.5)}[kind]()
        try:
            with contextlib.redirect_stdout(io.StringIO()), np.errstate(all="ignore"):
                pair = UnmatchedInstancePair(pred, ref)
                before_p, before_r = pred.copy(), ref.copy()
                # the edit: a new prediction label appears (an unmatched instance is split / a further blob is written)
                if rng.random() < 0.5:
                    pred[0, 9 + (w - 9) // 2:w] = 3
                else:
                    pred[1, 9:11] = rng.choice([3, 4])
                if rng.random() < 0.3:
                    ref[1, w - 2:w] = 3
                snap_p, snap_r = pred.copy(), ref.copy()
                out = matcher.match_instances(pair)
        except Exception as e:  # noqa
            ctx.violation("matching a pair whose arrays were edited in place raised: " + repr(e)[:150], {"stale_pair": True, "matcher": kind, "dtype": dt})
            continue
        M = {}
        ref_labels = set(int(x) for x in np.unique(snap_r) if x)
        for p_ in [int(x) for x in np.unique(snap_p) if x]:
            vals = np.unique(out.prediction_arr[snap_p == p_])
            if len(vals) == 1 and int(vals[0]) in ref_labels and (snap_r[snap_p == p_] == int(vals[0])).any():
                M[p_] = int(vals[0])
        ctx.count({"stale_pair": True, "matcher": kind, "dtype": dt, "pred": snap_p.tolist(), "ref": snap_r.tolist()}, True)
        ctx.bump(f"pair edited in place before matching/{kind}")
        bad = oracle(snap_p, snap_r, M, out)
        if bad:
            ctx.violation("pair edited in place, then matched: " + "; ".join(bad[:3]),
                          {"stale_pair": True, "pred": snap_p, "ref": snap_r, "pred_when_pair_was_built": before_p, "ref_when_pair_was_built": before_r,
                           "matcher": kind, "metric": "IOU", "threshold": 0.5, "matching": M, "relabelled": out.prediction_arr})
    outs = engine_run(401, mod_in)
    for (case, M, got), o in zip(mod_meta, outs):
        if [int(x) for x in got] != o:
            ctx.disagree("Relabel.map_instance_labels", {**case, "matching": M, "implementation": got, "model": o})
    triples = [(401, i, o) for i, o in zip(mod_in, outs)]
    step = max(1, len(triples) // 50)
    n, bad = coq_crosscheck("C04", triples[::step][:60])
    ctx.crosschecked = n
    for b in bad:
        ctx.disagree("extraction-vs-vm_compute", triples[::step][b])


def replay(path):
    common.serial_pool()
    d = json.loads(open(path).read())
    if d.get("stale_pair"):
        from panoptica import NaiveThresholdMatching
        from panoptica.instance_matcher import MaximizeMergeMatching
        from panoptica.utils.processing_pair import UnmatchedInstancePair
        pred, ref = common.arr_from_json(d["pred_when_pair_was_built"]), common.arr_from_json(d["ref_when_pair_was_built"])
        after_p, after_r = common.arr_from_json(d["pred"]), common.arr_from_json(d["ref"])
        kind = d["matcher"]
        matcher = {"naive": lambda: NaiveThresholdMatching(impl.metric("IOU"), 0.5, False), "m2o": lambda: NaiveThresholdMatching(impl.metric("IOU"), 0.5, True),
                   "merge": lambda: MaximizeMergeMatching(impl.metric("IOU"), 0.5)}[kind]()
        with contextlib.redirect_stdout(io.StringIO()), np.errstate(all="ignore"):
            pair = UnmatchedInstancePair(pred, ref)
            pred[...] = after_p
            ref[...] = after_r
            out = matcher.match_instances(pair)
        ref_labels = set(int(x) for x in np.unique(after_r) if x)
        M = {}
        for p_ in [int(x) for x in np.unique(after_p) if x]:
            vals = np.unique(out.prediction_arr[after_p == p_])
            if len(vals) == 1 and int(vals[0]) in ref_labels and (after_r[after_p == p_] == int(vals[0])).any():
                M[p_] = int(vals[0])
        print("pair built on:\n", common.arr_from_json(d["pred_when_pair_was_built"]), "\nthen edited in place to:\n", after_p, "\nreference:\n", after_r)
        print("relabelled prediction:\n", out.prediction_arr)
        bad = oracle(after_p, after_r, M, out)
        print("violations:", bad)
        return 1 if bad else 0
    if "large" in d:
        pred, ref = big_arrays(d["large"])
        print("large volume", d["large"]["shape"], d["large"]["dtype"], "boxes (array, label, lo, hi):", d["large"]["boxes"])
    else:
        pred, ref = common.arr_from_json(d["pred"]), common.arr_from_json(d["ref"])
    M, out = run_matcher(d["matcher"], d["metric"], d["threshold"], pred, ref)
    print("matching pred->ref:", M)
    if "large" not in d:
        print("relabelled prediction:", out.prediction_arr.tolist(), out.prediction_arr.dtype)
    bad = oracle(pred, ref, M, out)
    print("violations:", bad)
    return 1 if bad else 0
