"""C10 -- results are invariant under padding, translation, flips and axis permutation."""
import itertools
import json

import numpy as np

from harness import common, impl, meta, pipeline
from harness.props.c02 import gen_cfg

TARGETS = ["theories/Props/C10.vo", "theories/Props/C07.vo", "theories/Proofs/GenEq_Crop.vo"]
GENEQ = {"theories/Proofs/GenEq_Crop.vo": "Crop"}
# units added to the cone after round 2 of the seeded changes (a refused / changed unit must be noticed by this check too)
TARGETS = TARGETS + ["theories/Proofs/GenEq_Backend.vo"]
GENEQ = dict(GENEQ, **{"theories/Proofs/GenEq_Backend.vo": "Backend"})
TARGETS = TARGETS + ["theories/Proofs/GenEq_MatcherLoop.vo"]
GENEQ = dict(GENEQ, **{"theories/Proofs/GenEq_MatcherLoop.vo": "MatcherLoop"})
# T1 units added after round 4 of the seeded changes
TARGETS = TARGETS + ["theories/Proofs/GenEq_AssdKernel.vo"]
GENEQ = dict(GENEQ, **{"theories/Proofs/GenEq_AssdKernel.vo": "AssdKernel"})
ALLOWED_AXIOMS = ["ClassicalDedekindReals.sig_forall_dec", "ClassicalDedekindReals.sig_not_dec", "FunctionalExtensionality.functional_extensionality_dep"]
RULE = ("metamorphic on evaluate(): x vs g(x) for g in {zero padding at random offsets, cropping shared empty margins, every axis flip, every axis "
        "permutation, Fortran-ordered / negatively strided / non-contiguous views of the same data}; all input types; compared when the matching is "
        "uniquely determined (instance input: always, labels and hence candidate order are untouched); non-trivial = >= 1 instance on each side "
        "and g is not the identity")
ASSUMPTIONS = ["memory layout (C/Fortran/negative strides) is outside the model, which sees logical content only: that part is correspondence-only",
               "for semantic input CCA numbering depends on scan order; results are compared only when no competing candidates tie (see known finding D15)"]
TRUSTED = ["numpy/scipy/cc3d C code (modelled, not verified)"]
LEVEL_TEXT = ("Props/C10.v: the whole geometry-free pipeline depends only on the multiset of non-background (reference, prediction) label pairs of "
              "the voxels: C10_pipeline_permutation_invariant (any re-ordering of the voxels: flips, axis permutations, memory orders; every "
              "matcher) and C10_pipeline_depends_on_foreground_only (adding/removing background voxels: padding, embedding at an offset, cropping "
              "empty margins; matched input and the threshold matcher) hold for all arrays and configurations, together with the same statements "
              "for every building block (counts, IoU/Dice/RVD, candidate pairs and scores); ASSD is invariant under translations, axis flips, axis "
              "permutations and the enclosing box (Props/C07). Memory layout and the semantic-input tie-break are decided by metamorphic "
              "correspondence on the implementation.")
LEVEL_NOTE = ("Coq: end-to-end for instance input; for semantic input the component numbering changes under flips (C01 semantic theorem: irrelevant "
              "without ties; with ties = known finding D15); the merge matcher has its own padding theorem (C10_pipeline_merge_matcher_padding_invariant). Axioms only "
              "through C07's real-valued theorems.")
TECHNIQUE = "machine-checked proof in Rocq (Coq) (permutation/background invariance, ASSD isometries) + metamorphic correspondence on the implementation"


def transforms(rng, p, r):
    nd = p.ndim
    out = []
    pads = [(rng.randint(0, 3), rng.randint(0, 3)) for _ in range(nd)]
    out.append(("pad", np.pad(p, pads), np.pad(r, pads)))
    for ax in range(nd):
        out.append((f"flip{ax}", np.flip(p, ax), np.flip(r, ax)))
    if nd > 1:
        for perm in itertools.permutations(range(nd)):
            if perm != tuple(range(nd)):
                out.append((f"perm{perm}", np.transpose(p, perm), np.transpose(r, perm)))
        out.append(("fortran", np.asfortranarray(p), np.asfortranarray(r)))
        out.append(("mixed-layout-pred-F", np.asfortranarray(p), np.ascontiguousarray(r)))
        out.append(("mixed-layout-ref-F", np.ascontiguousarray(p), np.asfortranarray(r)))
    big_p, big_r = np.pad(p, [(1, 1)] * nd), np.pad(r, [(1, 1)] * nd)
    sl = tuple(slice(1, -1) for _ in range(nd))
    out.append(("noncontiguous-view", big_p[sl], big_r[sl]))
    out.append(("negstride", p[::-1][::-1], r[::-1][::-1]))
    nzr = np.argwhere((p != 0) | (r != 0))
    if len(nzr):
        lo, hi = nzr.min(0), nzr.max(0) + 1
        sl = tuple(slice(int(a), int(b)) for a, b in zip(lo, hi))
        out.append(("crop-margins", p[sl], r[sl]))
    return out


def competing(rng):
    """semantic masks where one prediction component bridges two reference components with DIFFERENT overlaps (and vice versa):
    the matching is unique, but only if candidates are visited best-first -- scan order must not matter"""
    h, w = rng.randint(2, 4), rng.randint(14, 22)
    ref = np.zeros((h, w), np.uint8); pred = np.zeros((h, w), np.uint8)
    a = rng.randint(1, 3); la = rng.randint(3, 5); gap = rng.randint(1, 2); lb = rng.randint(2, 6)
    while lb == la:
        lb = rng.randint(2, 6)
    ref[0, a:a + la] = 1
    ref[0, a + la + gap:a + la + gap + lb] = 1
    pred[0, a + rng.randint(0, 1):a + la + gap + lb - rng.randint(0, 1)] = 1      # bridges both references
    if h > 2 and rng.random() < 0.5:
        ref[2, 1:4] = 1; pred[2, 2:5] = 1
    if rng.random() < 0.5:
        pred, ref = ref, pred
    if rng.random() < 0.5:
        pred, ref = pred.T.copy(), ref.T.copy()
    return pred, ref


def run(ctx):
    common.serial_pool()
    rng = ctx.rng
    n_main = ctx.scale(130, 1200)
    for it_no in range(n_main + ctx.scale(60, 400)):
        it = rng.choice(["matched", "unmatched", "unmatched", "semantic"])
        p, r = impl.rand_pair(rng, max_side=6, max_inst=3)
        cfg = gen_cfg(rng, it)
        if it_no >= n_main:
            it = "semantic"
            p, r = competing(rng)
            cfg = gen_cfg(rng, it)
            cfg["matcher"], cfg["m2o"] = "naive", rng.random() < 0.3
            cfg["mmetric"] = rng.choice(["IOU", "DSC"])
            cfg["mthr"] = rng.choice([0.05, 0.1, 0.2, 0.3])
        if it == "semantic":
            p, r = (p != 0).astype("uint8"), (r != 0).astype("uint8")
            if it_no < n_main and rng.random() < 0.35:
                # speckled maps (diagonal contacts: the two backends differ) in shapes with and without singleton axes
                shape = rng.choice([(1, rng.randint(3, 6), rng.randint(3, 6)), (rng.randint(3, 5), 1, rng.randint(3, 6)),
                                    (rng.randint(2, 4), rng.randint(3, 5), rng.randint(3, 5)), (rng.randint(3, 6), rng.randint(3, 7))])
                r = np.array([rng.choice([0, 0, 0, 1, 1]) for _ in range(int(np.prod(shape)))], "uint8").reshape(shape)
                p = r.copy()
                fl = p.reshape(-1)
                for _ in range(rng.randint(0, 3)):
                    fl[rng.randrange(fl.size)] = rng.choice([0, 1])
            if rng.random() < 0.5:
                cfg["backend"] = None                                # default backend: chosen by ndim, which no transformation here changes
            elif cfg.get("backend") is None:
                cfg["backend"] = rng.choice(["cc3d", "scipy"])
        uniq = True
        if it == "semantic":
            try:
                ip, ir = pipeline.approximate(p, r, cfg.get("backend"))
                uniq = meta.unique_matching(cfg, ip, ir)
            except Exception:
                uniq = False
        elif cfg.get("matcher") == "merge":
            uniq = meta.unique_matching(cfg, p, r)
        o1 = impl.evaluate(impl.make_evaluator(cfg), p.copy(), r.copy())
        ts = transforms(rng, p, r)
        if ctx.tier != "thorough":
            ts = rng.sample(ts, min(len(ts), 4))
        for name, p2, r2 in ts:
            o2 = impl.evaluate(impl.make_evaluator(cfg), p2, r2)
            ctx.count({"cfg": cfg, "pred": p.tolist(), "ref": r.tolist(), "g": name}, p.any() and r.any())
            ctx.bump(f"{it}/{name.split('(')[0][:8]}/unique={uniq}")
            d = meta.same_outcome(o1, o2)
            if d:
                key = None
                if it == "semantic" and not uniq:
                    key = "D15-semantic-tie-order"
                rep = {"cfg": cfg, "pred": p, "ref": r, "transform": name, "pred2": p2, "ref2": r2}
                if key:
                    rep["finding_key"] = key
                ctx.violation(f"{name} changed the result: " + d, rep)
            elif uniq and name.startswith("pad") and not isinstance(o2, tuple) and rng.random() < 0.6:
                # the processing pair evaluate() hands back as its first intermediate step, evaluated again through the public
                # panoptic_evaluate with the same components, must give the same result -- for the embedded input as well
                s2 = impl.second_stage(cfg, o2)
                ctx.bump("second stage on the returned pair")
                d2 = meta.same_outcome(o2, s2)
                if d2:
                    ctx.violation(f"re-evaluating the pair returned by evaluate() on the {name} input changed the result: " + d2,
                                  {"cfg": cfg, "pred": p, "ref": r, "transform": name, "pred2": p2, "ref2": r2, "second_stage": True})
    # single slices stored as volumes (an axis of length 1), default backend: padding along the thin axis, moving the thin axis
    for _ in range(ctx.scale(30, 250)):
        h, w = rng.randint(3, 6), rng.randint(3, 7)
        ax = rng.randrange(3)
        shape = [h, w]; shape.insert(ax, 1)
        r = np.array([rng.choice([0, 0, 0, 1, 1]) for _ in range(h * w)], "uint8").reshape(shape)
        p = r.copy()
        fl = p.reshape(-1)
        for _k in range(rng.randint(0, 3)):
            fl[rng.randrange(fl.size)] = rng.choice([0, 1])
        cfg = gen_cfg(rng, "semantic")
        cfg["backend"] = None if rng.random() < 0.7 else rng.choice(["cc3d", "scipy"])
        try:
            ip, ir = pipeline.approximate(p, r, cfg.get("backend"))
            uniq = meta.unique_matching(cfg, ip, ir)
        except Exception:
            uniq = False
        o1 = impl.evaluate(impl.make_evaluator(cfg), p.copy(), r.copy())
        pads = [(rng.randint(0, 2), rng.randint(0, 2)) for _k in range(3)]
        pads[ax] = (rng.randint(0, 3), rng.randint(1, 3))
        perm = rng.choice([q for q in itertools.permutations(range(3)) if q != (0, 1, 2)])
        ts = [("pad-thin-axis", np.pad(p, pads), np.pad(r, pads)), (f"perm{perm}", np.transpose(p, perm), np.transpose(r, perm)),
              (f"perm{perm}+pad", np.pad(np.transpose(p, perm), 2), np.pad(np.transpose(r, perm), 2))]
        for name, p2, r2 in ts:
            o2 = impl.evaluate(impl.make_evaluator(cfg), p2, r2)
            ctx.count({"cfg": cfg, "pred": p.tolist(), "ref": r.tolist(), "g": name}, bool(p.any() and r.any()))
            ctx.bump(f"semantic-thin/{name[:8]}/unique={uniq}")
            d = meta.same_outcome(o1, o2)
            if d:
                rep = {"cfg": cfg, "pred": p, "ref": r, "transform": name, "pred2": p2, "ref2": r2}
                if not uniq:
                    rep["finding_key"] = "D15-semantic-tie-order"
                ctx.violation(f"{name} changed the result: " + d, rep)
    # structures spanning the volume along an axis (touching two opposite faces) under the surface-distance metric: embedding the same
    # structures into a larger volume, or cropping shared empty margins, must not change any border or distance
    for _ in range(ctx.scale(40, 300)):
        nd = rng.choice([2, 2, 3])
        shape = [rng.randint(3, 7) for _k in range(nd)]
        r = np.zeros(shape, "uint8")
        p = np.zeros(shape, "uint8")
        ax = rng.randrange(nd)
        for lab in range(1, rng.randint(1, 2) + 1):
            sl = []
            for k in range(nd):
                a = rng.randrange(shape[k])
                sl.append(slice(a, min(shape[k], a + rng.randint(1, 3))))
            span = rng.random() < 0.8
            if span:
                sl[ax] = slice(None)                       # touches both faces of axis ax
            blk = np.zeros(shape, bool)
            blk[tuple(sl)] = True
            r[blk & (r == 0)] = lab
            other = rng.choice([k for k in range(nd) if k != ax]) if nd > 1 else ax
            pb = np.roll(blk, rng.choice([0, 0, 1, -1]), axis=other) if rng.random() < 0.6 else blk.copy()
            if rng.random() < 0.4:
                idx = np.argwhere(pb)
                pb[tuple(idx[rng.randrange(len(idx))])] = False
            p[pb & (p == 0)] = lab
        it = rng.choice(["matched", "unmatched"])
        cfg = gen_cfg(rng, it)
        cfg["imetrics"] = rng.choice([["ASSD", "IOU"], ["DSC", "IOU", "ASSD", "RVD"]])
        cfg.pop("dmetric", None); cfg.pop("dthr", None)
        cfg["gmetrics"] = rng.choice([[], ["ASSD"], ["DSC", "ASSD"]])
        if it == "unmatched":
            cfg["matcher"], cfg["m2o"] = "naive", False
            cfg["mmetric"], cfg["mthr"] = rng.choice([("IOU", 0.0), ("IOU", 0.25), ("ASSD", 3.0), ("ASSD", 100.0)])
        if not meta.unique_matching(cfg, p, r):
            continue
        o1 = impl.evaluate(impl.make_evaluator(cfg), p.copy(), r.copy())
        pads = [(rng.randint(1, 3), rng.randint(1, 3)) for _k in range(nd)]
        ts = [("pad-all-faces", np.pad(p, pads), np.pad(r, pads))]
        one = [(0, 0)] * nd
        one[ax] = (rng.randint(1, 2), rng.randint(0, 2))
        ts.append(("pad-spanned-axis", np.pad(p, one), np.pad(r, one)))
        nzr = np.argwhere((p != 0) | (r != 0))
        if len(nzr):
            lo, hi = nzr.min(0), nzr.max(0) + 1
            ts.append(("crop-margins", p[tuple(slice(int(a), int(b)) for a, b in zip(lo, hi))], r[tuple(slice(int(a), int(b)) for a, b in zip(lo, hi))]))
        for name, p2, r2 in ts:
            o2 = impl.evaluate(impl.make_evaluator(cfg), p2.copy(), r2.copy())
            ctx.count({"cfg": cfg, "pred": p.tolist(), "ref": r.tolist(), "g": name}, bool(p.any() and r.any()))
            ctx.bump(f"face-touching/{name}")
            d = meta.same_outcome(o1, o2)
            if d:
                ctx.violation(f"{name} changed the result (structure touching opposite faces): " + d,
                              {"cfg": cfg, "pred": p, "ref": r, "transform": name, "pred2": p2, "ref2": r2})
    # neighbouring structures whose predictions LEAK into each other's reference by several voxels while both pairs still match
    # (semantic input: flips renumber the components, nothing else changes)
    for _ in range(ctx.scale(30, 250)):
        la, gap, lb, leak = rng.randint(9, 14), rng.randint(1, 2), rng.randint(11, 16), rng.randint(3, 6)
        h = rng.choice([1, 2, 3])
        w = 2 + la + gap + lb + rng.randint(1, 3)
        r = np.zeros((h, w), "uint8"); p = np.zeros((h, w), "uint8")
        a0 = rng.randint(0, 2)
        b0 = a0 + la + gap
        r[:, a0:a0 + la] = 1; r[:, b0:b0 + lb] = 1
        p[:, a0:b0 + leak] = 1; p[:, b0 + leak + 1:b0 + lb] = 1
        if rng.random() < 0.5:
            p, r = np.ascontiguousarray(p[:, ::-1]), np.ascontiguousarray(r[:, ::-1])
        if rng.random() < 0.3:
            p, r = p.T.copy(), r.T.copy()
        cfg = gen_cfg(rng, "semantic")
        cfg["matcher"], cfg["m2o"], cfg["mmetric"], cfg["mthr"] = "naive", False, "IOU", rng.choice([0.3, 0.5])
        cfg.pop("dmetric", None); cfg.pop("dthr", None)
        cfg["backend"] = rng.choice([None, "cc3d", "scipy"])
        try:
            ip, ir = pipeline.approximate(p, r, cfg.get("backend"))
            uniq = meta.unique_matching(cfg, ip, ir)
        except Exception:
            uniq = False
        if not uniq:
            continue
        o1 = impl.evaluate(impl.make_evaluator(cfg), p.copy(), r.copy())
        ts = [(f"flip{ax}", np.flip(p, ax), np.flip(r, ax)) for ax in range(2)] + [("transpose", p.T, r.T), ("pad", np.pad(p, 2), np.pad(r, 2))]
        for name, p2, r2 in ts:
            o2 = impl.evaluate(impl.make_evaluator(cfg), p2.copy(), r2.copy())
            ctx.count({"cfg": cfg, "pred": p.tolist(), "ref": r.tolist(), "g": name}, True)
            ctx.bump(f"leaking-neighbours/{name}")
            d = meta.same_outcome(o1, o2)
            if d:
                ctx.violation(f"{name} changed the result (neighbouring structures, predictions reaching into each other's reference): " + d,
                              {"cfg": cfg, "pred": p, "ref": r, "transform": name, "pred2": np.ascontiguousarray(p2), "ref2": np.ascontiguousarray(r2)})
    # many reference structures, few predicted ones (most references missed): which reference a prediction meets -- an early or a late
    # one in scan order -- changes under flips, nothing else does
    for _ in range(ctx.scale(40, 300)):
        k = rng.randint(4, 8)
        h = rng.choice([1, 2, 3])
        w = 4 * k + 2
        r = np.zeros((h, w), "uint8"); p = np.zeros((h, w), "uint8")
        for j in range(k):
            r[:, 1 + 4 * j:1 + 4 * j + rng.choice([2, 3])] = 1
        for j in rng.sample(range(k), rng.randint(1, 2)):
            p[:, 1 + 4 * j:1 + 4 * j + rng.choice([2, 3])] = 1
        if rng.random() < 0.5 and h > 1:
            p[h - 1, w - 1] = 1                                          # a spurious prediction touching nothing
            r[h - 1, w - 2:w] = 0
        if rng.random() < 0.3:
            p, r = p.T.copy(), r.T.copy()
        cfg = gen_cfg(rng, "semantic")
        cfg["matcher"], cfg["m2o"], cfg["mmetric"], cfg["mthr"] = "naive", False, "IOU", 0.5
        cfg.pop("dmetric", None); cfg.pop("dthr", None)
        cfg["backend"] = rng.choice([None, "cc3d", "scipy"])
        try:
            ip, ir = pipeline.approximate(p, r, cfg.get("backend"))
            uniq = meta.unique_matching(cfg, ip, ir)
        except Exception:
            uniq = False
        if not uniq:
            continue
        o1 = impl.evaluate(impl.make_evaluator(cfg), p.copy(), r.copy())
        for name, p2, r2 in [(f"flip{ax}", np.flip(p, ax), np.flip(r, ax)) for ax in range(2)] + [("transpose", p.T, r.T), ("flip-both", np.flip(p), np.flip(r))]:
            o2 = impl.evaluate(impl.make_evaluator(cfg), p2.copy(), r2.copy())
            ctx.count({"cfg": cfg, "pred": p.tolist(), "ref": r.tolist(), "g": name}, True)
            ctx.bump(f"many-missed-references/{name}")
            d = meta.same_outcome(o1, o2)
            if d:
                ctx.violation(f"{name} changed the result (many reference structures, few predictions): " + d,
                              {"cfg": cfg, "pred": p, "ref": r, "transform": name, "pred2": np.ascontiguousarray(p2), "ref2": np.ascontiguousarray(r2)})
    # the D15 witness (semantic input, two equal-score competing candidates; left-right flip)
    w = common.VERIF / "corpus" / "C10" / "d15.json"
    if w.exists():
        d = json.loads(w.read_text())
        p, r = common.arr_from_json(d["pred"]), common.arr_from_json(d["ref"])
        o1, o2 = meta.run_both(d["cfg"], p, r, np.flip(p, d["axis"]), np.flip(r, d["axis"]))
        diff = meta.same_outcome(o1, o2)
        ctx.count({"corpus": "d15"}, True)
        if diff:
            ctx.violation("flip changed the result under a tie of competing candidates (semantic input): " + diff,
                          {"cfg": d["cfg"], "pred": p, "ref": r, "transform": f"flip{d['axis']}", "pred2": np.flip(p, d["axis"]).copy(),
                           "ref2": np.flip(r, d["axis"]).copy(), "finding_key": "D15-semantic-tie-order"})


def replay(path):
    common.serial_pool()
    d = json.loads(open(path).read())
    a = [common.arr_from_json(d[k]) for k in ("pred", "ref", "pred2", "ref2")]
    o1, o2 = meta.run_both(d["cfg"], *a)
    diff = meta.same_outcome(o1, o2)
    print("difference:", diff)
    if d.get("second_stage"):
        s2 = impl.second_stage(d["cfg"], o2)
        diff = meta.same_outcome(o2, s2)
        print("second stage (panoptic_evaluate on the pair returned for the transformed input) vs first stage:", diff)
    return 1 if diff else 0
