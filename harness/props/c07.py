"""C07 -- ASSD is the mean of the two directed average surface distances.

The model (coq/theories/Model/Assd.v) IS the definition: border voxel = foreground voxel with a face
neighbour that is background or outside the array; directed list = for every border voxel of one mask
(C order) the squared distance to the nearest border voxel of the other.  Props/C07.v proves the laws of
that definition (symmetry, >= 0, = 0 iff same border, invariance under translation / flips / axis
permutations / enclosing box / per-instance crop, order independence).

T2 (this file): the implementation imported from /repo is compared with the definition
  * `__surface_distances` in both directions, squared and rounded, EXACTLY as sequences (engine op 701);
  * the returned double of Metric.ASSD / _average_symmetric_surface_distance against
    (mean sqrt + mean sqrt)/2 evaluated from the model's lists in 50-digit decimals (2^-30 relative) and
    against the proved rational enclosure [assd_lo, assd_hi] at k = 30 (engine op 702);
  * the per-instance path instance_evaluator._evaluate_instance (crop, then metric) on label arrays with
    the instance at array borders and with different paddings: the crop must not change the value;
  * metamorphic checks on the implementation alone: exchange of the arguments, padding, tight crop,
    flips, transposes.
A disagreement between implementation and definition is a violation of C07 (reported with the arrays)."""
import decimal
import itertools
import json
from fractions import Fraction

import numpy as np

from harness import common
from harness.common import engine_run, coq_crosscheck

TARGETS = ["theories/Props/C07.vo", "theories/Proofs/GenEq_Crop.vo"]
GENEQ = {"theories/Proofs/GenEq_Crop.vo": "Crop"}
# T1 units added after round 4 of the seeded changes
TARGETS = TARGETS + ["theories/Proofs/GenEq_AssdKernel.vo"]
GENEQ = dict(GENEQ, **{"theories/Proofs/GenEq_AssdKernel.vo": "AssdKernel"})
ALLOWED_AXIOMS = [
    "Axioms",   # not an axiom: the header line "Axioms:" of Print Assumptions, which the driver's line parser reads as a name
                # (`Axioms` is a reserved word of Coq, no constant can have that name); axiom_audit() below re-parses robustly
    # exactly the axioms Coq's standard-library real numbers (Reals, classical Dedekind construction) rest on;
    # they enter only through assd_R (sqrt, division on R).  All integer/list theorems are closed.
    "ClassicalDedekindReals.sig_forall_dec",
    "ClassicalDedekindReals.sig_not_dec",
    "FunctionalExtensionality.functional_extensionality_dep",
]
RULE = ("case = pair of non-empty binary masks of equal shape (1-D..3-D); exhaustive layer: all pairs of non-empty masks "
        "on 6, 1x5, 2x3 (always) and 2x2x2 (thorough; seeded slice of 4000 in quick); random layer up to 7^3: single voxels, one-voxel-thick "
        "sheets/lines, objects touching or filling the array border, disjoint, nested, hollow shells, random blobs; every "
        "random case additionally through padding/tight-crop/flip/transpose/swap metamorphic variants and through the "
        "per-instance crop path with random paddings and foreign labels; buffer layer: two arrays refilled in place between calls, every "
        "call against the definition on the current contents; non-trivial = both masks non-empty and different")
ASSUMPTIONS = [
    "scipy.ndimage.binary_erosion (border_value=0) and scipy.ndimage._nd_image.euclidean_feature_transform are modelled "
    "by their mathematical specification (face-neighbour erosion; nearest zero voxel), not verified; validated only by this correspondence",
    "numpy boolean indexing dt[mask] enumerates the True voxels in C order (the order of np.argwhere); sds.mean()/np.mean "
    "are the arithmetic mean up to float rounding (compared at 2^-30 relative, not bit-exactly)",
    "voxelspacing=None and connectivity=1 (the defaults panoptica uses); other values are outside the property",
    "empty masks are outside the property (panoptica's edge-case handler intercepts them before the metric is called)",
]
TRUSTED = ["scipy/numpy C code (modelled, not verified)", "python decimal (50 digits) for the reference value of the real formula"]

DTYPES = ["bool", "uint8", "int64", "int8", "uint16"]
TOL = Fraction(1, 2 ** 30)
decimal.getcontext().prec = 50
_SQ = {}


def dsqrt(d: int) -> decimal.Decimal:
    r = _SQ.get(d)
    if r is None:
        r = _SQ[d] = decimal.Decimal(d).sqrt()
    return r


def expected_value(l1, l2) -> Fraction:
    m1 = sum(dsqrt(d) for d in l1) / len(l1)
    m2 = sum(dsqrt(d) for d in l2) / len(l2)
    return Fraction((m1 + m2) / 2)


# ------------------------------------------------------------------ implementation side
def _impl():
    import panoptica.metrics.assd as A
    from panoptica.metrics import Metric
    return A.__dict__["__surface_distances"], A._average_symmetric_surface_distance, Metric


def sq_list(sds):
    """squared, rounded surface distances; None if some distance^2 is not an integer up to 1e-6"""
    sds = np.asarray(sds, dtype=np.float64).ravel()
    sq = sds * sds
    r = np.rint(sq)
    if sq.size and (not np.all(np.isfinite(sq)) or np.max(np.abs(sq - r)) >= 1e-6):
        return None
    return [int(x) for x in r]


def impl_eval(ref, pred):
    """-> dict(l1, l2, value, value_fn) or dict(error=...).
    l1 = border voxels of ref -> pred border  ( __surface_distances(pred, ref) ),  l2 the other direction."""
    sd, assd_fn, Metric = _impl()
    try:
        with np.errstate(all="ignore"):
            l1 = sq_list(sd(pred, ref))
            l2 = sq_list(sd(ref, pred))
            v = float(Metric.ASSD(ref, pred))
            v2 = float(assd_fn(ref, pred))
    except Exception as e:  # noqa
        return {"error": f"{type(e).__name__}: {e}"}
    return {"l1": l1, "l2": l2, "value": v, "value_fn": v2}


def impl_value(ref, pred):
    _, _, Metric = _impl()
    try:
        with np.errstate(all="ignore"):
            return float(Metric.ASSD(ref, pred))
    except Exception as e:  # noqa
        return f"{type(e).__name__}: {e}"


def impl_instance(ref_labels, pred_labels, idx):
    from panoptica.instance_evaluator import _evaluate_instance
    _, _, Metric = _impl()
    try:
        with np.errstate(all="ignore"):
            r = _evaluate_instance(ref_labels, pred_labels, idx, [Metric.ASSD])
            v = float(r[Metric.ASSD])
            w = float(Metric.ASSD(ref_labels, pred_labels, idx, idx))
            # the exported kernel called directly on label maps whose two instances carry DIFFERENT labels
            from panoptica.metrics import _compute_instance_average_symmetric_surface_distance as kernel
            idx2 = int(max(int(ref_labels.max()), int(pred_labels.max()))) + 3
            pl2 = pred_labels.astype(np.int64)
            pl2[pred_labels == idx] = idx2
            kv = float(kernel(ref_labels.astype(np.int64), pl2, idx, idx2))
    except Exception as e:  # noqa
        return {"error": f"{type(e).__name__}: {e}"}
    return {"cropped": v, "uncropped": w, "kernel": kv}


# ------------------------------------------------------------------ model side
def vox(mask):
    return np.argwhere(np.asarray(mask) != 0).tolist()


def model_in(ref, pred):
    return [ref.ndim, vox(ref), vox(pred)]


def close(v, e: Fraction, tol=TOL):
    if not isinstance(v, float) or v != v or v in (float("inf"), float("-inf")):
        return False
    return abs(Fraction(v) - e) <= tol * max(1, abs(e))


def compare(im, lists, enc):
    """problems (list of strings) of the implementation result `im` against the definition"""
    if "error" in im:
        return ["implementation raised " + im["error"]]
    if len(lists) != 2:
        return [f"model rejected the input: {lists}"]
    m1, m2 = lists
    out = []
    if im["l1"] != m1:
        out.append("directed distances reference-border -> prediction-border differ from the definition")
    if im["l2"] != m2:
        out.append("directed distances prediction-border -> reference-border differ from the definition")
    if not m1 or not m2:
        return out + ["definition yields an empty list (empty mask?)"]
    e = expected_value(m1, m2)
    for name in ("value", "value_fn"):
        if not close(im[name], e):
            out.append(f"{'Metric.ASSD' if name == 'value' else '_average_symmetric_surface_distance'} = {im[name]!r} "
                       f"but (mean sqrt + mean sqrt)/2 = {float(e)!r}")
    if enc is not None and isinstance(im["value"], float) and im["value"] == im["value"] and abs(im["value"]) != float("inf"):
        lo, hi = Fraction(*enc[0]), Fraction(*enc[1])
        v = Fraction(im["value"])
        slack = Fraction(1, 2 ** 40) * max(1, abs(v))      # the double itself is rounded
        if not (lo - slack <= v <= hi + slack):
            out.append(f"returned value {im['value']!r} outside the proved enclosure [{float(lo)!r}, {float(hi)!r}]")
        if not (lo - Fraction(1, 10 ** 45) <= e <= hi + Fraction(1, 10 ** 45)):     # e is a 50-digit decimal
            out.append("harness decimal value outside the model's enclosure (harness/model inconsistency)")
    return out


# ------------------------------------------------------------------ generators
def rnd_shape(rng, nd, lo=1, hi=7):
    return tuple(rng.randint(lo, hi) for _ in range(nd))


def box_mask(shape, lo, hi):
    m = np.zeros(shape, dtype=bool)
    m[tuple(slice(a, b) for a, b in zip(lo, hi))] = True
    return m


def rnd_box(rng, shape, minlen=1):
    lo, hi = [], []
    for s in shape:
        a = rng.randint(0, s - 1)
        b = rng.randint(a + 1, s)
        if b - a < minlen and s >= minlen:
            a = rng.randint(0, s - minlen)
            b = a + minlen
        lo.append(a)
        hi.append(b)
    return lo, hi


def rnd_blob(rng, shape, p=None):
    p = rng.choice([0.15, 0.3, 0.5, 0.7, 0.9]) if p is None else p
    m = np.array([rng.random() < p for _ in range(int(np.prod(shape)))], dtype=bool).reshape(shape)
    if not m.any():
        m.reshape(-1)[rng.randrange(m.size)] = True
    return m


def single(rng, shape):
    m = np.zeros(shape, dtype=bool)
    m[tuple(rng.randrange(s) for s in shape)] = True
    return m


def sheet(rng, shape):
    """one-voxel-thick hyperplane piece (a line in 2-D, a sheet in 3-D)"""
    m = np.zeros(shape, dtype=bool)
    ax = rng.randrange(len(shape))
    lo, hi = rnd_box(rng, shape, minlen=2)
    lo[ax] = rng.randrange(shape[ax])
    hi[ax] = lo[ax] + 1
    m[tuple(slice(a, b) for a, b in zip(lo, hi))] = True
    return m


def shell(rng, shape):
    lo, hi = rnd_box(rng, shape, minlen=3)
    m = box_mask(shape, lo, hi)
    ilo = [a + 1 for a in lo]
    ihi = [b - 1 for b in hi]
    if all(b > a for a, b in zip(ilo, ihi)):
        m[tuple(slice(a, b) for a, b in zip(ilo, ihi))] = False
    return m


def gen_random(rng, kind):
    nd = rng.choice([1, 2, 2, 3, 3, 3])
    shape = rnd_shape(rng, nd, 1, 7)
    if kind == "single":
        return single(rng, shape), rng.choice([single, rnd_blob])(rng, shape)
    if kind == "sheet":
        return sheet(rng, shape), rng.choice([sheet, rnd_blob, lambda r, s: box_mask(s, *rnd_box(r, s))])(rng, shape)
    if kind == "border":      # objects touching / filling the array border
        a = np.ones(shape, dtype=bool) if rng.random() < 0.4 else box_mask(shape, [0] * nd, [rng.randint(1, s) for s in shape])
        b = rng.choice([lambda r, s: np.ones(s, dtype=bool), rnd_blob,
                        lambda r, s: box_mask(s, [r.randint(0, x - 1) for x in s], list(s))])(rng, shape)
        return a, b
    if kind == "disjoint":
        shape = tuple(max(2, s) for s in shape)
        ax = rng.randrange(nd)
        cut = rng.randint(1, shape[ax] - 1)
        a = rnd_blob(rng, shape)
        b = rnd_blob(rng, shape)
        sl = [slice(None)] * nd
        sl[ax] = slice(cut, None)
        a[tuple(sl)] = False
        sl[ax] = slice(0, cut)
        b[tuple(sl)] = False
        if not a.any():
            idx = [rng.randrange(s) for s in shape]; idx[ax] = rng.randrange(cut); a[tuple(idx)] = True
        if not b.any():
            idx = [rng.randrange(s) for s in shape]; idx[ax] = rng.randrange(cut, shape[ax]); b[tuple(idx)] = True
        return a, b
    if kind == "nested":
        lo, hi = rnd_box(rng, shape, minlen=3)
        a = box_mask(shape, lo, hi)
        ilo = [rng.randint(x, y - 1) for x, y in zip(lo, hi)]
        ihi = [rng.randint(x + 1, y) for x, y in zip(ilo, hi)]
        b = box_mask(shape, ilo, ihi)
        if rng.random() < 0.3:
            a = shell(rng, shape)
        return (a, b) if rng.random() < 0.5 else (b, a)
    if kind == "far":         # two small objects hundreds of voxels apart along one axis (large per-axis offsets)
        nd = rng.choice([1, 2, 3])
        long = rng.choice([190, 260, 400, 700])
        shape = tuple([long] + [rng.randint(1, 3) for _ in range(nd - 1)])
        perm = list(range(nd)); rng.shuffle(perm)
        a = np.zeros(shape, dtype=bool); b = np.zeros(shape, dtype=bool)
        w = rng.randint(1, 3)
        a[0:w] = True
        gap = rng.choice([181, 182, 185, long - 2 * w - 1])
        start = min(long - w, w + gap)
        b[start:start + w] = True
        if rng.random() < 0.3:
            b[0:1] = True                   # also a near part
        return np.ascontiguousarray(np.transpose(a, perm)), np.ascontiguousarray(np.transpose(b, perm))
    if kind == "near":        # a mask and a perturbed copy
        a = rnd_blob(rng, shape)
        b = a.copy()
        for _ in range(rng.randint(0, 3)):
            b.reshape(-1)[rng.randrange(b.size)] ^= True
        if not b.any():
            b = a.copy()
        return a, b
    return rnd_blob(rng, shape), rnd_blob(rng, shape)


KINDS = ["single", "sheet", "border", "disjoint", "nested", "near", "blob", "far"]


def enum_layer(ctx, shape, limit):
    n = int(np.prod(shape))
    masks = [np.array(v, dtype=bool).reshape(shape) for v in itertools.product([0, 1], repeat=n)][1:]
    pairs = list(itertools.product(range(len(masks)), repeat=2))
    full = limit is None or limit >= len(pairs)
    if not full:
        pairs = ctx.rng.sample(pairs, limit)
    ctx.layers.append({"layer": f"all pairs of non-empty masks on {'x'.join(map(str, shape))}", "pairs": len(pairs),
                       "of": (2 ** n - 1) ** 2, "exhaustive": full})
    return [("enum-" + "x".join(map(str, shape)), masks[i], masks[j]) for i, j in pairs], full


def transforms(rng, ref, pred):
    """metamorphic variants: (descriptor, ref', pred', order_preserved)"""
    nd = ref.ndim
    out = [(["swap"], pred, ref, True)]
    w = [(rng.randint(0, 3), rng.randint(0, 3)) for _ in range(nd)]
    out.append((["pad", w], np.pad(ref, w), np.pad(pred, w), True))
    u = ref.astype(bool) | pred.astype(bool)
    nz = np.argwhere(u)
    lo, hi = nz.min(axis=0), nz.max(axis=0) + 1
    sl = tuple(slice(int(a), int(b)) for a, b in zip(lo, hi))
    out.append((["tight"], ref[sl], pred[sl], True))
    ax = rng.randrange(nd)
    out.append((["flip", ax], np.flip(ref, ax), np.flip(pred, ax), False))
    if nd >= 2:
        perm = list(range(nd))
        while perm == list(range(nd)):
            rng.shuffle(perm)
        out.append((["transpose", perm], np.transpose(ref, perm), np.transpose(pred, perm), False))
    return out


def apply_transform(desc, ref, pred):
    if desc[0] == "swap":
        return pred, ref
    if desc[0] == "pad":
        w = [tuple(x) for x in desc[1]]
        return np.pad(ref, w), np.pad(pred, w)
    if desc[0] == "tight":
        nz = np.argwhere(ref.astype(bool) | pred.astype(bool))
        sl = tuple(slice(int(a), int(b)) for a, b in zip(nz.min(axis=0), nz.max(axis=0) + 1))
        return ref[sl], pred[sl]
    if desc[0] == "flip":
        return np.flip(ref, desc[1]), np.flip(pred, desc[1])
    if desc[0] == "transpose":
        return np.transpose(ref, desc[1]), np.transpose(pred, desc[1])
    raise ValueError(desc)


def meta_problems(desc, base, var, order_preserved):
    """pure implementation check: the variant's lists/value against the original's"""
    if "error" in var:
        return ["implementation raised on the transformed input: " + var["error"]]
    out = []
    b1, b2 = base["l1"], base["l2"]
    if desc[0] == "swap":
        b1, b2 = b2, b1
    for b, v, nm in ((b1, var["l1"], "reference->prediction"), (b2, var["l2"], "prediction->reference")):
        if b is None or v is None:
            out.append("non-integer squared distance")
        elif (b != v) if order_preserved else (sorted(b) != sorted(v)):
            out.append(f"{nm} distances change under {desc[0]}")
    bv, vv = base["value"], var["value"]
    if not (abs(bv - vv) <= 1e-12 * max(1.0, abs(bv))):
        out.append(f"ASSD changes under {desc[0]}: {bv!r} -> {vv!r}")
    return out


def embed_labels(rng, ref, pred, idx=None, pads=None, noise=None):
    """label arrays containing the two masks as instance `idx`, padded, with foreign labels elsewhere"""
    nd = ref.ndim
    idx = idx or rng.choice([1, 2, 3, 7, 200])
    pads = pads or [(rng.choice([0, 0, 1, 2, 3, 5]), rng.choice([0, 0, 1, 2, 3, 5])) for _ in range(nd)]
    R = np.pad(ref.astype(bool), pads)
    P = np.pad(pred.astype(bool), pads)
    seed = rng.randrange(2 ** 31) if noise is None else noise
    g = np.random.RandomState(seed)
    other = [x for x in (1, 2, 3, 5, 9) if x != idx]
    nr = g.choice([0, 0, 0] + other, size=R.shape)
    npd = g.choice([0, 0, 0] + other, size=R.shape)
    RL = np.where(R, idx, nr).astype(np.uint8 if idx < 256 else np.uint16)
    PL = np.where(P, idx, npd).astype(np.uint8 if idx < 256 else np.uint16)
    return RL, PL, idx, pads, seed


# ------------------------------------------------------------------ shrinking a failing direct case
def fails_direct(ref, pred):
    if not ref.any() or not pred.any():
        return False
    im = impl_eval(ref, pred)
    lists = engine_run(701, [model_in(ref, pred)])[0]
    return bool(compare(im, lists, None))


def shrink(ref, pred, budget=150):
    ref, pred = ref.astype(bool).copy(), pred.astype(bool).copy()
    n = 0
    changed = True
    while changed and n < budget:
        changed = False
        # tight crop
        nz = np.argwhere(ref | pred)
        sl = tuple(slice(int(a), int(b)) for a, b in zip(nz.min(axis=0), nz.max(axis=0) + 1))
        if ref[sl].shape != ref.shape:
            n += 1
            if fails_direct(ref[sl], pred[sl]):
                ref, pred, changed = ref[sl].copy(), pred[sl].copy(), True
        for arr in (ref, pred):
            for v in np.argwhere(arr):
                if n >= budget:
                    break
                if arr.sum() <= 1:
                    break
                arr[tuple(v)] = False
                n += 1
                if fails_direct(ref, pred):
                    changed = True
                else:
                    arr[tuple(v)] = True
    return ref, pred


# ------------------------------------------------------------------ own audit of Print Assumptions
REALS_AXIOMS = {"ClassicalDedekindReals.sig_forall_dec", "ClassicalDedekindReals.sig_not_dec",
                "FunctionalExtensionality.functional_extensionality_dep"}
CLOSED_THEOREMS = ["C07_face_neighbours", "C07_border_definition", "C07_nearest_is_minimum", "C07_directed_distances",
                   "C07_translation_invariant", "C07_flip_invariant", "C07_axis_permutation_invariant",
                   "C07_box_independent", "C07_crop_invariant", "C07_order_independent"]


def axiom_audit(ctx):
    """Print Assumptions with a parser that also sees axioms whose type is printed on the following line:
    integer/list theorems must be closed, theorems about assd_R may use exactly the three axioms of stdlib Reals."""
    import os
    import re
    import shutil
    import subprocess
    src = (common.COQ / "theories/Props/C07.v").read_text()
    thms = re.findall(r"^Theorem\s+([A-Za-z0-9_']+)", src, re.M)
    d = common.WORK / f"c07_pa_{os.getpid()}"
    d.mkdir(parents=True, exist_ok=True)
    body = ["From Pan Require Import Props.C07."]
    for t in thms:
        body += [f'Goal True. idtac "@@ {t}". exact I. Qed.', f"Print Assumptions {t}."]
    (d / "pa.v").write_text("\n".join(body) + "\n")
    r = subprocess.run(["coqc", "-Q", str(common.COQ / "theories"), "Pan", "pa.v"], cwd=d, capture_output=True, text=True, timeout=300)
    shutil.rmtree(d, ignore_errors=True)
    if r.returncode != 0:
        ctx.disagree("axiom-audit", {"error": r.stderr[-800:]})
        return
    res, cur = {}, None
    for line in r.stdout.splitlines():
        if line.startswith("@@ "):
            cur = line[3:].strip()
            res[cur] = []
        elif cur is not None and line and not line[0].isspace() and not line.startswith(("Axioms:", "Closed under")):
            res[cur].append(re.split(r"[\s:]", line, 1)[0])
    for t in thms:
        ax = set(res.get(t, ["<no output>"]))
        allowed = set() if t in CLOSED_THEOREMS else REALS_AXIOMS
        if not ax <= allowed:
            ctx.disagree("unexpected-axiom", {"theorem": t, "axioms": sorted(ax - allowed)})
    ctx.notes["axiom_audit"] = {t: sorted(res.get(t, [])) or "closed" for t in thms}


# ------------------------------------------------------------------ run
def run_buffer_steps(steps):
    """two buffers allocated once and refilled in place before every call (threshold sweeps, post-processing loops):
    -> (index of the first bad step or None, problems, implementation result, definition)"""
    rbuf = np.zeros(steps[0][0].shape, dtype=steps[0][0].dtype)
    pbuf = np.zeros(steps[0][1].shape, dtype=steps[0][1].dtype)
    for i, (r, p) in enumerate(steps):
        rbuf[...] = r
        pbuf[...] = p
        im = impl_eval(rbuf, pbuf)
        mo = engine_run(701, [model_in(r, p)])[0]
        probs = compare(im, mo, None)
        if probs:
            return i, probs, im, mo
    return None, [], None, None


def buffer_layer(ctx):
    """ASSD of the masks as they are NOW: the same two array objects, refilled in place between the calls"""
    rng = ctx.rng
    n = 0
    for _ in range(ctx.scale(12, 120)):
        nd = rng.choice([1, 2, 2, 3, 3])
        shape = rnd_shape(rng, nd, 2, 6)
        dt = rng.choice([bool, np.uint8])
        steps = [(rnd_blob(rng, shape).astype(dt), rnd_blob(rng, shape).astype(dt)) for _k in range(rng.randint(2, 4))]
        bad, probs, im, mo = run_buffer_steps(steps)
        n += 1
        ctx.count({"mode": "buffer", "steps": [[r.astype(int).tolist(), p.astype(int).tolist()] for r, p in steps]}, True)
        ctx.bump(f"refilled buffers/{nd}d")
        if bad is not None:
            keep = steps[:bad + 1]
            for start in range(bad - 1, -1, -1):            # shortest history that still fails at the same masks
                b2, _p, _i, _m = run_buffer_steps(steps[start:bad + 1])
                if b2 == bad - start:
                    keep = steps[start:bad + 1]
                    break
            ctx.violation(f"call {len(keep)} on two arrays refilled in place: " + "; ".join(probs),
                          {"mode": "buffer", "steps": [[r, p] for r, p in keep], "implementation": im, "definition": mo})
    ctx.layers.append({"layer": "the same two array objects refilled in place between calls, every call against the definition", "sequences": n})


def prime_options():
    """Earlier calls of the public functions with NON-default options (full border connectivity, anisotropic voxel spacing) in
    every dimensionality: the property has no precondition on what the process did before, so module-level state they may
    leave behind (caches keyed too coarsely) must not influence the default calls checked afterwards."""
    _, assd_fn, _ = _impl()
    for nd in (1, 2, 3):
        shape = (7,) * nd
        a = np.zeros(shape, np.uint8); b = np.zeros(shape, np.uint8)
        a[tuple(slice(1, 5) for _ in range(nd))] = 1
        b[tuple(slice(2, 6) for _ in range(nd))] = 1
        for conn in range(nd, 0, -1):
            for vs in (None, tuple(1.0 + 0.5 * i for i in range(nd))):
                try:
                    with np.errstate(all="ignore"):
                        assd_fn(a, b, voxelspacing=vs, connectivity=conn)
                except Exception:  # noqa
                    pass


def scene_problems(ref, pred):
    """ASSD of every matched instance as the evaluator reports it (matched input) against the definition applied to the two masks of
    the WHOLE input: the value of a pair must not depend on what else is in the scene"""
    from harness import impl as H
    from harness import pipeline
    common.serial_pool()
    out = H.evaluate(H.make_evaluator({"input": "matched", "imetrics": ["ASSD"], "gmetrics": []}), pred.copy(), ref.copy())
    if isinstance(out, tuple):
        return ["evaluation of matched instances raised: " + str(out[1:])], None
    r = H.canon_result(out["ungrouped"][0])
    labs = [int(l) for l in np.unique(ref) if l and (pred == l).any()]
    want = sorted(pipeline.assd_definition(ref == l, pred == l) for l in labs)
    got = sorted(r["metrics"].get("ASSD", {}).get("all", []))
    if len(got) != len(want) or any(abs(a - b) > 1e-9 * max(1.0, abs(b)) for a, b in zip(got, want)):
        return [f"ASSD per matched instance {got} but the definition on the masks of the whole input gives {want}"], r
    return [], r


def scene_layer(ctx):
    """a matched reference split by the prediction, the other fragment being (part of) ANOTHER matched prediction that reaches well beyond
    the matched part; instances on the faces; 2-D and 3-D"""
    rng = ctx.rng
    for _ in range(ctx.scale(25, 250)):
        a, g, b = rng.randint(9, 14), rng.randint(1, 2), rng.randint(4, 7)
        h = rng.choice([1, 2, 3])
        cut = rng.randint(2, a - 5)
        ref = np.zeros((h, a + g + b + 1), np.uint8); pred = np.zeros_like(ref)
        ref[:, 0:a] = 1; ref[:, a + g:a + g + b] = 2
        pred[:, 0:cut] = 1
        far = rng.randint(cut + 3, a - 1)
        pred[:, far:a] = 2; pred[:, a + g:a + g + b] = 2                 # prediction 2 also covers the far end of reference 1
        if rng.random() < 0.3:
            ref, pred = ref[:, ::-1].copy(), pred[:, ::-1].copy()
        if rng.random() < 0.4:
            ref, pred = np.ascontiguousarray(ref.T), np.ascontiguousarray(pred.T)
        if rng.random() < 0.3:
            ref = np.stack([ref, ref, np.zeros_like(ref)]); pred = np.stack([pred, np.zeros_like(pred), pred])
        ctx.count({"scene": True, "ref": ref.tolist(), "pred": pred.tolist()}, True)
        ctx.bump("evaluator scene / split reference with a far fragment of another matched prediction")
        bad, r = scene_problems(ref, pred)
        if bad:
            ctx.violation("evaluator: " + "; ".join(bad[:2]), {"mode": "scene", "ref": ref, "pred": pred, "observed": r})


def run(ctx):
    axiom_audit(ctx)
    prime_options()
    rng = ctx.rng
    thorough = ctx.tier == "thorough"
    cases = []           # (bucket, ref, pred)
    # (i) corpus
    cdir = common.VERIF / "corpus" / "C07"
    if cdir.exists():
        for f in sorted(cdir.glob("*.json")):
            d = json.loads(f.read_text())
            cases.append(("corpus", common.arr_from_json(d["ref"]), common.arr_from_json(d["pred"])))
    # (ii) exhaustive small layers
    all_full = True
    for shape, qn in (((6,), None), ((1, 5), None), ((2, 3), None), ((2, 2, 2), 4000)):
        lim = None if thorough else (None if qn is None else ctx.scale(qn, 0))
        cs, full = enum_layer(ctx, shape, lim)
        all_full &= full
        cases += cs
    n_enum = len(cases)
    # (iii) structured random, up to 7^3
    n_rand = ctx.scale(1200, 15000)
    rand_cases = []
    for i in range(n_rand):
        kind = KINDS[i % len(KINDS)]
        a, b = gen_random(rng, kind)
        dt = rng.choice(DTYPES)
        a, b = a.astype(dt), b.astype(dt)
        if np.dtype(dt).kind in "iuf" and rng.random() < 0.2:
            # a mask is "zero / not zero": foreground written with another value than 1 (0/255 images, a class value, a label)
            v = rng.choice([2, 3, 7, 100] + ([255] if np.dtype(dt).itemsize > 1 or np.dtype(dt).kind == "u" else []))
            which = rng.choice(["ref", "pred", "both"])
            if which in ("ref", "both"):
                a = a * np.asarray(v, dtype=dt)
            if which in ("pred", "both"):
                b = b * np.asarray(v, dtype=dt)
        if a.ndim >= 2 and rng.random() < 0.15:
            # memory layout is not part of a mask: Fortran order / a strided view of one or both arrays
            lay = rng.choice(["refF", "predF", "bothF", "strided"])
            if lay in ("refF", "bothF"):
                a = np.asfortranarray(a)
            if lay in ("predF", "bothF"):
                b = np.asfortranarray(b)
            if lay == "strided":
                big = np.zeros(tuple(2 * x for x in b.shape), b.dtype)
                view = big[tuple(slice(0, None, 2) for _ in b.shape)]
                view[...] = b
                b = view
        rand_cases.append(("rand-" + kind, a, b))
    cases += rand_cases

    # the model, batched
    ins = [model_in(r, p) for _, r, p in cases]
    outs = engine_run(701, ins)
    encs = engine_run(702, [[30] + i for i in ins])
    nviol = 0

    def report(what, replay, ref=None, pred=None):
        nonlocal nviol
        nviol += 1
        if nviol > 25:
            return
        if ref is not None and nviol <= 3 and replay.get("mode") == "direct":
            try:
                r2, p2 = shrink(ref, pred)
                replay = dict(replay, ref=r2, pred=p2, shrunk_from_shape=list(ref.shape))
                im = impl_eval(r2, p2)
                mo = engine_run(701, [model_in(r2, p2)])[0]
                replay["implementation"] = im
                replay["definition"] = mo
                what = "; ".join(compare(im, mo, None)) or what
            except Exception:  # noqa  (shrinking is best effort)
                pass
        ctx.violation(what, replay)

    base_results = {}
    for k, ((bucket, ref, pred), mi, mo, enc) in enumerate(zip(cases, ins, outs, encs)):
        im = impl_eval(ref, pred)
        nontriv = bool(ref.any() and pred.any() and not np.array_equal(ref != 0, pred != 0))
        ctx.count({"ref": ref.astype(int).tolist(), "pred": pred.astype(int).tolist(), "dtype": str(ref.dtype)}, nontriv)
        ctx.bump(f"{bucket}/{ref.ndim}d")
        probs = compare(im, mo, enc if len(enc) == 2 else None)
        if probs:
            report("; ".join(probs), {"mode": "direct", "ref": ref, "pred": pred, "implementation": im, "definition": mo}, ref, pred)
        if k >= n_enum or k % 40 == 0:
            base_results[k] = im

    # (iv) metamorphic variants + per-instance path on every random case and a slice of the enumerated ones
    meta_in, meta_meta = [], []
    n_meta = n_inst = 0
    for k, im in base_results.items():
        bucket, ref, pred = cases[k]
        if "error" in im:
            continue
        for desc, r2, p2, keep in transforms(rng, ref, pred):
            var = impl_eval(r2, p2)
            n_meta += 1
            ctx.count({"transform": desc, "ref": ref.astype(int).tolist(), "pred": pred.astype(int).tolist()},
                      bool(not np.array_equal(ref != 0, pred != 0)))
            ctx.bump(f"meta-{desc[0]}")
            probs = meta_problems(desc, im, var, keep)
            if probs:
                report("; ".join(probs), {"mode": "meta", "ref": ref, "pred": pred, "transform": desc,
                                          "original": im, "transformed": var})
            if desc[0] in ("flip", "transpose", "pad") and rng.random() < 0.35:
                meta_in.append(model_in(np.ascontiguousarray(r2), np.ascontiguousarray(p2)))
                meta_meta.append((desc, ref, pred, var))
        # per-instance path
        mo = outs[k]
        if len(mo) == 2 and mo[0] and mo[1]:
            e = expected_value(mo[0], mo[1])
            for _ in range(2 if k >= n_enum else 1):
                RL, PL, idx, pads, seed = embed_labels(rng, ref, pred)
                r = impl_instance(RL, PL, idx)
                n_inst += 1
                ctx.count({"instance_path": True, "idx": idx, "pads": pads, "noise": seed, "ref": ref.astype(int).tolist(),
                           "pred": pred.astype(int).tolist()}, True)
                ctx.bump("instance-path/" + ("border-contact" if any(0 in p for p in pads) else "interior"))
                bad = []
                if "error" in r:
                    bad.append("per-instance evaluation raised " + r["error"])
                else:
                    if not close(r["cropped"], e):
                        bad.append(f"_evaluate_instance (crop, then ASSD) = {r['cropped']!r} but the definition gives {float(e)!r}")
                    if not close(r["uncropped"], e):
                        bad.append(f"Metric.ASSD with label selection = {r['uncropped']!r} but the definition gives {float(e)!r}")
                    if not close(r["kernel"], e):
                        bad.append(f"the exported ASSD kernel on label maps with distinct reference / prediction labels = {r['kernel']!r} "
                                   f"but the definition gives {float(e)!r}")
                if bad:
                    report("; ".join(bad), {"mode": "instance", "ref": ref, "pred": pred, "idx": idx, "pads": pads,
                                            "noise": seed, "observed": r, "definition_value": float(e)})
    # transformed arrays are also ordinary inputs: implementation vs definition on them
    meta_out = engine_run(701, meta_in)
    for (desc, ref, pred, var), mo in zip(meta_meta, meta_out):
        probs = compare(var, mo, None)
        if probs:
            r2, p2 = apply_transform(desc, ref, pred)
            report("; ".join(probs), {"mode": "direct", "ref": np.ascontiguousarray(r2), "pred": np.ascontiguousarray(p2),
                                      "implementation": var, "definition": mo})
    # (v) large volumes (millions of voxels) holding a few small objects far apart along the first axis, in particular near its far
    #     end: the distance computation must not depend on the size of the array (blocking, index grids, remainders)
    n_big = ctx.scale(5, 30)
    for bi in range(n_big):
        nd = [2, 3, 1, 2, 3][bi % 5]
        if nd == 1:
            shape = (rng.randint(2_200_000, 2_600_000),)
        elif nd == 2:
            shape = (rng.randint(2100, 2600), rng.choice([1000, 1024, 1100]))
        else:
            shape = (rng.randint(140, 170), 128, rng.choice([120, 128]))
        ref = np.zeros(shape, dtype=bool)
        pred = np.zeros(shape, dtype=bool)
        n0 = shape[0]
        anchors = [rng.randint(0, 3), n0 // 2 + rng.randint(0, n0 // 8), n0 - rng.randint(1, 6), rng.randint(2 * n0 // 3, n0 - 1)]
        for a0 in rng.sample(anchors, rng.randint(2, 4)):
            lo = [min(max(0, a0 - rng.randint(0, 3)), n0 - 1)] + [rng.randint(0, s - 6) for s in shape[1:]]
            size = [rng.randint(1, 4) for _ in shape]
            sl = tuple(slice(l, min(s, l + z)) for l, z, s in zip(lo, size, shape))
            ref[sl] = True
            shift = [rng.choice([0, 0, 1, -1, 2]) for _ in shape]
            sl2 = tuple(slice(min(max(0, l + d), s - 1), min(s, max(1, l + d + z))) for l, z, s, d in zip(lo, size, shape, shift))
            if rng.random() < 0.85:
                pred[sl2] = True
        if not pred.any():
            pred |= ref
        if rng.random() < 0.3:
            pred, ref = ref, pred
        im = impl_eval(ref, pred)
        mi = model_in(ref, pred)
        mo = engine_run(701, [mi])[0]
        ctx.count({"large_volume": list(shape), "ref_voxels": mi[1], "pred_voxels": mi[2]}, True)
        ctx.bump(f"large-volume/{nd}d")
        probs = compare(im, mo, None)
        if probs:
            ctx.violation("large volume " + str(list(shape)) + ": " + "; ".join(probs),
                          {"mode": "large", "shape": list(shape), "ref_voxels": mi[1], "pred_voxels": mi[2], "implementation": im, "definition": mo})
            nviol += 1
    ctx.layers.append({"layer": "volumes of 2-3 million voxels (1-D, 2-D, 3-D) with small objects at the start, middle and far end of the first axis",
                       "cases": n_big, "exhaustive": False}) if hasattr(ctx, "layers") else None
    # dense (shape-aware) model = shape-free model on a sample (the premise of C07_box_independent, executably)
    samp = list(range(0, len(cases), max(1, len(cases) // 300)))[:300]
    dense_in = [[list(cases[k][1].shape), ins[k][1], ins[k][2]] for k in samp]
    dense_out = engine_run(703, dense_in)
    for k, di, do in zip(samp, dense_in, dense_out):
        if do != outs[k]:
            ctx.disagree("dense-vs-shapefree-model", {"case": di, "dense": do, "shapefree": outs[k]})

    # vm_compute cross-check of the extracted engine
    small = [k for k in range(len(cases)) if len(ins[k][1]) + len(ins[k][2]) <= 40]
    step = max(1, len(small) // 40)
    triples = []
    for k in small[::step][:40]:
        triples.append((701, ins[k], outs[k]))
    for k in small[::step * 3][:15]:
        triples.append((702, [30] + ins[k], encs[k]))
    for j in range(0, len(dense_in), max(1, len(dense_in) // 10)):
        if len(dense_in[j][1]) + len(dense_in[j][2]) <= 40:
            triples.append((703, dense_in[j], dense_out[j]))
    scene_layer(ctx)
    buffer_layer(ctx)
    n, bad = coq_crosscheck("C07", triples)
    ctx.crosschecked = n
    for b in bad:
        ctx.disagree("extraction-vs-vm_compute", triples[b])

    ctx.exhaustive = bool(all_full)
    ctx.notes.update({"direct_cases": len(cases), "metamorphic_variants": n_meta, "instance_path_cases": n_inst,
                      "transformed_inputs_against_model": len(meta_in), "dense_vs_shapefree_checked": len(samp),
                      "violating_cases_total": nviol,
                      "directions": "list 1 = border voxels of the reference -> nearest border voxel of the prediction "
                                    "(= __surface_distances(prediction, reference)); list 2 = the other direction"})


# ------------------------------------------------------------------ replay
def replay(path):
    d = json.loads(open(path).read())
    if d.get("mode") == "buffer":
        prime_options()
        steps = [(common.arr_from_json(r), common.arr_from_json(p)) for r, p in d["steps"]]
        bad, probs, im, mo = run_buffer_steps(steps)
        print(f"two arrays of shape {steps[0][0].shape} refilled in place, {len(steps)} calls")
        if bad is None:
            print("every call equals the definition on the masks it was given\nagree")
            return 0
        print(f"call {bad + 1}: reference\n", steps[bad][0].astype(int), "\nprediction\n", steps[bad][1].astype(int))
        print("implementation:", im, "\ndefinition (model) squared distances:", mo)
        for x in probs:
            print("PROPERTY FAILS ON THE IMPLEMENTATION:", x)
        print("the same masks in fresh arrays:", "agree with the definition" if not fails_direct(steps[bad][0].copy(), steps[bad][1].copy()) else "also differ")
        print("DIFFER")
        return 1
    if d.get("mode") == "scene":
        prime_options()
        ref, pred = common.arr_from_json(d["ref"]), common.arr_from_json(d["pred"])
        bad, r = scene_problems(ref, pred)
        print("reference:\n", ref, "\nprediction:\n", pred)
        for x in bad:
            print("PROPERTY FAILS ON THE IMPLEMENTATION:", x)
        print("DIFFER" if bad else "agree")
        return 1 if bad else 0
    if d.get("mode") == "large":
        # a large, almost empty volume stored as its shape and the coordinates of the foreground voxels
        ref = np.zeros(d["shape"], dtype=bool)
        pred = np.zeros(d["shape"], dtype=bool)
        for v in d["ref_voxels"]:
            ref[tuple(v)] = True
        for v in d["pred_voxels"]:
            pred[tuple(v)] = True
        prime_options()
        mo = engine_run(701, [model_in(ref, pred)])[0]
        im = impl_eval(ref, pred)
        e = expected_value(mo[0], mo[1]) if len(mo) == 2 and mo[0] and mo[1] else None
        print("shape", d["shape"], "reference voxels", d["ref_voxels"], "prediction voxels", d["pred_voxels"])
        print("definition (model): ASSD =", None if e is None else float(e), " implementation:", im)
        probs = compare(im, mo, None)
        for pr in probs:
            print("PROPERTY FAILS ON THE IMPLEMENTATION:", pr)
        print("DIFFER" if probs else "agree")
        return 1 if probs else 0
    ref, pred = common.arr_from_json(d["ref"]), common.arr_from_json(d["pred"])
    mode = d.get("mode", "direct")
    prime_options()          # the same earlier non-default calls as in the run
    print("what:", d.get("what"))
    print("reference mask:\n", ref.astype(int))
    print("prediction mask:\n", pred.astype(int))
    mo = engine_run(701, [model_in(ref, pred)])[0]
    enc = engine_run(702, [[30] + model_in(ref, pred)])[0]
    e = expected_value(mo[0], mo[1]) if len(mo) == 2 and mo[0] and mo[1] else None
    print("definition (model): squared distances ref->pred", mo[0] if len(mo) == 2 else mo, " pred->ref",
          mo[1] if len(mo) == 2 else mo, " ASSD =", None if e is None else float(e))
    if mode == "direct":
        im = impl_eval(ref, pred)
        print("implementation:", im)
        probs = compare(im, mo, enc if len(enc) == 2 else None)
    elif mode == "meta":
        im = impl_eval(ref, pred)
        r2, p2 = apply_transform(d["transform"], ref, pred)
        var = impl_eval(r2, p2)
        print("implementation, original:", im)
        print(f"implementation, after {d['transform']}:", var)
        keep = d["transform"][0] in ("swap", "pad", "tight")
        probs = meta_problems(d["transform"], im, var, keep) if "error" not in im else ["implementation raised " + im["error"]]
    else:
        import random
        RL, PL, idx, pads, seed = embed_labels(random.Random(0), ref, pred, idx=d["idx"],
                                               pads=[tuple(p) for p in d["pads"]], noise=d["noise"])
        r = impl_instance(RL, PL, idx)
        print("reference labels:\n", RL)
        print("prediction labels:\n", PL)
        print(f"implementation (instance {idx}):", r)
        probs = []
        if "error" in r:
            probs.append(r["error"])
        else:
            if not close(r["cropped"], e):
                probs.append(f"_evaluate_instance = {r['cropped']!r}, definition {float(e)!r}")
            if not close(r["uncropped"], e):
                probs.append(f"Metric.ASSD(labels, idx) = {r['uncropped']!r}, definition {float(e)!r}")
    for p in probs:
        print("DIFFER:", p)
    print("agree" if not probs else "DIFFER")
    return 0 if not probs else 1


LEVEL_TEXT = ("Theorems in Props/C07.v (Coq 8.16.1): the model's ASSD is, by definition, the mean of the two directed means of "
              "Euclidean distances from each border voxel of one mask to the nearest border voxel of the other (border voxel = "
              "foreground voxel with a background or out-of-array face neighbour; characterisation lemmas proved); it is symmetric, "
              "non-negative, zero exactly when the borders coincide, invariant under translation, axis flips, axis permutations, "
              "the enclosing array and the per-instance crop, and independent of voxel order; the executable rational enclosure "
              "is sound. The implementation is tied to this definition by exact correspondence of the squared-distance sequences "
              "and of the returned double on exhaustively enumerated small grids and structured random volumes.")
LEVEL_NOTE = ("Trusted: Coq kernel; the three stdlib axioms of Coq's classical real numbers (only in theorems mentioning assd_R); "
              "extraction + driver (cross-checked by vm_compute); the Python harness (argwhere conversion, 50-digit decimal "
              "evaluation). scipy's binary_erosion and euclidean_feature_transform are modelled, not verified: the equality "
              "'code = definition' is by correspondence on the explored inputs, the laws are proved for all inputs.")
TECHNIQUE = "machine-checked proof in Rocq (Coq) + exact model/implementation correspondence (exhaustive small grids, structured random volumes, metamorphic variants)"
