"""C13 -- global binary metrics depend only on the two foregrounds."""
import itertools
import json
from fractions import Fraction

import numpy as np

from harness import common, impl
from harness.common import engine_run, coq_crosscheck, unfval, fval

TARGETS = ["theories/Props/C13.vo", "theories/Proofs/GenEq_EdgeCase.vo", "theories/Proofs/GenEq_ResultCalc.vo"]
GENEQ = {"theories/Proofs/GenEq_EdgeCase.vo": "EdgeCase", "theories/Proofs/GenEq_ResultCalc.vo": "ResultCalc"}
# units added to the cone after round 2 of the seeded changes (a refused / changed unit must be noticed by this check too)
TARGETS = TARGETS + ["theories/Proofs/GenEq_MetricFormulas.vo"]
GENEQ = dict(GENEQ, **{"theories/Proofs/GenEq_MetricFormulas.vo": "MetricFormulas"})
# T1 units added after round 4 of the seeded changes
TARGETS = TARGETS + ["theories/Proofs/GenEq_ResultInit.vo"]
GENEQ = dict(GENEQ, **{"theories/Proofs/GenEq_ResultInit.vo": "ResultInit"})
ALLOWED_AXIOMS = []
RULE = ("case = (input type, array pair incl. empty sides, subset of global metrics, injective handler table); oracle: empty side -> the "
        "handler's EMPTY_PRED/EMPTY_REF/NO_INSTANCES entry, otherwise global_bin_m == Metric.m applied to the binarised INPUT arrays; "
        "metamorphic: same foregrounds with a different division into instances give identical global values; non-trivial = at least "
        "one global metric requested and (an empty side or >= 2 instances on a side); semantic maps with 255/256/257+ isolated components")
ASSUMPTIONS = [
    "for ASSD / clDSC the metric applied to the binarised arrays is taken from the implementation's own Metric.m call (its equality with the definitions is C06/C07); for DSC / IOU / RVD the reported value is ALSO compared, exactly, with the set formula of the four foreground counts of the original arrays (the right-hand side of C13_global_dice_iou_rvd_are_foreground_formulas)",
    "clDSC global metric only on 2-D/3-D inputs (the implementation asserts ndim in {2,3})",
]
TRUSTED = ["numpy/scipy/skimage C code (modelled, not verified)"]
LEVEL_TEXT = ("Theorems in Props/C13.v: for every handler table and every function F of the binarised arrays, the global value is a function of the "
              "binarised arrays only (so any relabelling keeping background is irrelevant) and equals the EMPTY_PRED / EMPTY_REF / NO_INSTANCES entry "
              "when the prediction / reference / both foregrounds are empty; for the overlap metrics the global Dice / IoU / RVD are proved to be the "
              "published set formulas of the four foreground counts of the ORIGINAL multi-label arrays (Proofs/C13Formulas.v: independent of instance "
              "labels, voxel order; Dice and IoU symmetric). The argument mapping of the edge-case call (where defect D2 sat) is "
              "re-translated from the AST each run (GenEq_ResultCalc.geneq_global); correspondence runs all subsets of global metrics x handler "
              "tables x emptiness cases x input types through evaluate().")
LEVEL_NOTE = "Trusted: Coq kernel, translator, extraction+driver, harness; numpy/scipy/skimage modelled. Metric values themselves are C06/C07."
TECHNIQUE = "machine-checked proof in Rocq (Coq) + AST re-translation (GenEq) + correspondence and metamorphic comparison on the implementation"

GM = ["DSC", "IOU", "ASSD", "RVD", "clDSC"]
INJ = [1, 2, 3, 0]   # noinst=NAN, emptypred=ZERO, emptyref=ONE, normal=INF : injective across scenarios


def direct_metric(m, ref, pred):
    pb = (pred != 0).astype(pred.dtype)
    rb = (ref != 0).astype(ref.dtype)
    try:
        with np.errstate(all="ignore"):
            return ("ok", float(impl.metric(m)(rb, pb)))
    except ZeroDivisionError:
        return ("err", 1)
    except Exception as e:  # noqa
        return ("err", type(e).__name__)


def expected(table, m, pred, ref):
    pe, re_ = not (pred != 0).any(), not (ref != 0).any()
    if pe and re_:
        return ("edge", table[m][0])
    if pe:
        return ("edge", table[m][1])
    if re_:
        return ("edge", table[m][2])
    return ("metric", direct_metric(m, ref, pred))


def count_formula(m, pred, ref):
    """right-hand side of C13_global_dice_iou_rvd_are_foreground_formulas, from the four foreground counts of the ORIGINAL arrays
    (one IEEE division, as in the model's rnd): independent of the implementation's Metric.m"""
    P, R = (pred != 0), (ref != 0)
    n_p, n_r, n_i, n_u = int(P.sum()), int(R.sum()), int((P & R).sum()), int((P | R).sum())
    if m == "DSC":
        return 0.0 if n_r + n_p == 0 else (2 * n_i) / (n_r + n_p)
    if m == "IOU":
        return 0.0 if n_u == 0 else n_i / n_u
    if m == "RVD" and n_r != 0:
        return (n_p - n_r) / n_r
    return None


def same(a, b):
    if a is None or b is None:
        return a is None and b is None
    a, b = float(a), float(b)
    return (np.isnan(a) and np.isnan(b)) or a == b


def run(ctx):
    common.serial_pool()
    rng = ctx.rng
    cases = []
    subsets = [list(s) for k in range(1, 6) for s in itertools.combinations(GM, k)]
    # emptiness cases x input types x all subsets (thorough) / sampled subsets (quick)
    for it in ("matched", "unmatched", "semantic"):
        for pe, re_ in itertools.product([False, True], repeat=2):
            subs = subsets if ctx.tier == "thorough" else rng.sample(subsets, 6) + [GM]
            for gm in subs:
                shape = (5, 6) if rng.random() < 0.6 else (3, 4, 4)
                dt = rng.choice(["uint8", "uint16"]) if it != "semantic" else rng.choice(["uint8", "int16"])
                pred = np.zeros(shape, dt) if pe else impl.rand_blobs(rng, shape, rng.randint(1, 3), dtype=dt)
                ref = np.zeros(shape, dt) if re_ else impl.rand_blobs(rng, shape, rng.randint(1, 3), dtype=dt)
                if not pe and not pred.any():
                    pred.reshape(-1)[0] = 1
                if not re_ and not ref.any():
                    ref.reshape(-1)[-1] = 1
                cases.append((it, gm, pred, ref))
    for _ in range(ctx.scale(150, 2500)):
        it = rng.choice(["matched", "unmatched", "semantic"])
        pred, ref = impl.rand_pair(rng, dims=(2, 3), dtype=rng.choice(["uint8", "uint16"]))
        if rng.random() < 0.15:
            pred[...] = 0
        if rng.random() < 0.15:
            ref[...] = 0
        if it == "semantic":
            pred, ref = pred.astype("int16"), ref.astype("int16")
        cases.append((it, rng.choice(subsets), pred, ref))
    # label values that are multiples of 256 / at dtype limits, and relabelling past 255 (foreground must not depend on label values)
    for _ in range(ctx.scale(40, 300)):
        it = rng.choice(["matched", "unmatched"])
        shape = (4, 7)
        dt = rng.choice(["uint16", "uint32", "uint8"])
        pool = [256, 512, 1024, 768, 255, 257, 65535] if dt != "uint8" else [255, 254, 128, 7]
        ref = np.zeros(shape, dt); pred = np.zeros(shape, dt)
        ls = rng.sample(pool, 2)
        ref[0:2, 0:3] = ls[0]; ref[2:4, 4:7] = ls[1]
        pls = ls if it == "matched" else rng.sample([3, 9, 11, 250], 2)
        pred[0:2, 0:2] = pls[0]; pred[3:4, 0:2] = pls[1]          # second prediction is unmatched -> fresh label max(ref)+1
        cases.append((it, rng.choice(subsets), pred, ref))
    # semantic maps with hundreds of components, the counts sitting at and around the widths of the label dtypes (2^8): the
    # foreground handed to the global metrics must be the input's foreground however many instances the approximation finds
    grid = [(i, j) for i in range(0, 32, 2) for j in range(0, 36, 2)]              # 288 isolated voxels
    for n_big in (255, 256, 257, rng.randint(258, 288)):
        for big_side in ("ref", "pred"):
            pos = rng.sample(grid, n_big)
            a = np.zeros((32, 36), "uint8")
            for q in pos:
                a[q] = 1
            b = a.copy()
            for q in rng.sample(pos, rng.randint(1, 6)):
                b[q] = 0
            pred, ref = (b, a) if big_side == "ref" else (a, b)
            cases.append(("semantic", ["DSC", "IOU", "RVD"], pred.astype("int16"), ref.astype("int16")))
    model_in, model_meta = [], []
    # all evaluators (custom handler tables and default-constructed handlers) are built BEFORE any of them is used: a handler's
    # prescription must not depend on which other handlers were constructed after it
    prepared = []
    for it, gm, pred, ref in cases:
        rot = rng.randrange(5)
        if rng.random() < 0.15:
            table, tarb = {m: list(v) for m, v in impl.DEFAULT_TABLE.items()}, None
        else:
            base = INJ if rng.random() < 0.7 else rng.choice([[2, 3, 0, 2], [3, 0, 2, 3], [0, 0, 0, 0], [2, 2, 3, 2]])   # entries left to default_result
            table = {m: [(v + i * rot) % 5 for v in base] for i, m in enumerate(impl.METRICS)}
            tarb = table
        cfg = {"input": it, "imetrics": ["IOU"], "gmetrics": gm, "table": tarb, "std": 1}
        prepared.append((it, gm, pred, ref, table, cfg, impl.make_evaluator(cfg)))
    order = list(range(len(prepared)))
    rng.shuffle(order)
    for j in order:
        it, gm, pred, ref, table, cfg, ev = prepared[j]
        out = impl.evaluate(ev, pred.copy(), ref.copy())
        nontriv = (not pred.any()) or (not ref.any()) or len(np.unique(pred)) > 2 or len(np.unique(ref)) > 2
        ctx.count({"input": it, "gm": gm, "pred": pred.tolist(), "ref": ref.tolist()}, nontriv)
        ctx.bump(f"{it}/pe={not pred.any()}/re={not ref.any()}")
        case = {"input": it, "gmetrics": gm, "table": table, "pred": pred, "ref": ref, "default_constructed": cfg["table"] is None,
                "other_handlers_constructed": len(prepared) - 1}
        exp = {m: expected(table, m, pred, ref) for m in gm}
        if isinstance(out, tuple):
            # a raising global metric (e.g. RVD quotient undefined) propagates; only a violation if no metric is expected to raise
            if not any(e[0] == "metric" and e[1][0] == "err" for e in exp.values()):
                ctx.violation("evaluation with global metrics raised", {**case, "observed": out})
            continue
        r = impl.canon_result(out["ungrouped"][0])
        bad = []
        for m in GM:
            key = m.lower()
            if m not in gm:
                if key in r["globals"]:
                    bad.append(f"global_bin_{key} reported although not requested")
                continue
            if key not in r["globals"]:
                bad.append(f"global_bin_{key} missing")
                continue
            got = r["globals"][key]
            kind, v = exp[m]
            if kind == "edge":
                want = {0: float("inf"), 1: float("nan"), 2: 0.0, 3: 1.0, 4: None}[v]
                if not same(got, want):
                    bad.append(f"global_bin_{key}={got} expected handler entry {impl.ECR[v]}")
            else:
                if v[0] != "ok" or not same(got, v[1]):
                    bad.append(f"global_bin_{key}={got} but Metric.{m}(binarised) = {v}")
                cf = count_formula(m, pred, ref)
                if cf is not None and not same(got, cf):
                    bad.append(f"global_bin_{key}={got} but the set formula of the foreground counts gives {cf}")
            pe, re_ = not pred.any(), not ref.any()
            mv = [0, fval(v[1])] if (kind == "metric" and v[0] == "ok") else [1, 1]
            model_in.append([impl.enc_handler(table, 1), impl.METRICS.index(m), pe, re_, mv])
            model_meta.append((case, m, got))
        if bad:
            ctx.violation("global binary metric is not the metric of the two foregrounds: " + "; ".join(bad[:3]), {**case, "observed": r["globals"]})
        # metamorphic: re-divide the same foregrounds into other instances (matched input needs no matching -> use unmatched/matched only)
        if it != "semantic" and pred.any() and ref.any() and rng.random() < 0.4:
            p2 = np.where(pred != 0, 1, 0).astype(pred.dtype)
            r2 = np.where(ref != 0, 1, 0).astype(ref.dtype)
            flat = p2.reshape(-1)
            nzp = np.flatnonzero(flat)
            flat[nzp[: len(nzp) // 2]] = 2
            out2 = impl.evaluate(impl.make_evaluator(cfg), p2, r2)
            if not isinstance(out2, tuple):
                g2 = impl.canon_result(out2["ungrouped"][0])["globals"]
                if any(not same(g2.get(k), v) for k, v in r["globals"].items()):
                    ctx.violation("global metrics changed when the same foreground was divided into other instances",
                                  {**case, "pred2": p2, "ref2": r2, "observed": r["globals"], "observed2": g2})
    outs = engine_run(802, model_in)
    for (case, m, got), i, o in zip(model_meta, model_in, outs):
        ok = (o[0] == 0 and impl.same_float(got, unfval(o[1]), tol=0)) if got is None or not (isinstance(got, float) and np.isnan(got)) else (o[0] == 0 and o[1] == [3])
        if not ok:
            ctx.disagree("Result.global_bin", {"metric": m, "implementation": got, "model": o, "case": case})
    triples = [(802, i, o) for i, o in zip(model_in, outs)]
    step = max(1, len(triples) // 60)
    reuse_layer(ctx)
    n, bad = coq_crosscheck("C13", triples[::step][:80])
    ctx.crosschecked = n
    for b in bad:
        ctx.disagree("extraction-vs-vm_compute", triples[::step][b])
    ctx.layers.append({"layer": "4 emptiness cases x 3 input types x subsets of 5 global metrics", "exhaustive": ctx.tier == "thorough"})
    ctx.exhaustive = ctx.tier == "thorough"


def reuse_layer(ctx):
    """one evaluator used for several inputs, some of which a requested global metric REFUSES (clDice on a 1-D or 4-D scan, a user
    handler without an entry for a metric on an empty prediction): what is reported for the next ordinary input must still be every
    requested global metric, with the value a fresh evaluator reports"""
    rng = ctx.rng
    for _ in range(ctx.scale(20, 200)):
        gm = rng.choice([["clDSC"], ["DSC", "clDSC"], ["clDSC", "IOU"], ["DSC", "IOU", "clDSC", "ASSD"]])
        it = rng.choice(["matched", "unmatched"])
        partial = rng.random() < 0.4
        table = {m: [1, 2, 2, 2] for m in rng.sample(["DSC", "IOU", "ASSD", "RVD"], 2)} if partial else None
        cfg = {"input": it, "imetrics": ["IOU"], "gmetrics": gm, "table": table, "std": 1}
        ev = impl.make_evaluator(cfg)
        odd = []
        for _k in range(rng.randint(1, 2)):
            kind = rng.choice(["1d", "4d", "empty_pred"])
            if kind == "1d":
                a = np.zeros((9,), np.uint8); a[2:6] = 1
                b = a.copy(); b[5] = 0
            elif kind == "4d":
                a = np.zeros((2, 3, 3, 2), np.uint8); a[0, 0:2, 0:2, 0] = 1
                b = a.copy()
            else:
                a = np.zeros((5, 6), np.uint8); a[1:4, 1:4] = 1
                b = np.zeros_like(a)
            odd.append(kind)
            impl.evaluate(ev, b.copy(), a.copy())              # whatever happens here (a refusal is fine) ...
        ref = np.zeros((7, 8), np.uint8); ref[1:5, 1:6] = 1
        pred = np.zeros_like(ref); pred[2:5, 1:5 + rng.randint(0, 2)] = 1
        got = impl.evaluate(ev, pred.copy(), ref.copy())       # ... must not show here
        want = impl.evaluate(impl.make_evaluator(cfg), pred.copy(), ref.copy())
        ctx.count({"reuse": True, "cfg": cfg, "odd": odd}, True)
        ctx.bump("evaluator reused after refused inputs")
        case = {"mode": "reuse", "cfg": cfg, "odd": odd, "pred": pred, "ref": ref}
        if isinstance(got, tuple) != isinstance(want, tuple):
            ctx.violation("an evaluator that was given a refused input before behaves differently from a fresh one", {**case, "observed": got if isinstance(got, tuple) else "result", "fresh": want if isinstance(want, tuple) else "result"})
            continue
        if isinstance(got, tuple):
            continue
        g1, g2 = impl.canon_result(got["ungrouped"][0])["globals"], impl.canon_result(want["ungrouped"][0])["globals"]
        missing = [m for m in gm if m.lower() not in g1]
        if missing or any(not same(g1.get(k), g2.get(k)) for k in g2):
            ctx.violation(f"after refused inputs ({odd}) the evaluator reports global metrics {g1} for an ordinary input, a fresh evaluator {g2}"
                          + (f"; requested but missing: {missing}" if missing else ""), {**case, "observed": g1, "fresh": g2})


def replay(path):
    common.serial_pool()
    d = json.loads(open(path).read())
    if d.get("mode") == "reuse":
        cfg = d["cfg"]
        ev = impl.make_evaluator(cfg)
        for kind in d["odd"]:
            if kind == "1d":
                a = np.zeros((9,), np.uint8); a[2:6] = 1
                b = a.copy(); b[5] = 0
            elif kind == "4d":
                a = np.zeros((2, 3, 3, 2), np.uint8); a[0, 0:2, 0:2, 0] = 1
                b = a.copy()
            else:
                a = np.zeros((5, 6), np.uint8); a[1:4, 1:4] = 1
                b = np.zeros_like(a)
            print("odd input", kind, "->", "refused" if isinstance(impl.evaluate(ev, b.copy(), a.copy()), tuple) else "evaluated")
        pred, ref = common.arr_from_json(d["pred"]), common.arr_from_json(d["ref"])
        got = impl.evaluate(ev, pred.copy(), ref.copy())
        want = impl.evaluate(impl.make_evaluator(cfg), pred.copy(), ref.copy())
        g1 = got if isinstance(got, tuple) else impl.canon_result(got["ungrouped"][0])["globals"]
        g2 = want if isinstance(want, tuple) else impl.canon_result(want["ungrouped"][0])["globals"]
        print("used evaluator:", g1, "\nfresh evaluator:", g2)
        bad = (isinstance(got, tuple) != isinstance(want, tuple)) or (not isinstance(got, tuple) and
                                                                       (any(m.lower() not in g1 for m in cfg["gmetrics"]) or any(not same(g1.get(k), g2.get(k)) for k in g2)))
        if bad:
            print("VIOLATION: the evaluator's global metrics depend on what it was given before")
        return 1 if bad else 0
    pred, ref = common.arr_from_json(d["pred"]), common.arr_from_json(d["ref"])
    cfg = {"input": d["input"], "imetrics": ["IOU"], "gmetrics": d["gmetrics"], "table": None if d.get("default_constructed") else d["table"], "std": 1}
    ev = impl.make_evaluator(cfg)
    if d.get("other_handlers_constructed"):
        # as in the run: other handlers with other tables are constructed after this evaluator and before it is used
        for rot in range(5):
            impl.make_evaluator({"input": "matched", "imetrics": ["IOU"], "gmetrics": [], "std": 1,
                                 "table": {m: [(v + i * rot) % 5 for v in INJ] for i, m in enumerate(impl.METRICS)}})
    out = impl.evaluate(ev, pred, ref)
    got = out if isinstance(out, tuple) else impl.canon_result(out["ungrouped"][0])["globals"]
    print("implementation globals:", got)
    exp = {m: expected(d["table"], m, pred, ref) for m in d["gmetrics"]}
    print("expected:", {m: (impl.ECR[v] if k == "edge" else v) for m, (k, v) in exp.items()})
    if isinstance(got, tuple):
        return 1
    bad = 0
    for m, (k, v) in exp.items():
        want = {0: float("inf"), 1: float("nan"), 2: 0.0, 3: 1.0, 4: None}[v] if k == "edge" else (v[1] if v[0] == "ok" else None)
        bad += not same(got.get(m.lower()), want)
    print("agree" if not bad else "DIFFER")
    return 1 if bad else 0
