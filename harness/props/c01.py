"""C01 -- reported panoptic results equal the published definitions, end to end."""
import itertools
import json
from fractions import Fraction

import numpy as np

from harness import common, impl, pipeline
from harness.common import engine_run, coq_crosscheck
from harness.props.c02 import gen_cfg
from harness.props.c03 import impl_candidates

TARGETS = ["theories/Props/C01.vo", "theories/Proofs/GenEq_MetricTable.vo", "theories/Proofs/GenEq_MetricFormulas.vo",
           "theories/Proofs/GenEq_ResultCalc.vo", "theories/Proofs/GenEq_ZeroCases.vo", "theories/Proofs/GenEq_EvalTP.vo",
           "theories/Proofs/GenEq_MatcherLoop.vo", "theories/Proofs/GenEq_EdgeCase.vo", "theories/Proofs/GenEq_Crop.vo"]
GENEQ = {"theories/Proofs/GenEq_MetricTable.vo": "MetricTable", "theories/Proofs/GenEq_MetricFormulas.vo": "MetricFormulas",
         "theories/Proofs/GenEq_ResultCalc.vo": "ResultCalc", "theories/Proofs/GenEq_ZeroCases.vo": "ZeroCases",
         "theories/Proofs/GenEq_EvalTP.vo": "EvalTP", "theories/Proofs/GenEq_MatcherLoop.vo": "MatcherLoop",
         "theories/Proofs/GenEq_EdgeCase.vo": "EdgeCase", "theories/Proofs/GenEq_Crop.vo": "Crop"}
# units added to the cone after round 2 of the seeded changes (a refused / changed unit must be noticed by this check too)
TARGETS = TARGETS + ["theories/Proofs/GenEq_Backend.vo"]
GENEQ = dict(GENEQ, **{"theories/Proofs/GenEq_Backend.vo": "Backend"})
TARGETS = TARGETS + ["theories/Proofs/GenEq_EvalSM.vo"]
GENEQ = dict(GENEQ, **{"theories/Proofs/GenEq_EvalSM.vo": "EvalSM"})
# T1 units added after round 4 of the seeded changes
TARGETS = TARGETS + ["theories/Proofs/GenEq_MetricCall.vo"]
GENEQ = dict(GENEQ, **{"theories/Proofs/GenEq_MetricCall.vo": "MetricCall"})
TARGETS = TARGETS + ["theories/Proofs/GenEq_AssdKernel.vo"]
GENEQ = dict(GENEQ, **{"theories/Proofs/GenEq_AssdKernel.vo": "AssdKernel"})
TARGETS = TARGETS + ["theories/Proofs/GenEq_ResultInit.vo"]
GENEQ = dict(GENEQ, **{"theories/Proofs/GenEq_ResultInit.vo": "ResultInit"})
ALLOWED_AXIOMS = []
RULE = ("case = (label-map pair in 1-D/2-D/3-D incl. 0 instances, touching/split/merged/shifted/border instances; input type semantic/unmatched/"
        "matched; matching metric IOU/DSC/ASSD; thresholds incl. achieved scores; optional decision metric/threshold; backend default/cc3d/scipy); "
        "evaluate()'s counts, tp/fp/fn, per-TP IoU/Dice/RVD/ASSD values (as multisets of exact doubles) and sq/rq/pq are compared with "
        "Model.Pipeline; a difference is a violation when no two competing candidates that meet the threshold tie; exhaustive layer: all pairs "
        "of maps with <= 2 labels on 1x4 (thorough: x configuration product; quick: seeded slice); non-trivial = >= 1 candidate pair")
ASSUMPTIONS = [
    "instances of semantic input are taken from the implementation's approximator (its conformance to connected components is C05)",
    "ASSD values are the implementation's Metric.ASSD (its conformance to the definition is C07); IoU/Dice/RVD are computed by the model",
    "whole-pair and per-instance crops are identity in the geometry-free model; their harmlessness is what the comparison validates (and C07_crop_invariant proves for ASSD)",
]
TRUSTED = ["numpy/scipy/cc3d C code (modelled, not verified)"]
LEVEL_TEXT = ("Props/C01.v composes the component theorems for instance input: after matching with any valid matching M the evaluated instances are "
              "exactly the matched references, each scored (IoU/Dice/RVD by the set definitions) against the union of the predictions assigned "
              "to it; counts are preserved by one-to-one relabelling; with C03 (the matching is a valid best-first matching, unique without ties), "
              "C02 (bookkeeping), C06/C07 (metric definitions), C08 (zero-TP) and C05 (instances of semantic input) this is the documented "
              "procedure. Every kernel on the path is re-translated from the AST each run; evaluate() is compared with the model on enumerated "
              "and random inputs for all input types, matching metrics, thresholds, decision metrics and backends.")
LEVEL_NOTE = ("Coq: end-to-end theorems for unmatched instance input: C01_end_to_end (threshold matcher, IoU/Dice lists, decision metric), "
              "C01_end_to_end_every_metric (any combination of IoU, Dice, RVD, ASSD, clDice and any decision metric: overlap metrics and RVD by "
              "the set definitions against the union of the assigned predictions, RVD defined for every evaluated instance, ASSD/clDice "
              "entries are the geometric values of the evaluated instances, whose meaning is C07/C06), C01_end_to_end_merge_matcher and "
              "C01_end_to_end_merge_matcher_every_metric (the same for MaximizeMergeMatching, the label map characterised as in C14). Layer "
              "L2: crops as identity, proved harmless by GenEq_Crop + C07_crop_invariant. Semantic input: semantic_pipeline = connected "
              "components (C05) then the instance pipeline, inside the model (C01_semantic_pipeline_is_composition), and its result does not depend "
              "on how a backend numbers the components when the matching is determined (C01_semantic_result_independent_of_component_numbering, "
              "from C05 uniqueness + C09 renaming invariance); this path is also run in the engine and compared with evaluate(). Geometric "
              "values enter the pipeline model as parameters taken from the implementation's own metric calls (conformance: C07, C06). "
              "Trusted: Coq kernel, translator, extraction+driver, harness.")
TECHNIQUE = "machine-checked proof in Rocq (Coq) (composition of component theorems) + AST re-translation + end-to-end model/implementation correspondence"


def has_ties(cfg, pred, ref):
    if cfg["input"] == "matched" or not pred.any() or not ref.any():
        return False
    mm = cfg.get("mmetric", "IOU")
    thr = cfg.get("mthr", 0.5)
    cands = impl_candidates(pred, ref, mm)
    decr = mm == "ASSD"
    ok = [c for c in cands if (c[0] <= thr if decr else c[0] >= thr)]
    for a, b in itertools.combinations(ok, 2):
        if a[0] == b[0] and (a[1] == b[1] or a[2] == b[2]):
            return True
    return cfg.get("matcher") == "merge" and len(ok) != len({c[1] for c in ok})   # merge order can depend on ties of combined scores


PENDING = []


def one_case(ctx, cfg, pred, ref, tag, chain=None):
    """queue a case; flush() evaluates implementation and (batched) model.  Cases with the same [chain] id are evaluated, in
    order, on ONE evaluator object (the documented procedure is a function of the input alone, also on the n-th use)."""
    PENDING.append((cfg, pred, ref, tag, chain))


def flush(ctx):
    items, metas = [], []
    chains = {}
    for cfg, pred, ref, tag, chain in PENDING:
        history = []
        if chain is None:
            ev = impl.make_evaluator(cfg)
        else:
            if chain not in chains:
                chains[chain] = (impl.make_evaluator(cfg), [])
            ev, history = chains[chain]
        out = impl.evaluate(ev, pred.copy(), ref.copy())
        hist_now = list(history)
        history.append({"pred": pred, "ref": ref})
        try:
            ip, ir = (pred, ref) if cfg["input"] != "semantic" else pipeline.approximate(pred, ref, cfg.get("backend"))
            ties = has_ties(cfg, ip, ir)
        except Exception as e:  # noqa
            if not isinstance(out, tuple):
                ctx.disagree("Pipeline (harness error)", {"cfg": cfg, "pred": pred, "ref": ref, "error": repr(e)[:200]})
            else:
                ctx.count({"cfg": cfg, "rejected": out[1]}, False)
            continue
        items.append((cfg, ip, ir))
        metas.append((cfg, pred, ref, tag, out, ip, ir, ties, hist_now))
    PENDING.clear()
    mrs = pipeline.model_results(items)
    for (cfg, pred, ref, tag, out, ip, ir, ties, hist), mr in zip(metas, mrs):
        judge(ctx, cfg, pred, ref, tag, out, ip, ir, ties, mr, hist)
    # semantic input once more against the whole path inside the model (connected components computed by the model itself;
    # its numbering may differ from the backend's, which cannot matter without ties: C01_semantic_result_independent_of_component_numbering)
    sem = [(cfg, pred, ref, out, ties, hist) for (cfg, pred, ref, tag, out, ip, ir, ties, hist) in metas if cfg["input"] == "semantic" and pred.size <= 400]
    for (cfg, pred, ref, out, ties, hist), mr in zip(sem, pipeline.semantic_model_results([(c, p, r) for c, p, r, _, _, _ in sem])):
        if mr[0] == "skip" or isinstance(out, tuple) or ties:
            continue
        ctx.bump("semantic path inside the model")
        case = {"cfg": cfg, "pred": pred, "ref": ref}
        if hist:
            case["history"] = list(hist)
        if mr[0] == "err":
            ctx.disagree("Semantic.semantic_pipeline", {**case, "model_error": mr[1]})
            continue
        d = pipeline.compare(cfg, impl.canon_result(out["ungrouped"][0]), mr[1])
        if d:
            ctx.violation("semantic input: result differs from 'connected components, then the documented procedure': " + "; ".join(d[:3]),
                          {**case, "differences": d})


def judge(ctx, cfg, pred, ref, tag, out, ip, ir, ties, mr, hist=()):
    case = {"cfg": cfg, "pred": pred, "ref": ref}
    if hist:
        case["history"] = list(hist)          # inputs evaluated before on the same evaluator object
    ncand = len({(int(a), int(b)) for a, b in zip(ir.ravel().tolist(), ip.ravel().tolist()) if a and b})
    ctx.count({"cfg": cfg, "pred": pred.tolist(), "ref": ref.tolist()}, ncand >= 1)
    ctx.bump(f"{tag}/{cfg['input']}/{cfg.get('mmetric', '-')}/{pred.ndim}d")
    if isinstance(out, tuple):
        if mr[0] == "err" or mr[0] == "skip":
            return                                    # both sides reject (e.g. RVD quotient undefined)
        ctx.violation("evaluate raised although the documented procedure yields a result: " + str(out[1:]), {**case, "observed": out})
        return
    r = impl.canon_result(out["ungrouped"][0])
    if mr[0] == "skip":
        ctx.bump("skipped: " + mr[1][:20])
        return
    if mr[0] == "err":
        ctx.violation("evaluate returned a result although the documented procedure is undefined", {**case, "observed": r, "model_error": mr[1]})
        return
    d = pipeline.compare(cfg, r, mr[1])
    if d:
        if ties:
            ctx.bump("difference under tied competing candidates (tolerated)")
        else:
            ctx.violation("result differs from the documented definitions: " + "; ".join(d[:3]), {**case, "observed": r, "differences": d})


def own_pairs(pred, ref):
    """the (reference, prediction) label pairs sharing a voxel, counted voxel by voxel in Python integers"""
    return sorted({(int(r), int(p)) for p, r in zip(pred.reshape(-1).tolist(), ref.reshape(-1).tolist()) if p and r})


def pair_codes_case(ctx, pred, ref):
    """candidate discovery on labels so far apart that pred * (max_ref + 1) + ref passes 2^53 (still below 2^64): the answer is a matter
    of which labels share a voxel, whatever their magnitude; called directly because a lookup-table relabelling of such labels needs GBs"""
    from panoptica._functionals import _calc_overlapping_labels
    want = own_pairs(pred, ref)
    refl = tuple(sorted({int(x) for x in ref.reshape(-1).tolist() if x}))
    case = {"mode": "pair_codes", "pred": pred, "ref": ref}
    ctx.count({"pair_codes": [pred.tolist(), ref.tolist()]}, len(want) >= 1)
    if not refl:
        return
    try:
        got = sorted((int(a), int(b)) for a, b in _calc_overlapping_labels(pred.copy(), ref.copy(), refl))
    except Exception as e:
        ctx.violation("candidate discovery raised " + repr(e)[:120], case)
        return
    if got != want:
        ctx.violation(f"candidate pairs (reference, prediction) {got[:4]} but the labels sharing a voxel are {want[:4]}", {**case, "observed": got, "expected": want})


def far_labels(ctx):
    rng = ctx.rng
    for _ in range(ctx.scale(60, 600)):
        shape = rng.choice([(6,), (3, 4), (4, 4), (2, 3, 3)])
        dt = rng.choice(["uint32", "uint64", "uint64"])      # instance pairs only carry unsigned arrays (processing_pair dtype check)
        top = 31 if dt == "uint32" else rng.choice([31, 40, 45])
        n = int(np.prod(shape))
        def labels(k, bits):
            return [rng.choice([rng.randint(1, 9), 2 ** rng.randint(min(12, bits), bits) + rng.randint(0, 9), 2 ** bits - rng.randint(1, 9)]) for _ in range(k)]
        rbits = rng.randint(16, min(top, 62 - top))
        pl, rl = labels(rng.randint(1, 3), top), labels(rng.randint(1, 3), rbits)
        pred = np.array([rng.choice([0] + pl) for _ in range(n)], dt).reshape(shape)
        ref = np.array([rng.choice([0] + rl) for _ in range(n)], dt).reshape(shape)
        ctx.bump("pair codes / " + ("beyond 2^53" if int(pred.max()) * (int(ref.max()) + 1) >= 2 ** 53 else "below 2^53"))
        pair_codes_case(ctx, pred, ref)


def run(ctx):
    common.serial_pool()
    rng = ctx.rng
    cdir = common.VERIF / "corpus" / "C01"
    if cdir.exists():
        for f in sorted(cdir.glob("*.json")):
            d = json.loads(f.read_text())
            if d.get("mode") == "pair_codes":
                pair_codes_case(ctx, common.arr_from_json(d["pred"]), common.arr_from_json(d["ref"]))
                continue
            one_case(ctx, d["cfg"], common.arr_from_json(d["pred"]), common.arr_from_json(d["ref"]), "corpus")
    # D5 / D6 witnesses
    a = np.zeros((1, 8), np.uint8); a[0, 1:3] = 128; a[0, 5:7] = 3
    one_case(ctx, {"input": "matched", "imetrics": ["IOU"], "gmetrics": []}, a.copy(), a.copy(), "corpus")
    b = np.zeros((1, 6), np.uint32); b[0, 0:2] = 70000; b[0, 3:5] = 5
    one_case(ctx, {"input": "unmatched", "matcher": "naive", "mmetric": "IOU", "mthr": 0.5, "imetrics": ["IOU"], "gmetrics": []}, b.copy(), b.copy(), "corpus")
    # exhaustive small layer
    maps = [np.array(v, np.uint8).reshape(1, 4) for v in itertools.product([0, 1, 2], repeat=4)]
    pairs = list(itertools.product(range(len(maps)), repeat=2))
    full = ctx.tier == "thorough"
    sel = pairs if full else rng.sample(pairs, ctx.scale(120, 0))
    for i, j in sel:
        for it in (("matched", "unmatched", "semantic") if full else (rng.choice(["matched", "unmatched", "semantic"]),)):
            cfg = gen_cfg(rng, it)
            if it != "matched" and rng.random() < 0.5:
                cfg["mthr"] = rng.choice([0.0, 0.25, 1 / 3, 0.5, 2 / 3, 1.0]) if cfg["mmetric"] != "ASSD" else rng.choice([0.0, 0.5, 1.0])
            one_case(ctx, cfg, maps[i], maps[j], "1x4")
    ctx.layers.append({"layer": "all pairs of maps over {0,1,2} on 1x4 x input types x sampled configuration", "pairs": len(sel), "of": len(pairs), "exhaustive": full})
    for _ in range(ctx.scale(400, 4000)):
        it = rng.choice(["matched", "unmatched", "unmatched", "semantic"])
        p, r = impl.rand_pair(rng, max_side=7, max_inst=4)
        if it == "semantic":
            k = rng.choice([1, 2])
            p, r = np.where(p != 0, 1 + (p % k), 0).astype(rng.choice(["uint8", "int16", "int64"])), np.where(r != 0, 1 + (r % k), 0)
            r = r.astype(p.dtype)
        one_case(ctx, gen_cfg(rng, it), p, r, "random")
    # matching thresholds a hair on the failing side of an achieved candidate score (next float, 2e-6 relative, 5e-9 absolute)
    # and exactly at it; thresholds outside [0, 1] (distances are not bounded by 1; an overlap threshold above 1 matches nothing)
    for _ in range(ctx.scale(60, 600)):
        p, r = impl.rand_pair(rng, max_side=7, max_inst=3)
        if not p.any() or not r.any():
            continue
        cfg = gen_cfg(rng, "unmatched")
        cfg["matcher"] = "naive"
        mm = cfg["mmetric"]
        try:
            cands = impl_candidates(p, r, mm)
        except Exception:  # noqa
            continue
        if not cands:
            continue
        v = rng.choice(cands)[0]
        sign = -1.0 if mm == "ASSD" else 1.0
        cfg["mthr"] = rng.choice([float(np.nextafter(v, v + sign)), v * (1 + sign * 2e-6), v + sign * 5e-9, v, float(np.nextafter(v, v - sign))])
        if cfg["mthr"] < 0:
            continue
        one_case(ctx, cfg, p, r, "near-threshold")
    for _ in range(ctx.scale(30, 300)):
        h, w = rng.randint(5, 8), rng.randint(14, 22)
        r = np.zeros((h, w), np.uint8); p = np.zeros((h, w), np.uint8)
        r[1:4, 1:6] = 1; p[1:4, 1 + rng.randint(1, 4):6 + rng.randint(1, 5)] = 1        # shifted: ASSD between ~0.5 and ~4
        r[1:h - 1, 10:13] = 2; p[2:h - 1, 10 + rng.randint(0, 2):13 + rng.randint(0, 3)] = 2
        cfg = gen_cfg(rng, "unmatched")
        cfg["matcher"], cfg["m2o"] = "naive", False
        if rng.random() < 0.7:
            cfg["mmetric"], cfg["mthr"] = "ASSD", rng.choice([1.5, 2.0, 3.0, 5.0, 50.0])
        else:
            cfg["mmetric"], cfg["mthr"] = rng.choice(["IOU", "DSC"]), rng.choice([1.25, 1.0000001, 2.0])
            if rng.random() < 0.5:
                p = r.copy()                                                                # perfect overlap still does not reach a threshold above 1
        one_case(ctx, cfg, p, r, "threshold-range")
    # two predictions competing for one reference with Farey-neighbour IoUs (distinct, equal to nine decimals), ~5*10^4 voxels
    import random as _random
    for k in range(1 if ctx.tier != "thorough" else 4):
        p, r, _ = impl.farey_pair(_random.Random(rng.randrange(10 ** 6)))
        one_case(ctx, {"input": "unmatched", "matcher": "naive", "m2o": False, "mmetric": "IOU", "mthr": 0.25, "imetrics": ["IOU", "DSC"], "gmetrics": []},
                 p, r, "near-equal")
    # chains of candidates at low thresholds: a prediction whose best reference is taken by a better pair falls back to its second one
    for _ in range(ctx.scale(25, 250)):
        p, r = impl.chain_pair(rng)
        cfg = gen_cfg(rng, "unmatched")
        cfg["matcher"], cfg["m2o"] = "naive", rng.random() < 0.3
        cfg["mmetric"], cfg["mthr"] = rng.choice(["IOU", "DSC", "IOU"]), rng.choice([0.05, 0.1, 0.2, 0.25])
        one_case(ctx, cfg, p, r, "chain")
    # a reference split unevenly into two predictions that BOTH meet a Dice threshold above one half (Dice > 0.5 only means IoU > 1/3:
    # the "at most one partner above one half" argument holds for IoU alone); one-to-one matching must leave the second one unmatched
    for _ in range(ctx.scale(25, 250)):
        n = rng.randint(7, 16)
        k = n // 2 + rng.randint(0, 1)
        h = rng.choice([1, 1, 2])
        ref = np.zeros((h, n + 6), np.uint8); pred = np.zeros((h, n + 6), np.uint8)
        off = rng.randint(0, 3)
        ref[:, off:off + n] = 1
        pred[:, off:off + k] = rng.choice([1, 2]); pred[:, off + k:off + n] = 3
        if rng.random() < 0.5:
            ref[:, off + n + 1:off + n + 3] = 2; pred[:, off + n + 1:off + n + 3] = 7
        cfg = gen_cfg(rng, "unmatched")
        cfg["matcher"], cfg["m2o"] = "naive", rng.random() < 0.2
        cfg["mmetric"], cfg["mthr"] = rng.choice(["DSC", "DSC", "IOU"]), rng.choice([0.51, 0.55, 0.6, 0.65])
        if rng.random() < 0.3:
            pred, ref = pred.T.copy(), ref.T.copy()
        one_case(ctx, cfg, pred, ref, "split")
    # the same evaluator object used for several inputs of different dimensionality / dtype / emptiness
    for ch in range(ctx.scale(40, 400)):
        it = rng.choice(["matched", "unmatched", "semantic", "semantic"])
        cfg = gen_cfg(rng, it)
        if it == "semantic" and rng.random() < 0.7:
            cfg["backend"] = None
        dims = [1, 2, 3]
        rng.shuffle(dims)
        for nd in dims[:rng.choice([2, 3])]:
            p, r = impl.rand_pair(rng, dims=(nd,), max_side=5 if nd == 3 else 7, max_inst=3)
            if rng.random() < 0.1:
                p = np.zeros_like(p)
            if it == "semantic":
                # speckled two-class maps: diagonal contacts and touching classes, where the backends differ
                r = np.array([rng.choice([0, 0, 0, 1, 1, 2]) for _ in range(r.size)], "uint8").reshape(r.shape)
                p = r.copy()
                fl = p.reshape(-1)
                for _ in range(rng.randint(0, 3)):
                    fl[rng.randrange(fl.size)] = rng.choice([0, 1, 2])
            one_case(ctx, cfg, p, r, "reused", chain=ch)
    flush(ctx)
    far_labels(ctx)
    for mm in pipeline.DEFINITION_MISMATCHES[:5]:
        ctx.violation(f"ASSD of matched instance {mm['label']} is {mm['implementation_assd']!r}, the definition gives {mm['definition_assd']!r}", mm)
    del pipeline.DEFINITION_MISMATCHES[:]
    tr = pipeline.TRIPLES[:: max(1, len(pipeline.TRIPLES) // 50)][:60]
    n, bad = coq_crosscheck("C01", tr)
    ctx.crosschecked = n
    for b in bad:
        ctx.disagree("extraction-vs-vm_compute", tr[b])
    ctx.exhaustive = full


def replay(path):
    common.serial_pool()
    d = json.loads(open(path).read())
    pred, ref = common.arr_from_json(d["pred"]), common.arr_from_json(d["ref"])
    ctx = common.Ctx("C01", "quick", 0)
    if d.get("mode") == "pair_codes":
        pair_codes_case(ctx, pred, ref)
        for w, r in ctx.violations:
            print("VIOLATION:", w)
        return 1 if ctx.violations else 0
    for h in d.get("history", []):
        one_case(ctx, d["cfg"], common.arr_from_json(h["pred"]), common.arr_from_json(h["ref"]), "replay", chain=0)
    one_case(ctx, d["cfg"], pred, ref, "replay", chain=0)
    flush(ctx)
    for mm in pipeline.DEFINITION_MISMATCHES[:5]:
        ctx.violation(f"ASSD of matched instance {mm['label']} is {mm['implementation_assd']!r}, the definition gives {mm['definition_assd']!r}", mm)
    del pipeline.DEFINITION_MISMATCHES[:]
    ev = impl.make_evaluator(d["cfg"])
    for h in d.get("history", []):
        impl.evaluate(ev, common.arr_from_json(h["pred"]), common.arr_from_json(h["ref"]))
    out = impl.evaluate(ev, pred, ref)
    print("implementation" + (" (after %d earlier evaluations on the same evaluator)" % len(d["history"]) if d.get("history") else "") + ":",
          out if isinstance(out, tuple) else common.jsonable(impl.canon_result(out["ungrouped"][0])))
    for w, r in ctx.violations:
        print("VIOLATION:", w)
    return 1 if ctx.violations else 0
