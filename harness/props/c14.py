"""C14 -- the merge matcher only merges when it improves the match."""
import contextlib
import io
import json
from fractions import Fraction

import numpy as np

from harness import common, impl
from harness.common import engine_run, coq_crosscheck, fq
from harness.props.c03 import impl_candidates, enc_cands

TARGETS = ["theories/Props/C14.vo", "theories/Proofs/GenEq_MetricTable.vo", "theories/Proofs/GenEq_MatcherLoop.vo"]
GENEQ = {"theories/Proofs/GenEq_MetricTable.vo": "MetricTable", "theories/Proofs/GenEq_MatcherLoop.vo": "MatcherLoop"}
# T1 units added after round 4 of the seeded changes
TARGETS = TARGETS + ["theories/Proofs/GenEq_MetricCall.vo"]
GENEQ = dict(GENEQ, **{"theories/Proofs/GenEq_MetricCall.vo": "MetricCall"})
ALLOWED_AXIOMS = []
RULE = ("case = (unmatched pair whose references are covered by 1-4 prediction fragments incl. fragments that worsen the score and competing "
        "references, metric in {IOU,DSC,ASSD}, threshold); every call of new_combination_score is logged; oracle on the implementation: each "
        "prediction assigned once, every matched reference has a fragment meeting the threshold alone, every accepted merge strictly improved "
        "the score in the metric's direction, final score >= best single score of its fragments and meets the threshold; the final label map is "
        "compared with the Coq model driven by the logged combined scores; non-trivial = at least one combined-score evaluation")
ASSUMPTIONS = ["the combined score of a label list is the implementation's own Metric call (C06/C07 tie it to the definitions)",
               "'best single candidate' is read as the seed: the best-first candidate of the reference among predictions still unassigned (DESIGN C14)"]
TRUSTED = ["numpy/scipy C code (modelled, not verified)"]
LEVEL_TEXT = ("Theorem C14_merge_matcher (Props/C14.v) holds for every candidate list, every direction, threshold and every combined-score function: "
              "by induction over the loop with an invariant, predictions are assigned at most once, a matched reference's recorded score is the "
              "combined score of exactly its assigned predictions, meets the threshold and is at least as good as a seed that met it alone; the "
              "per-iteration decision table (merge only if strictly better) is tied to the source by re-translating the loop body each run.")
LEVEL_NOTE = "Trusted: Coq kernel, translator, extraction+driver, harness (logging wrapper around new_combination_score). Scores themselves: C06/C07."
TECHNIQUE = "machine-checked proof in Rocq (Coq) (loop invariant) + AST re-translation of the loop body + trace correspondence"


def strictly_better(decr, a, b):
    return a < b if decr else a > b


def beats(decr, s, t):
    return s <= t if decr else s >= t


def impl_merge(pred, ref, mname, thr):
    from panoptica.instance_matcher import MaximizeMergeMatching
    from panoptica.utils.processing_pair import UnmatchedInstancePair
    log = []
    m = MaximizeMergeMatching(matching_metric=impl.metric(mname), matching_threshold=thr)
    orig = m.new_combination_score

    def wrapped(pred_labels, new_pred_label, ref_label, up):
        before = list(pred_labels)
        s = orig(pred_labels, new_pred_label, ref_label, up)
        log.append((int(ref_label), [int(x) for x in before] + [int(new_pred_label)], float(s)))
        return s
    m.new_combination_score = wrapped
    try:
        with contextlib.redirect_stdout(io.StringIO()), np.errstate(all="ignore"):
            out = m.match_instances(UnmatchedInstancePair(pred.copy(), ref.copy()))
    except Exception as e:  # noqa
        return ("err", type(e).__name__, str(e)[:150]), log
    ref_labels = set(int(x) for x in np.unique(ref) if x != 0)
    mp = {}
    for p in [int(x) for x in np.unique(pred) if x != 0]:
        new = np.unique(out.prediction_arr[pred == p])
        if len(new) != 1:
            return ("err", "split", f"prediction {p} split into {new.tolist()}"), log
        if int(new[0]) in ref_labels:
            mp[p] = int(new[0])
    return mp, log


def own_candidates(pred, ref, mname):
    """the overlapping (reference, prediction) pairs with their single scores, enumerated by the harness itself (the library's own
    enumeration is what C03 checks; here it must not be trusted to be complete)"""
    both = (pred != 0) & (ref != 0)
    pairs = sorted({(int(r), int(p)) for r, p in zip(ref[both].tolist(), pred[both].tolist())})
    out = []
    for r, p in pairs:
        with np.errstate(all="ignore"):
            out.append((float(impl.metric(mname)(ref.copy(), pred.copy(), r, [p])), r, p))
    return out


def fragments(rng):
    """references covered by several prediction fragments, some of which should be rejected"""
    nd = rng.choice([1, 2])
    shape = (1, rng.randint(14, 40)) if nd == 1 else (rng.randint(3, 5), rng.randint(10, 22))
    ref = np.zeros(shape, np.uint8)
    pred = np.zeros(shape, np.uint8)
    w = shape[-1]
    nref = rng.randint(1, 2) if rng.random() < 0.6 else 3
    cuts = sorted(rng.sample(range(1, w), min(w - 1, 2 * nref)))
    lab = 0
    plab = 0
    for i in range(0, len(cuts) - 1, 2):
        lab += 1
        a, b = cuts[i], cuts[i + 1]
        ref[..., a:b] = lab
        # fragments: split [a-ext, b+ext) into k pieces
        lo = max(0, a - rng.choice([0, 0, 1, 3, 6]))
        hi = min(w, b + rng.choice([0, 0, 1, 3, 6]))
        k = rng.randint(1, 6)
        pts = sorted(set([lo, hi] + [rng.randint(lo, hi) for _ in range(k - 1)]))
        for x, y in zip(pts, pts[1:]):
            if rng.random() < 0.85 and y > x:
                plab += 1
                pred[..., x:y] = plab
                if nd == 2 and rng.random() < 0.4:
                    pred[0, x:y] = 0
    return pred, ref


def fragments2(rng):
    """one or two references, each partitioned into 3-6 prediction fragments; some fragments carry extra mass outside the
    reference (they should be rejected) -- gives accept / reject / accept sequences on one reference"""
    w = rng.randint(40, 90)
    ref = np.zeros((1, w), np.uint8)
    pred = np.zeros((1, w), np.uint8)
    lab = 0
    pos = rng.randint(0, 3)
    outside = list(range(w))
    for r in range(1, rng.randint(1, 2) + 1):
        length = rng.randint(8, 20)
        if pos + length >= w - 10:
            break
        ref[0, pos:pos + length] = r
        k = rng.randint(3, 6)
        cuts = sorted(set([pos, pos + length] + [rng.randint(pos + 1, pos + length - 1) for _ in range(k - 1)]))
        for a, b in zip(cuts, cuts[1:]):
            lab += 1
            pred[0, a:b] = lab
        pos += length + rng.randint(1, 3)
    free = [i for i in range(pos, w)]
    rng.shuffle(free)
    for l in range(1, lab + 1):
        if rng.random() < 0.45 and free:
            extra = rng.randint(1, max(1, len(free) // 3))
            for i in free[:extra]:
                pred[0, i] = l
            free = free[extra:]
    return pred, ref


def fragments3(rng):
    """references as neighbouring intervals, predictions as an independent partition into intervals: fragments BRIDGE two references,
    so a fragment rejected at (or lost to) its better reference is still a candidate of the other one"""
    w = rng.randint(24, 60)
    h = rng.choice([1, 1, 2])
    dense = rng.random() < 0.25          # parcellation-like: no background voxel anywhere in the pair
    ref = np.zeros((h, w), np.uint8)
    pred = np.zeros((h, w), np.uint8)
    pos = 0 if dense else rng.randint(0, 3)
    r = 0
    while pos < w - 6 and r < 3:
        r += 1
        length = rng.randint(6, 16)
        ref[:, pos:min(w, pos + length)] = r
        pos += length + (0 if dense else rng.choice([0, 0, 1, 2]))
    if dense:
        ref[:, pos:] = r
    pos, lab = 0 if dense else rng.randint(0, 2), 0
    while pos < w:
        length = rng.randint(2, 12)
        if dense or rng.random() < 0.85:
            lab += 1
            pred[:, pos:min(w, pos + length)] = lab
            if h == 2 and rng.random() < 0.3 and not dense:
                pred[0, pos:min(w, pos + length)] = 0
        pos += length
    return pred, ref


def fragments4(rng):
    """two adjacent references; Q covers most of the first, P BRIDGES both (a part in each), S is a small fragment inside the second:
    P is a candidate of both references -- whichever takes or rejects it first, it stays a candidate of the other one"""
    a, b = rng.randint(8, 16), rng.choice([rng.randint(8, 16), rng.randint(24, 60)])
    k, m = rng.randint(1, 5), rng.randint(2, 8)            # P = [a - k, a + m)
    h = rng.choice([1, 1, 2])
    w = a + b + rng.randint(0, 3)
    ref = np.zeros((h, w), np.uint8); pred = np.zeros((h, w), np.uint8)
    ref[:, 0:a] = 1; ref[:, a:a + b] = 2
    pred[:, rng.randint(0, 2):a - k] = 1
    pred[:, a - k:a + m] = 2
    s0 = a + m + rng.randint(0, 3)
    if s0 < a + b:
        pred[:, s0:min(a + b, s0 + rng.randint(1, 4))] = 3
    if rng.random() < 0.3 and s0 + 5 < a + b:
        pred[:, s0 + 5:a + b] = 4
    if rng.random() < 0.5:
        pred, ref = np.ascontiguousarray(pred[:, ::-1]), np.ascontiguousarray(ref[:, ::-1])
    return pred, ref


def fragments5(rng):
    """a reference box, a main prediction box and a one-voxel fragment inside the reference such that merging the fragment leaves the
    ASSD EXACTLY unchanged (such ties are frequent for boxes: about 2 % of random scenes; they are selected here by rejection, using
    the metric only to pick the input): a merge must STRICTLY improve the score, so the fragment has to stay out"""
    H, W = 8, 10
    with np.errstate(all="ignore"):
        for _ in range(400):
            rh, rw = rng.randint(2, 5), rng.randint(3, 7)
            ry, rx = rng.randint(0, H - rh), rng.randint(0, W - rw)
            ref = np.zeros((H, W), np.uint8); ref[ry:ry + rh, rx:rx + rw] = 1
            mh, mw = rng.randint(1, rh), rng.randint(1, rw)
            my, mx = rng.randint(max(0, ry - 1), ry + rh - mh), rng.randint(max(0, rx - 1), rx + rw - mw)
            pred = np.zeros((H, W), np.uint8); pred[my:my + mh, mx:mx + mw] = 1
            if not ((pred != 0) & (ref != 0)).any():
                continue
            ey, ex = rng.randint(ry, ry + rh - 1), rng.randint(rx, rx + rw - 1)
            if pred[ey, ex]:
                continue
            pred[ey, ex] = 2
            a = impl.metric("ASSD")(ref.copy(), pred.copy(), 1, [1])
            b = impl.metric("ASSD")(ref.copy(), pred.copy(), 1, [1, 2])
            if a == b:
                return pred, ref
    return fragments(rng)


def reuse_layer(ctx):
    """two matching runs on the SAME arrays (a lenient threshold first, which merges fragments, then a threshold between the best single
    score and the merged score): the second run is a run on the instance map the user passed in -- a reference may only be matched if a
    single prediction OF THAT MAP meets the threshold"""
    from panoptica.instance_matcher import MaximizeMergeMatching
    from panoptica.utils.processing_pair import UnmatchedInstancePair
    rng = ctx.rng
    for _ in range(ctx.scale(30, 300)):
        pred, ref = [fragments, fragments2, fragments4][rng.randrange(3)](rng)
        if not pred.any() or not ref.any():
            continue
        mname = rng.choice(["IOU", "DSC"])
        own = own_candidates(pred, ref, mname)
        if not own:
            continue
        P, R = pred.copy(), ref.copy()
        with contextlib.redirect_stdout(io.StringIO()), np.errstate(all="ignore"):
            try:
                MaximizeMergeMatching(matching_metric=impl.metric(mname), matching_threshold=rng.choice([0.0, 0.1])).match_instances(UnmatchedInstancePair(P, R))
            except Exception:  # noqa
                continue
        best = {}
        for s_, rr, pp in own:
            best[rr] = max(best.get(rr, 0.0), s_)
        thr2 = min(0.99, max(best.values()) + rng.choice([0.02, 0.05, 0.1]))
        case = {"mode": "reuse", "pred": pred, "ref": ref, "metric": mname, "threshold": thr2}
        ctx.count({"reuse": True, "pred": pred.tolist(), "ref": ref.tolist(), "metric": mname, "thr": thr2}, True)
        ctx.bump("second run on the same arrays")
        problems = reuse_problems(pred, ref, P, R, mname, thr2, own)
        if problems:
            ctx.violation("merge matcher, second run on the same arrays: " + "; ".join(problems[:2]), case)


def reuse_problems(pred, ref, P, R, mname, thr2, own):
    from panoptica.instance_matcher import MaximizeMergeMatching
    from panoptica.utils.processing_pair import UnmatchedInstancePair
    bad = []
    if not np.array_equal(P, pred) or not np.array_equal(R, ref):
        bad.append("the first matching run changed the arrays the caller passed in (fragments it merged now carry one label)")
    with contextlib.redirect_stdout(io.StringIO()), np.errstate(all="ignore"):
        out = MaximizeMergeMatching(matching_metric=impl.metric(mname), matching_threshold=thr2).match_instances(UnmatchedInstancePair(P, R))
    ref_labels = set(int(x) for x in np.unique(ref) if x != 0)
    matched = {int(x) for x in np.unique(out.prediction_arr[pred != 0]) if int(x) in ref_labels}
    for rr in sorted(matched):
        singles = [s_ for s_, r2, pp in own if r2 == rr]
        if not any(s_ >= thr2 for s_ in singles):
            bad.append(f"reference {rr} is matched at threshold {thr2} although no single prediction of the instance map passed in meets it "
                       f"(single scores {sorted(singles)})")
    return bad


def run(ctx):
    common.serial_pool()
    rng = ctx.rng
    cases = []
    # the D7 witness
    r = np.zeros((1, 40), np.uint8); r[0, 0:8] = 1
    p = np.zeros((1, 40), np.uint8); p[0, 0:7] = 1; p[0, 7:40] = 2
    cases.append((p, r, "ASSD", 5.0))
    for it in range(ctx.scale(300, 3000)):
        tie = it % 10 == 9
        pred, ref = fragments5(rng) if tie else [fragments, fragments2, fragments3, fragments4][it % 4](rng)
        if not pred.any() or not ref.any():
            continue
        mname = "ASSD" if tie else rng.choice(["IOU", "DSC", "ASSD"])
        thr = rng.choice([0.0, 0.1, 0.2, 0.3, 0.5, 0.7]) if mname != "ASSD" else rng.choice([0.3, 1.0, 2.5, 10.0])
        if tie:
            thr = rng.choice([2.5, 10.0])
        if rng.random() < 0.35:
            # reference label VALUES are arbitrary (sparse, not 1..n): the labels given to unassigned predictions must avoid them
            labs = [int(x) for x in np.unique(ref) if x]
            new = sorted(rng.sample(range(1, 10), len(labs)))
            ref = sum((np.where(ref == l, n, 0) for l, n in zip(labs, new)), np.zeros_like(ref)).astype(ref.dtype)
        if rng.random() < 0.3:
            # a threshold a hair on the failing side of an achieved single-candidate score (next float / 2e-6 relative), or exactly at it
            try:
                cs = impl_candidates(pred, ref, mname)
            except Exception:  # noqa
                cs = []
            if cs:
                v = rng.choice(cs)[0]
                sign = -1.0 if mname == "ASSD" else 1.0
                t2 = rng.choice([float(np.nextafter(v, v + sign)), v * (1 + sign * 2e-6), v])
                if t2 >= 0:
                    thr = t2
        cases.append((pred, ref, mname, thr))
    mod_in, mod_meta = [], []
    for pred, ref, mname, thr in cases:
        decr = mname == "ASSD"
        cands = impl_candidates(pred, ref, mname)
        mp, log = impl_merge(pred, ref, mname, thr)
        case = {"pred": pred, "ref": ref, "metric": mname, "threshold": thr}
        ctx.count({"pred": pred.tolist(), "ref": ref.tolist(), "metric": mname, "thr": thr}, len(log) > 0)
        ctx.bump(f"{mname}/combos={min(len(log), 3)}")
        if isinstance(mp, tuple):
            ctx.violation("merge matching did not return a result: " + str(mp[1:]), {**case, "observed": mp})
            continue
        single = {(rr, pp): s for s, rr, pp in cands}
        own = own_candidates(pred, ref, mname)
        if {(r_, p_) for _, r_, p_ in own} != set(single):
            ctx.disagree("candidate pairs offered to the merge matcher are not the overlapping pairs",
                         {**case, "offered": sorted(single), "overlapping": sorted((r_, p_) for _, r_, p_ in own)})
        bad = []
        groups = {}
        for pp, rr in mp.items():
            groups.setdefault(rr, []).append(pp)
            if (rr, pp) not in single:
                bad.append(f"prediction {pp} assigned to non-overlapping reference {rr}")
        # replay the accepted merges from the log
        cur = {}
        members = {}
        for rr, plist, new in log:
            pnew = plist[-1]
            if rr not in cur:
                seed = plist[0]
                cur[rr] = single.get((rr, seed))
                members[rr] = [seed]
            accepted = mp.get(pnew) == rr and plist[:-1] == members[rr]
            if accepted:
                if cur[rr] is None or not strictly_better(decr, new, cur[rr]):
                    bad.append(f"prediction {pnew} merged into reference {rr} although the score did not strictly improve ({cur[rr]} -> {new})")
                cur[rr] = new
                members[rr] = plist
        # independent replay (no use of the logged scores): walk the candidates best-first; every assigned fragment after the
        # seed must strictly improve the TRUE combined score of the fragments assigned so far
        members2 = {}
        true_cur = {}
        for s_, rr, pp in cands:
            if mp.get(pp) != rr:
                continue
            if rr not in members2:
                members2[rr] = [pp]
                true_cur[rr] = s_
                continue
            with np.errstate(all="ignore"):
                new_true = float(impl.metric(mname)(ref, pred, rr, members2[rr] + [pp]))
            if not strictly_better(decr, new_true, true_cur[rr]):
                bad.append(f"prediction {pp} merged into reference {rr} although the combined score did not strictly improve "
                           f"({true_cur[rr]} -> {new_true} for labels {members2[rr] + [pp]})")
            members2[rr].append(pp)
            true_cur[rr] = new_true
        for rr, ps in groups.items():
            singles = [single[(rr, pp)] for pp in ps if (rr, pp) in single]
            ok_seed = [s for s in singles if beats(decr, s, thr)]
            if not ok_seed:
                bad.append(f"reference {rr} matched although no single assigned prediction meets the threshold")
                continue
            best = min(ok_seed) if decr else max(ok_seed)
            final = cur.get(rr, single.get((rr, ps[0]))) if len(ps) > 1 or rr in cur else single[(rr, ps[0])]
            if len(ps) > 1:
                with np.errstate(all="ignore"):
                    final = float(impl.metric(mname)(ref, pred, rr, sorted(ps)))
            if not beats(decr, final, thr) or strictly_better(decr, best, final):
                bad.append(f"reference {rr}: final score {final} is worse than its best single candidate {best} or misses the threshold {thr}")
            # ... and at least as good as EVERY single candidate of this reference that was not given to another reference (a candidate
            # is visited after the reference's seed, which scores at least as well; merges only improve)
            free = [(s_, pp) for s_, r2, pp in own if r2 == rr and mp.get(pp) in (None, rr)]
            for s_, pp in free:
                if strictly_better(decr, s_, final):
                    bad.append(f"reference {rr}: final score {final} is worse than the single score {s_} of prediction {pp}, which overlaps it "
                               f"and was {'left unassigned' if mp.get(pp) is None else 'assigned to it'}")
                    break
        if bad:
            ctx.violation("merge matcher: " + "; ".join(bad[:3]), {**case, "matching": mp, "log": log, "candidates": cands})
        tbl = [[rr, plist, fq(s)] for rr, plist, s in log]
        mod_in.append([decr, fq(thr), enc_cands(cands), tbl])
        mod_meta.append((case, mp, log))
    reuse_layer(ctx)
    outs = engine_run(1401, mod_in)
    for (case, mp, log), o in zip(mod_meta, outs):
        mm = {e[0]: e[1] for e in o[0]}
        if mm != mp:
            ctx.disagree("Merge.merge_match", {**case, "implementation": mp, "model": mm, "log": log})
    triples = [(1401, i, o) for i, o in zip(mod_in, outs)]
    step = max(1, len(triples) // 50)
    n, bad = coq_crosscheck("C14", triples[::step][:60])
    ctx.crosschecked = n
    for b in bad:
        ctx.disagree("extraction-vs-vm_compute", triples[::step][b])


def replay(path):
    common.serial_pool()
    d = json.loads(open(path).read())
    pred, ref = common.arr_from_json(d["pred"]), common.arr_from_json(d["ref"])
    if d.get("mode") == "reuse":
        from panoptica.instance_matcher import MaximizeMergeMatching
        from panoptica.utils.processing_pair import UnmatchedInstancePair
        P, R = pred.copy(), ref.copy()
        with contextlib.redirect_stdout(io.StringIO()), np.errstate(all="ignore"):
            MaximizeMergeMatching(matching_metric=impl.metric(d["metric"]), matching_threshold=0.0).match_instances(UnmatchedInstancePair(P, R))
        bad = reuse_problems(pred, ref, P, R, d["metric"], d["threshold"], own_candidates(pred, ref, d["metric"]))
        print("prediction passed in:\n", pred, "\nthe same array after the first run:\n", P)
        for b in bad:
            print("VIOLATION:", b)
        return 1 if bad else 0
    mp, log = impl_merge(pred, ref, d["metric"], d["threshold"])
    cands = impl_candidates(pred, ref, d["metric"])
    print("candidates:", cands)
    print("implementation matching pred->ref:", mp)
    print("combined-score log (ref, labels, score):", log)
    o = engine_run(1401, [[d["metric"] == "ASSD", fq(d["threshold"]), enc_cands(cands), [[r, pl, fq(s)] for r, pl, s in log]]])[0]
    print("model:", o)
    ctx = common.Ctx("C14", "quick", 0)
    return 0 if (not isinstance(mp, tuple) and {e[0]: e[1] for e in o[0]} == mp) else 1
