"""C02 -- result bookkeeping: tp/fp/fn, per-TP lists and sq/rq/pq are mutually consistent."""
import itertools
import json
from fractions import Fraction

import numpy as np

from harness import common, impl, pipeline
from harness.common import engine_run, coq_crosscheck, fq, unfval

TARGETS = ["theories/Props/C02.vo", "theories/Proofs/GenEq_ResultCalc.vo", "theories/Proofs/GenEq_EvalTP.vo", "theories/Proofs/GenEq_EdgeCase.vo"]
GENEQ = {"theories/Proofs/GenEq_ResultCalc.vo": "ResultCalc", "theories/Proofs/GenEq_EvalTP.vo": "EvalTP", "theories/Proofs/GenEq_EdgeCase.vo": "EdgeCase"}
# units added to the cone after round 2 of the seeded changes (a refused / changed unit must be noticed by this check too)
TARGETS = TARGETS + ["theories/Proofs/GenEq_MetricTable.vo"]
GENEQ = dict(GENEQ, **{"theories/Proofs/GenEq_MetricTable.vo": "MetricTable"})
TARGETS = TARGETS + ["theories/Proofs/GenEq_Groups.vo"]
GENEQ = dict(GENEQ, **{"theories/Proofs/GenEq_Groups.vo": "Groups"})
TARGETS = TARGETS + ["theories/Proofs/GenEq_EvalSM.vo"]
GENEQ = dict(GENEQ, **{"theories/Proofs/GenEq_EvalSM.vo": "EvalSM"})
# T1 units added after round 4 of the seeded changes
TARGETS = TARGETS + ["theories/Proofs/GenEq_ResultInit.vo"]
GENEQ = dict(GENEQ, **{"theories/Proofs/GenEq_ResultInit.vo": "ResultInit"})
ALLOWED_AXIOMS = []
RULE = ("(i) evaluate() on random/structured pairs x input type x matcher (naive, many-to-one, merge) x matching metric/threshold x decision "
        "metric in {none, IOU, DSC, ASSD} x decision thresholds where 0, some or all instances fail; the identities are checked directly on "
        "the implementation's result and the whole result is compared with Model.Pipeline; (ii) directly constructed PanopticaResult for all "
        "num_ref,num_pred <= 5, tp <= min, lists from a value grid, compared with Model.Result; non-trivial = tp >= 1 and (fp + fn >= 1 or a "
        "decision threshold is set)")
ASSUMPTIONS = ["numpy's float summation order in np.average/np.std is not modelled: means/std compared within 2^-30 relative against exact rationals",
               "ASSD/clDSC per-instance values fed to the model come from the implementation's Metric calls (C07/C06)"]
TRUSTED = ["numpy/scipy C code (modelled, not verified)"]
LEVEL_TEXT = ("Theorems in Props/C02.v: for every input of the evaluation phase (any matcher outcome, metric selection, decision metric/threshold) "
              "tp+fp = #predicted instances, tp+fn = #reference instances, 0<=tp<=min, every list has tp entries, tp counts exactly the instances "
              "passing the decision threshold; sq/std are mean/population variance, rq = tp/(tp+fp/2+fn/2) in (0,1], pq = sq*rq, [0,1] ranges, "
              "Dice >= IoU per instance hence sq_dsc >= sq. Calculators, the tp/filter condition and the wiring are re-translated from the AST each "
              "run (GenEq_ResultCalc, GenEq_EvalTP); correspondence on evaluate() and on directly constructed results.")
LEVEL_NOTE = ("Per-instance scores, rq: ranges/order proved for the reported doubles (rnd monotone, Proofs/Rnd64Facts.v); means, std, pq: exact rationals, "
              "numpy's summation order not modelled (2^-30 tolerance in the correspondence). Trusted: Coq kernel, translator, extraction+driver, harness.")
TECHNIQUE = "machine-checked proof in Rocq (Coq) + AST re-translation (GenEq) + model/implementation correspondence"


def direct_results(ctx):
    """PanopticaResult(...) constructed directly."""
    from panoptica.panoptica_result import PanopticaResult
    rng = ctx.rng
    grid = [0.0, 0.25, 1 / 3, 0.5, 0.75, 1.0]
    ins, metas = [], []
    combos = [(nr, npd, tp) for nr in range(6) for npd in range(6) for tp in range(0, min(nr, npd) + 1)]
    if ctx.tier != "thorough":
        combos = rng.sample(combos, 40)
    for nr, npd, tp in combos:
        for _ in range(2 if ctx.tier == "thorough" else 1):
            ms = rng.sample(["DSC", "IOU", "ASSD", "RVD"], rng.randint(1, 4))
            lists = {m: [rng.choice(grid) * (3 if m == "ASSD" else 1) - (0.5 if m == "RVD" else 0) for _ in range(tp)] for m in ms}
            table = {m: [rng.randrange(5) for _ in range(4)] for m in impl.METRICS}
            std = rng.randrange(5)
            try:
                with np.errstate(all="ignore"):
                    r = PanopticaResult(reference_arr=None, prediction_arr=None, num_pred_instances=npd, num_ref_instances=nr, tp=tp,
                                        list_metrics={impl.metric(m): v for m, v in lists.items()}, edge_case_handler=impl.mk_handler(table, std))
                    r.calculate_all()
                    cr = impl.canon_result(r)
            except Exception as e:  # noqa
                ctx.violation("directly constructed result raised: " + repr(e)[:100], {"num_ref": nr, "num_pred": npd, "tp": tp, "lists": lists})
                continue
            ctx.count({"direct": [nr, npd, tp], "lists": lists}, tp >= 1)
            ctx.bump("direct")
            bad = pipeline.bookkeeping(cr, from_masks=False)
            if bad:
                ctx.violation("directly constructed result is inconsistent: " + "; ".join(bad[:3]),
                              {"num_ref": nr, "num_pred": npd, "tp": tp, "lists": lists, "observed": cr})
            ins.append([npd, nr, tp, [[impl.METRICS.index(m), [fq(v) for v in vs]] for m, vs in lists.items()], impl.enc_handler(table, std)])
            metas.append(({"num_ref": nr, "num_pred": npd, "tp": tp, "lists": lists, "table": table, "std": std}, cr))
    outs = engine_run(801, ins)
    for (case, cr), o in zip(metas, outs):
        if o[0] != 0:
            ctx.disagree("Result (direct)", {**case, "model": o})
            continue
        d = pipeline.compare({}, cr, o[1])
        if d:
            ctx.disagree("Result (direct)", {**case, "differences": d[:4]})
    return [(801, i, o) for i, o in zip(ins, outs)]


def gen_cfg(rng, it):
    cfg = {"input": it, "imetrics": rng.choice([["DSC", "IOU", "ASSD", "RVD"], ["IOU", "DSC"], ["IOU"], ["DSC", "IOU", "RVD"], ["ASSD", "IOU"]]),
           "gmetrics": []}
    if it != "matched":
        k = rng.choice(["naive", "naive", "m2o", "merge"])
        cfg["matcher"] = "merge" if k == "merge" else "naive"
        cfg["m2o"] = k == "m2o"
        cfg["mmetric"] = rng.choice(["IOU", "IOU", "DSC", "ASSD"])
        cfg["mthr"] = rng.choice([0.0, 0.25, 0.5, 0.5, 0.75, 0.34, 0.55, 0.6, 0.65, 0.9]) if cfg["mmetric"] != "ASSD" else rng.choice([0.5, 1.0, 3.0])
    if it == "semantic":
        cfg["backend"] = rng.choice([None, "cc3d", "scipy"])
    dm = rng.choice([None, None, "IOU", "DSC", "ASSD"])
    if dm is not None and dm in cfg["imetrics"]:
        cfg["dmetric"] = dm
        cfg["dthr"] = rng.choice([0.0, 0.3, 0.5, 0.8, 1.0]) if dm != "ASSD" else rng.choice([0.0, 0.5, 2.0, 100.0])
    return cfg


def count_oracle(cfg, pred, ref, r):
    """the instance counts a result reports are those of the INPUT (counted here, independently): the reference is never changed;
    predictions are merged only by a many-to-one / merge matcher"""
    if cfg.get("input") not in ("matched", "unmatched") or cfg.get("groups") is not None:
        return []
    n_p = len([x for x in np.unique(pred) if x != 0])
    n_r = len([x for x in np.unique(ref) if x != 0])
    bad = []
    if r.get("num_ref_instances") != n_r:
        bad.append(f"num_ref_instances={r.get('num_ref_instances')} but the reference map holds {n_r} instances")
    one_to_one = cfg["input"] == "matched" or (cfg.get("matcher", "naive") == "naive" and not cfg.get("m2o"))
    if one_to_one and r.get("num_pred_instances") != n_p:
        bad.append(f"num_pred_instances={r.get('num_pred_instances')} but the prediction map holds {n_p} instances (one-to-one matching merges nothing)")
    if not one_to_one and not (r.get("num_pred_instances", 0) <= n_p):
        bad.append(f"num_pred_instances={r.get('num_pred_instances')} exceeds the {n_p} instances of the prediction map")
    return bad


def decision_oracle(cfg, r):
    """every true positive passes the decision threshold (direction-aware, equality passes)"""
    bad = []
    if cfg.get("dmetric") is not None and cfg["dmetric"] in r["metrics"]:
        decr = cfg["dmetric"] in ("ASSD", "RVD")
        for v in r["metrics"][cfg["dmetric"]]["all"]:
            if (v > cfg["dthr"]) if decr else (v < cfg["dthr"]):
                bad.append(f"an instance with {cfg['dmetric']}={v} is counted as true positive although the decision threshold is {cfg['dthr']}")
    return bad


def grouped_cases(ctx):
    """the identities and the decision filter hold for EVERY group of a grouped evaluation, whatever the order and kind of the
    other groups (a single-instance group is exempt from decision filtering by design, the groups around it are not)"""
    from panoptica.utils.segmentation_class import SegmentationClassGroups
    from panoptica.utils.label_group import LabelGroup, LabelMergeGroup
    rng = ctx.rng
    for _ in range(ctx.scale(40, 400)):
        it = rng.choice(["unmatched", "semantic"])
        shape = (rng.randint(6, 9), rng.randint(10, 16))
        ref = np.zeros(shape, np.uint8); pred = np.zeros(shape, np.uint8)
        ref[0:2, 0:4] = 1; pred[0:2, 0:rng.randint(2, 5)] = 1                 # the single-instance structure (label 1)
        x = 0
        for lab in (2, 3, 4):                                                # lesion-like instances with imperfect predictions
            w = rng.randint(2, 4)
            ref[3:6, x:x + w] = lab
            pred[3 + rng.randint(0, 1):6, x + rng.randint(0, 1):x + w] = lab
            x += w + 1
        ref[-1, 0:3] = 5; pred[-1, 0:rng.randint(1, 3)] = 5                  # a merge-group label
        kinds = [("organ", LabelGroup([1], single_instance=True), "single"), ("lesion", LabelGroup([2, 3, 4]), "plain"),
                 ("region", LabelMergeGroup([5]), "merge")]
        rng.shuffle(kinds)
        dm = rng.choice(["IOU", "DSC", "ASSD"])
        cfg = {"input": it, "imetrics": ["IOU", "DSC", "ASSD"], "gmetrics": [], "matcher": "naive", "mmetric": "IOU", "mthr": rng.choice([0.1, 0.3, 0.5]),
               "dmetric": dm, "dthr": rng.choice([0.7, 0.85, 1.0]) if dm != "ASSD" else rng.choice([0.0, 0.2, 0.4])}
        if it == "semantic":
            cfg["backend"] = None
        spec = [[n, k] for n, _, k in kinds]
        ev = impl.make_evaluator({**cfg, "groups": SegmentationClassGroups({n: g for n, g, _ in kinds})})
        for call in range(2):                                                # the second call on the same evaluator must obey them too
            out = impl.evaluate(ev, pred.copy(), ref.copy())
            case = {"cfg": cfg, "group_order": spec, "pred": pred, "ref": ref, "call": call + 1}
            ctx.count({"grouped": spec, "cfg": cfg, "pred": pred.tolist(), "ref": ref.tolist(), "call": call}, True)
            ctx.bump(f"grouped/{it}/dm={dm}")
            if isinstance(out, tuple):
                ctx.violation("grouped evaluation raised " + str(out[1:]), {**case, "observed": out})
                break
            for n, _, k in kinds:
                r = impl.canon_result(out[n][0])
                bad = pipeline.bookkeeping(r)
                if k != "single":
                    bad += decision_oracle(cfg, r)
                if bad:
                    ctx.violation(f"group {n} ({k}) of a grouped evaluation: " + "; ".join(bad[:3]), {**case, "group": n, "observed": r})


def run(ctx):
    common.serial_pool()
    rng = ctx.rng
    triples = direct_results(ctx)
    # the D1 witness first
    ref = np.zeros((1, 12), np.uint8); pred = np.zeros((1, 12), np.uint8)
    ref[0, 0:4] = 1; pred[0, 0:4] = 1; ref[0, 6:10] = 2; pred[0, 9:10] = 2
    cases = [({"input": "matched", "imetrics": ["IOU", "DSC"], "gmetrics": [], "dmetric": "IOU", "dthr": 0.5}, pred, ref)]
    # decision thresholds at the boundary of a decreasing metric (0.0) and exactly at achieved scores
    for dm, dthr in (("ASSD", 0.0), ("RVD", 0.0), ("ASSD", 0.5), ("IOU", 0.0), ("IOU", 1.0), ("DSC", 0.0)):
        for it in ("matched", "unmatched"):
            p, r = np.zeros((6, 9), np.uint8), np.zeros((6, 9), np.uint8)
            r[1:3, 1:4] = 1; p[1:3, 1:4] = 1            # perfect instance
            r[3:6, 5:9] = 2; p[3:5, 5:8] = 2            # shifted / smaller instance (ASSD > 0, RVD < 0)
            r[0, 6:9] = 3; p[0, 5:9] = 3                # larger prediction (RVD > 0)
            c = {"input": it, "imetrics": ["DSC", "IOU", "ASSD", "RVD"], "gmetrics": [], "dmetric": dm, "dthr": dthr}
            if it == "unmatched":
                c.update({"matcher": "naive", "mmetric": "IOU", "mthr": 0.3})
            cases.append((c, p, r))
    grouped_cases(ctx)
    # k copies of one (reference, prediction) instance pair: >= 3 true positives with identical non-dyadic scores (std exactly ~0)
    for _ in range(ctx.scale(12, 120)):
        k = rng.randint(3, 7)
        bh, bw = rng.randint(2, 4), rng.randint(3, 6)
        cut = rng.randint(1, bw - 1)
        ref = np.zeros((bh + 2, k * (bw + 2) + 1), np.uint8); pred = np.zeros_like(ref)
        for i in range(k):
            x0 = 1 + i * (bw + 2)
            ref[1:1 + bh, x0:x0 + bw] = i + 1
            pred[1:1 + bh, x0:x0 + cut] = i + 1
        it = rng.choice(["matched", "unmatched"])
        c = {"input": it, "imetrics": ["DSC", "IOU", "ASSD", "RVD"], "gmetrics": []}
        if it == "unmatched":
            c.update({"matcher": "naive", "mmetric": "IOU", "mthr": 0.05})
        cases.append((c, pred, ref))
    # the same decreasing metric for matching and decision, the matcher more lenient than the decision threshold: instances with
    # decision < ASSD <= matching threshold are matched but must not count as true positives
    for _ in range(ctx.scale(14, 140)):
        h, w = rng.randint(6, 9), rng.randint(18, 26)
        ref = np.zeros((h, w), np.uint8); pred = np.zeros((h, w), np.uint8)
        ref[1:5, 1:7] = 1; pred[1:5, 1 + rng.randint(0, 1):7] = 1                          # ASSD small
        ref[1:5, 10:16] = 2; pred[1 + rng.randint(1, 2):5 + rng.randint(0, 1), 10 + rng.randint(2, 3):16 + rng.randint(1, 3)] = 2   # ASSD ~1-2
        it = rng.choice(["unmatched", "unmatched", "semantic"])
        c = {"input": it, "imetrics": ["ASSD", "IOU"], "gmetrics": [], "matcher": rng.choice(["naive", "merge"]), "m2o": False,
             "mmetric": "ASSD", "mthr": rng.choice([2.0, 3.0, 5.0]), "dmetric": "ASSD", "dthr": rng.choice([0.3, 0.6, 0.9])}
        if it == "semantic":
            c["backend"] = None
            pred, ref = (pred != 0).astype(np.uint8), (ref != 0).astype(np.uint8)
        cases.append((c, pred, ref))
    # the decision metric is looked up among instance metrics whose NAMES contain each other (DSC / clDSC), in either order:
    # a thick bar predicted by its centre line has Dice < 0.5 but clDice = 1 (and a shifted copy the other way round)
    for _ in range(ctx.scale(10, 100)):
        ref = np.zeros((9, 26), np.uint8); pred = np.zeros((9, 26), np.uint8)
        w = rng.randint(8, 11)
        ref[1:6, 1:1 + w] = 1; pred[3, 1:1 + w] = 1                       # centre line of a 5-voxel thick bar: Dice 1/3, clDice 1
        ref[1:4, 14:14 + w] = 2; pred[2:5, 14 + 1:14 + w] = 2             # shifted thick bar: Dice high, clDice lower
        ims = rng.choice([["clDSC", "DSC"], ["DSC", "clDSC"], ["clDSC", "IOU", "DSC"]])
        dm = rng.choice(["DSC", "clDSC"])
        c = {"input": "matched", "imetrics": ims, "gmetrics": [], "dmetric": dm, "dthr": rng.choice([0.5, 0.6, 0.9])}
        if rng.random() < 0.5:
            c.update({"input": "unmatched", "matcher": "naive", "mmetric": "IOU", "mthr": 0.1})
        cases.append((c, pred, ref))
    # clDice as an instance metric (2-D / 3-D only), low matching thresholds: skeletons that miss each other give undefined scores
    for _ in range(ctx.scale(25, 250)):
        p, r = impl.rand_pair(rng, max_side=7, max_inst=3, dims=(2, 3), dtype="uint8")
        it = rng.choice(["matched", "unmatched"])
        c = {"input": it, "imetrics": rng.choice([["clDSC", "IOU"], ["DSC", "clDSC"], ["clDSC"]]), "gmetrics": []}
        if it == "unmatched":
            c.update({"matcher": rng.choice(["naive", "merge"]), "mmetric": "IOU", "mthr": rng.choice([0.05, 0.1, 0.3])})
        else:
            # matched input with thin, barely overlapping shapes
            r = np.zeros((7, 9), np.uint8); p = np.zeros((7, 9), np.uint8)
            r[1:6, 1:4] = 1; p[1:6, 3:7] = 1
            r[0:2, 6:9] = 2; p[1:3, 5:8] = 2
            if rng.random() < 0.5:
                p, r = p.T.copy(), r.T.copy()
        cases.append((c, p, r))
    # many-to-one matching that really merges: a good main prediction plus a second one that mostly lies OUTSIDE the reference, so the
    # merged instance scores clearly lower than the pair that established the match; the matching metric is among the instance metrics
    # and sometimes decides (every list entry is the score of the instance as evaluated, i.e. of the merged prediction)
    for _ in range(ctx.scale(25, 250)):
        n = rng.randint(8, 12)
        ref = np.zeros((2, n + 14), np.uint8); pred = np.zeros_like(ref)
        ref[:, 1:1 + n] = 1
        pred[:, 1:n] = rng.choice([1, 4])                               # IoU (n-1)/n
        spill = rng.randint(5, 9)
        pred[:, n:n + spill] = rng.choice([2, 5])                        # one column inside the reference, the rest outside
        if rng.random() < 0.5:
            ref[:, n + spill + 2:n + spill + 5] = 2; pred[:, n + spill + 2:n + spill + 5] = 7
        mm = rng.choice(["IOU", "DSC"])
        c = {"input": "unmatched", "matcher": "naive", "m2o": True, "mmetric": mm, "mthr": rng.choice([0.0, 0.05]),
             "imetrics": rng.choice([["IOU", "DSC"], ["DSC", "IOU", "RVD"], ["IOU"]]) if mm == "IOU" else rng.choice([["DSC", "IOU"], ["DSC"]]), "gmetrics": []}
        if rng.random() < 0.6:
            c["dmetric"], c["dthr"] = mm, rng.choice([0.7, 0.8, 0.85])
        if rng.random() < 0.3:
            pred, ref = pred.T.copy(), ref.T.copy()
        cases.append((c, pred, ref))
    for _ in range(ctx.scale(200, 2500)):
        it = rng.choice(["matched", "unmatched", "unmatched", "semantic"])
        p, r = impl.rand_pair(rng, max_side=6, max_inst=4)
        if it == "semantic":
            p, r = (p != 0).astype("uint8") * rng.choice([1, 2]), (r != 0).astype("uint8")
        cases.append((gen_cfg(rng, it), p, r))
    followups = 0
    max_followups = ctx.scale(120, 1200)
    qi = 0
    while qi < len(cases):
        cfg, pred, ref = cases[qi]
        qi += 1
        out = impl.evaluate(impl.make_evaluator(cfg), pred.copy(), ref.copy())
        case = {"cfg": cfg, "pred": pred, "ref": ref}
        if isinstance(out, tuple):
            ctx.count({"cfg": cfg, "err": out[1]}, False)
            ctx.bump("evaluate raised " + out[1])
            if out[1] not in ("ZeroDivisionError",):
                ctx.violation("evaluate raised " + str(out[1:]), {**case, "observed": out})
            continue
        r = impl.canon_result(out["ungrouped"][0])
        ctx.count({"cfg": cfg, "pred": pred.tolist(), "ref": ref.tolist()}, r.get("tp", 0) >= 1 and (r["fp"] + r["fn"] >= 1 or "dmetric" in cfg))
        ctx.bump(f"{cfg['input']}/{cfg.get('matcher', '-')}/dm={cfg.get('dmetric')}")
        bad = pipeline.bookkeeping(r)
        bad += count_oracle(cfg, pred, ref, r)
        # every true positive passes the decision threshold (direction-aware, equality passes) ...
        bad += decision_oracle(cfg, r)
        if bad:
            ctx.violation("result bookkeeping is inconsistent: " + "; ".join(bad[:3]), {**case, "observed": r})
        # follow-up: the same pair with a decision threshold a hair on the failing side of an achieved score
        # (next float, relative 2e-6, absolute 5e-9) and exactly at it
        if followups < max_followups and not cfg.get("followup") and r.get("tp", 0) >= 1 and rng.random() < 0.5:
            ms = [m for m in cfg["imetrics"] if m in ("IOU", "DSC", "ASSD") and r["metrics"].get(m, {}).get("all")]
            if ms:
                dm = rng.choice(ms)
                v = rng.choice(r["metrics"][dm]["all"])
                decr = dm == "ASSD"
                sign = -1.0 if decr else 1.0
                for dthr in (float(np.nextafter(v, v + sign)), v * (1 + sign * 2e-6), v + sign * 5e-9, v):
                    if dthr < 0 or (not decr and dthr > 1.0 + 1e-5):
                        continue
                    c2 = dict(cfg); c2["dmetric"] = dm; c2["dthr"] = dthr; c2["followup"] = True
                    cases.append((c2, pred, ref))
                    followups += 1
        try:
            ip, ir = (pred, ref) if cfg["input"] != "semantic" else pipeline.approximate(pred, ref, cfg.get("backend"))
            mr = pipeline.model_result(cfg, ip, ir)
        except Exception as e:  # noqa
            ctx.disagree("Pipeline (harness error)", {**case, "error": repr(e)[:200]})
            continue
        if mr[0] == "ok":
            d = pipeline.compare(cfg, r, mr[1])
            if d:
                ctx.disagree("Pipeline", {**case, "differences": d[:4]})
        elif mr[0] == "err":
            ctx.disagree("Pipeline", {**case, "model_error": mr[1]})
    step = max(1, len(triples) // 50)
    n, bad = coq_crosscheck("C02", triples[::step][:60])
    ctx.crosschecked = n
    for b in bad:
        ctx.disagree("extraction-vs-vm_compute", triples[::step][b])
    ctx.layers.append({"layer": "direct PanopticaResult: num_ref,num_pred <= 5, tp <= min", "exhaustive": ctx.tier == "thorough"})


def replay(path):
    common.serial_pool()
    d = json.loads(open(path).read())
    if "cfg" not in d:
        print("direct result case:", d)
        return 1
    pred, ref = common.arr_from_json(d["pred"]), common.arr_from_json(d["ref"])
    if "group_order" in d:
        from panoptica.utils.segmentation_class import SegmentationClassGroups
        from panoptica.utils.label_group import LabelGroup, LabelMergeGroup
        mk = {"single": lambda: LabelGroup([1], single_instance=True), "plain": lambda: LabelGroup([2, 3, 4]), "merge": lambda: LabelMergeGroup([5])}
        ev = impl.make_evaluator({**d["cfg"], "groups": SegmentationClassGroups({n: mk[k]() for n, k in d["group_order"]})})
        rc = 0
        for call in range(d.get("call", 1)):
            out = impl.evaluate(ev, pred.copy(), ref.copy())
            if isinstance(out, tuple):
                print("implementation raised:", out)
                return 1
            for n, k in d["group_order"]:
                r = impl.canon_result(out[n][0])
                bad = pipeline.bookkeeping(r) + (decision_oracle(d["cfg"], r) if k != "single" else [])
                print(f"call {call + 1} group {n} ({k}): tp={r['tp']} fp={r['fp']} fn={r['fn']} violations: {bad}")
                rc |= bool(bad)
        return rc
    out = impl.evaluate(impl.make_evaluator(d["cfg"]), pred, ref)
    if isinstance(out, tuple):
        print("implementation raised:", out)
        return 1
    r = impl.canon_result(out["ungrouped"][0])
    print("implementation:", common.jsonable(r))
    bad = pipeline.bookkeeping(r) + decision_oracle(d["cfg"], r)
    if "pred" in d and "ref" in d:
        bad += count_oracle(d["cfg"], common.arr_from_json(d["pred"]), common.arr_from_json(d["ref"]), r)
    print("violations:", bad)
    return 1 if bad else 0
