"""round-2 seeded changes: descriptions, what they need to manifest, and what was strengthened after the first evaluation"""
import json, os
R2 = {
"C01-c": ("whole-pair crop mask computed by adding the two label arrays in their own dtype", "labels of the two arrays summing to a multiple of 256 (uint8) at the only foreground voxels: foreground is cropped away", ""),
"C01-d": ("the approximator memoises the resolved default backend on the object", "one evaluator (default backend) used first on a 3-D and then on a 1-D/2-D input (or the reverse) with diagonal contacts / touching classes", "C01: evaluator-reuse chains over inputs of different dimensionality, speckled two-class maps; C15: speckled semantic inputs; Backend unit added to the cones of C01/C15"),
"C02-c": ("the single-instance override of the decision threshold is assigned to the evaluator attribute instead of a local", "a single-instance group evaluated before another group (or an earlier call) + a decision threshold some instance fails", "C02: grouped evaluations (single/plain/merge in every order, two calls) with the decision oracle per group; C12: decision thresholds imperfect instances fail"),
"C02-d": ("score_beats_threshold accepts scores np.isclose to the threshold", "a score within 1e-5 relative below (above, for ASSD) the threshold", "C02: follow-up cases with the decision threshold one ulp / 2e-6 relative / 5e-9 absolute on the failing side of an achieved score"),
"C03-c": ("pair code computed in np.min_scalar_type(pred.max()*max_ref) instead of uint64", "labels with pmax*(rmax+1) just below 2^8/2^16/2^32 and a (pmax, rmax) overlap: the code wraps when the reference label is added", "C03/C09: label pairs straddling the pair-code boundaries 2^8, 2^16, 2^32"),
"C03-d": ("truthiness test on a numeric option", "threshold exactly 0.0", ""),
"C04-c": ("background masking of the relabelled prediction removed", "a prediction label >= 2 over reference background", ""),
"C04-d": ("uint64 inputs relabelled in place", "uint64 instance maps: the caller's array is modified and labels collide", ""),
"C05-c": ("cc3d called with binary_image=True when the map has at most two distinct values", "a map without background voxels and exactly two touching labels", ""),
"C05-d": ("scipy backend delegates to cc3d (face connectivity) for arrays of >= 2^20 voxels", "a large multi-class map with touching classes", "C05: layer of inputs at and above 2^20 voxels with components known by construction"),
"C06-c": ("prediction label list cast to the array dtype before np.isin", "a prediction label index beyond the array dtype (300 in uint8 aliases 44)", "C06: label indices that are absent because they exceed the dtype"),
"C06-d": ("IoU from a bincount over ravel(order='K') of each array separately", "reference and prediction stored in different memory layouts (C vs Fortran)", "C06/C10: one array Fortran-ordered or strided, the other C-ordered; replays keep the layout. This family exposed defect D19"),
"C07-c": ("early exit when one border is contained in the other", "nested masks", ""),
"C07-d": ("binary structure cached per ndim, ignoring the connectivity argument", "an earlier call of the public function with connectivity > 1 in the same process", "C07: priming calls with non-default connectivity / voxel spacing before the run and in the replay"),
"C08-c": ("default handler table moved to a module constant that every handler updates in place", "two handlers with different tables alive at once, the earlier one used after the later one was built", "C08: batches of co-existing evaluators (custom / exact / default tables) built first and used afterwards; a refused translation unit is now a broken obligation"),
"C08-d": ("handle_zero_tp called for every metric, also unevaluated ones", "a handler table that lists exactly the evaluated metrics, zero TP", "C08: handler tables listing exactly the evaluated metrics"),
"C09-c": ("crop mask by sum in the arrays' dtype (as C01-c)", "labels summing to 256", ""),
"C09-d": ("binarisation for the global metrics by np.minimum(arr, 1, dtype=uint8)", "labels that are multiples of 256 + global metrics requested", "C09: global metrics in the configurations and the metamorphic signature, renamings into multiples of 256 / 65536"),
"C10-c": ("overlapping pairs from ravel(order='K') of each array; _LabelGroupAny keeps the layout", "reference and prediction in different memory layouts", "C10: mixed-layout transformations"),
"C10-d": ("default backend chosen by the number of non-singleton axes of the cropped array", "a single slice stored as a volume, padded along the thin axis", "C10: thin-axis volumes with speckled maps, default backend, padding along / moving the thin axis"),
"C11-c": ("_map_labels chooses the lookup dtype without the new labels", "uint8/uint16 with a label at the dtype maximum on one side only + an unmatched prediction", "C11: labels at the top of the dtype on one side"),
"C11-d": ("only the best candidate of each prediction is kept after sorting", "IoU threshold < 0.5 (or Dice) and a chain p1-A, p2-A, p2-B of candidates", "C11: chain_pair family at low thresholds"),
"C12-c": ("group labels cast to the array dtype in extract_label", "a group scheme with a label >= 256 whose low byte is a label of another group, uint8 arrays", "C12: schemes wider than the array dtype"),
"C12-d": ("single-instance decision-threshold override hoisted into the group loop and never reset (as C02-c)", "single-instance group listed before a group with an instance failing the decision threshold", "C12: decision thresholds imperfect instances fail"),
"C13-c": ("was_calculated derived from `default_value is not None`", "a handler prescribing NONE for a global-metric scenario", ""),
"C13-d": ("RVD without float casts", "global RVD with a smaller prediction volume (unsigned underflow)", ""),
"C14-c": ("the `new != old` half of the strict-improvement test dropped", "a fragment whose merged score ties exactly", ""),
"C14-d": ("combined score on a crop taken before the new fragment is added", "a fragment with a tail more than 2 voxels outside the current bounding box", ""),
"C15-c": ("resulting_metric_keys cached from the first real result", "keys requested after an evaluation whose result lacks prec/rec", ""),
"C15-d": ("approximator keeps an _active_backend resolved on first use (as C01-d)", "one evaluator used on inputs of different dimensionality", "C15: speckled semantic inputs of varying dimensionality; replay carries the earlier inputs"),
"C16-c": ("one lock pair per output file, created lazily", "continue_file=False + forked workers submitting one name at the same moment", "C16: scheduler never hangs on a refactored locking (bounded waits, Lock factory interposed, lost-control report); forked barrier-synchronised rounds with continue_file both ways"),
"C16-d": ("first column of the buffer read by str.split instead of csv", "a subject name the tsv writer quotes (double quote, tab, newline) submitted twice", "C16/C17: such names in the pools"),
"C17-c": ("same first-column split change", "quoted subject names across sessions", "as C16-d"),
"C17-d": ("the aggregator aliases the evaluator's resulting_metric_keys list and appends the timing key", "one evaluator shared by two sessions with log_times=True", "C17: setup 9 (one shared evaluator object, timing column on)"),
"C18-c": ("row template dict reused across groups", "two or more groups with different sets of present values", ""),
"C18-d": ("timing columns moved in the header", "log_times with several groups", ""),
"C19-c": ("lru_cache on _load_from_config_name", "two different configurations saved under one name, loaded by name", "C19: by-name layer with one name reused (lookup helpers pointed at a scratch directory)"),
"C19-d": ("YAML 1.1 boolean-like group names", "group names such as yes/no/on/off", ""),
"C20-c": ("one-pass variance E[x^2]-E[x]^2 in ValueSummary", "values far from zero with a small spread", "C20: offset values; float tolerance scaled by magnitude x spread instead of magnitude squared"),
"C20-d": ("groups whose values are all zero skipped via np.any", "a group/metric column of zeros", ""),
}
if __name__ == "__main__":
    for sid, (change, needs, strengthening) in R2.items():
        f = f"/verif/seeded/{sid}/meta.json"
        if not os.path.exists(f):
            print("missing", sid); continue
        m = json.load(open(f))
        m.update({"round": 2, "change": change, "needs_to_manifest": needs, "strengthening_after_first_evaluation": strengthening})
        json.dump(m, open(f, "w"), indent=1)
    print("ok")
