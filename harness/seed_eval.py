"""Evaluate a candidate seeded change:  harness/seed_eval.py <seed-id> <property> <patch.diff> <demo.py> [--checks C01,C02,...]
1. in a scratch worktree of /repo HEAD: demo passes, baseline tests pass; with the patch: tests still pass (80), demo fails;
2. apply the patch to /repo, run the registered quick checks, undo (git -C /repo checkout -- .);
3. write /verif/seeded/<seed-id>/{patch.diff, demo.py, meta.json}."""
import json
import os
import shutil
import subprocess
import sys
import time
from pathlib import Path

VERIF = Path(__file__).resolve().parent.parent
SCR = Path("/tmp/wt_seedeval")
TEST = ["/venv/bin/python", "-m", "pytest", "-q", "-p", "no:cacheprovider", "--timeout=900", "-x", "--deselect", "unit_tests/test_panoptic_aggregator.py::Test_Example_Scripts",
        "--deselect", "unit_tests/test_panoptic_evaluator.py::Test_Example_Scripts"]


def sh(cmd, cwd=None, env=None, timeout=1800):
    r = subprocess.run(cmd, cwd=cwd, env=env, capture_output=True, text=True, timeout=timeout)
    return r.returncode, r.stdout + r.stderr


def main():
    sid, prop, patch, demo = sys.argv[1:5]
    checks = None
    if "--checks" in sys.argv:
        checks = sys.argv[sys.argv.index("--checks") + 1].split(",")
    patch, demo = Path(patch), Path(demo)
    head = subprocess.run(["git", "-C", "/repo", "rev-parse", "HEAD"], capture_output=True, text=True).stdout.strip()
    if SCR.exists():
        sh(["git", "-C", "/repo", "worktree", "remove", "--force", str(SCR)])
    sh(["git", "-C", "/repo", "worktree", "add", "--detach", str(SCR), head])
    env = dict(os.environ, PYTHONPATH=str(SCR), PANOPTICA_CITATION_REMINDER="false", PYTHONHASHSEED="0")
    for other in demo.parent.glob("demo*.py"):
        shutil.copy(other, SCR / other.name)      # a demo may import helpers from its sibling demo
    shutil.copy(demo, SCR / "demo_seed.py")
    meta = {"seed": sid, "property": prop, "repo_head": head, "ran": []}
    rc0, out0 = sh(["/venv/bin/python", "demo_seed.py"], cwd=SCR, env=env, timeout=900)
    meta["demo_on_clean_tree_rc"] = rc0
    rc, out = sh(["git", "apply", str(patch.resolve())], cwd=SCR)
    if rc != 0:
        print("patch does not apply:", out[-500:])
        meta["applies"] = False
        sh(["git", "-C", "/repo", "worktree", "remove", "--force", str(SCR)])
        return 2
    rct, outt = sh(TEST, cwd=SCR, env=env, timeout=1800)
    tail = [l for l in outt.strip().splitlines() if "passed" in l or "failed" in l][-1:] or [outt[-200:]]
    meta["tests_with_patch"] = tail[0]
    rc1, out1 = sh(["/venv/bin/python", "demo_seed.py"], cwd=SCR, env=env, timeout=900)
    meta["demo_with_patch_rc"] = rc1
    meta["demo_with_patch_output"] = out1[-600:]
    sh(["git", "-C", "/repo", "worktree", "remove", "--force", str(SCR)])
    ok = rc0 == 0 and rc1 != 0 and rct == 0 and "80 passed" in tail[0]
    meta["confirmed"] = ok
    print(f"[{sid}] demo clean rc={rc0}, with patch rc={rc1}; tests: {tail[0]}; confirmed={ok}")
    if not ok:
        print(out0[-300:], "\n---\n", out1[-300:])
    # run the checks against /repo itself with the patch applied
    st = subprocess.run(["git", "-C", "/repo", "status", "--short"], capture_output=True, text=True).stdout.strip()
    if st:
        print("/repo is not clean, refusing:", st)
        return 2
    results = {}
    try:
        rc, out = sh(["git", "-C", "/repo", "apply", str(patch.resolve())])
        if rc != 0:
            print("cannot apply to /repo", out)
            return 2
        todo = checks or [f"C{i:02d}" for i in range(1, 21)]
        for c in todo:
            t0 = time.time()
            rc, out = sh([str(VERIF / "check"), c], cwd=VERIF, timeout=3000)
            viol = [l for l in out.splitlines() if l.startswith("VIOLATION")]
            results[c] = {"exit": rc, "violations": len(viol), "first": viol[0] if viol else None,
                          "no_failing_input": any("no-failing-input-found" in v for v in viol), "wall_s": round(time.time() - t0, 1)}
            print(f"   {c}: exit={rc} violations={len(viol)} {'(no-failing-input-found)' if results[c]['no_failing_input'] else ''}")
    finally:
        sh(["git", "-C", "/repo", "checkout", "--", "."])
        sh(["git", "-C", "/repo", "clean", "-fdq", "--", "panoptica"])
    meta["checks"] = results
    meta["caught_by"] = [c for c, r in results.items() if r["exit"] == 1]
    meta["ran"] = [f"pytest ({meta['tests_with_patch']})", "demo on clean / patched tree", "./check <id> for " + ",".join(results)]
    d = VERIF / "seeded" / sid
    d.mkdir(parents=True, exist_ok=True)
    shutil.copy(patch, d / "patch.diff")
    shutil.copy(demo, d / "demo.py")
    (d / "meta.json").write_text(json.dumps(meta, indent=1))
    print(f"[{sid}] caught by: {meta['caught_by']}")
    return 0


if __name__ == "__main__":
    sys.exit(main())
