"""Helpers around the implementation under test (imported from /repo) shared by the property harnesses:
building evaluators from plain config dicts, canonical result extraction, input generators, encoders."""
from __future__ import annotations

import math
from fractions import Fraction

import numpy as np

from harness import common
from harness.common import fq, fval

METRICS = ["DSC", "IOU", "ASSD", "clDSC", "RVD"]          # enum definition order = model's all_metrics
ECR = ["INF", "NAN", "ZERO", "ONE", "NONE"]
SQ_KEY = {"IOU": "sq", "DSC": "sq_dsc", "clDSC": "sq_cldsc", "ASSD": "sq_assd", "RVD": "sq_rvd"}
PQ_KEY = {"IOU": "pq", "DSC": "pq_dsc", "clDSC": "pq_cldsc"}
DEFAULT_TABLE = {"DSC": [1, 2, 2, 2], "clDSC": [1, 2, 2, 2], "IOU": [1, 2, 2, 2], "ASSD": [1, 0, 0, 0], "RVD": [1, 1, 1, 1]}
# table entry order: [no_instances, empty_pred, empty_ref, normal] as indices into ECR


def P():
    import panoptica  # noqa
    return panoptica


def metric(name):
    from panoptica.metrics import Metric
    return getattr(Metric, name)


def mk_handler(table: dict | None, std: int = 1):
    """table: metric name -> [noinst, emptypred, emptyref, normal] (ECR indices)"""
    from panoptica.utils.edge_case_handling import EdgeCaseHandler, EdgeCaseResult, MetricZeroTPEdgeCaseHandling
    if table is None:
        return EdgeCaseHandler()
    E = [getattr(EdgeCaseResult, n) for n in ECR]
    def one(v):
        # the same prescription written the way a user may write it: entries equal to the default are left to default_result
        if v[0] == v[1] == v[2] == v[3]:
            return MetricZeroTPEdgeCaseHandling(default_result=E[v[0]])
        if v[0] == v[3]:
            return MetricZeroTPEdgeCaseHandling(default_result=E[v[3]], empty_prediction_result=E[v[1]], empty_reference_result=E[v[2]])
        return MetricZeroTPEdgeCaseHandling(no_instances_result=E[v[0]], empty_prediction_result=E[v[1]], empty_reference_result=E[v[2]], normal=E[v[3]])
    d = {metric(m): one(v) for m, v in table.items()}
    return EdgeCaseHandler(d, E[std])


def enc_handler(table: dict | None, std: int = 1):
    t = DEFAULT_TABLE if table is None else table
    return [[[METRICS.index(m)] + list(v) for m, v in t.items()], std]


def make_evaluator(cfg: dict):
    """cfg keys: input ('semantic'|'unmatched'|'matched'), backend (None|'cc3d'|'scipy'), matcher (None|'naive'|'merge'),
    mmetric, mthr, m2o, dmetric, dthr, imetrics, gmetrics, table, std, groups"""
    from panoptica import Panoptica_Evaluator, InputType, NaiveThresholdMatching, ConnectedComponentsInstanceApproximator
    from panoptica.instance_matcher import MaximizeMergeMatching
    from panoptica.utils.constants import CCABackend
    it = {"semantic": InputType.SEMANTIC, "unmatched": InputType.UNMATCHED_INSTANCE, "matched": InputType.MATCHED_INSTANCE}[cfg.get("input", "matched")]
    approx = None
    if cfg.get("input") == "semantic":
        b = cfg.get("backend")
        approx = ConnectedComponentsInstanceApproximator(None if b is None else getattr(CCABackend, b))
    matcher = None
    if cfg.get("input") in ("semantic", "unmatched"):
        kind = cfg.get("matcher") or "naive"
        mm = metric(cfg.get("mmetric", "IOU"))
        if kind == "naive":
            matcher = NaiveThresholdMatching(matching_metric=mm, matching_threshold=cfg.get("mthr", 0.5), allow_many_to_one=bool(cfg.get("m2o", False)))
        else:
            matcher = MaximizeMergeMatching(matching_metric=mm, matching_threshold=cfg.get("mthr", 0.5))
    kw = {}
    if cfg.get("groups") is not None:
        kw["segmentation_class_groups"] = cfg["groups"]
    return Panoptica_Evaluator(
        expected_input=it, instance_approximator=approx, instance_matcher=matcher,
        edge_case_handler=mk_handler(cfg.get("table"), cfg.get("std", 1)),
        instance_metrics=[metric(m) for m in cfg.get("imetrics", ["DSC", "IOU", "ASSD", "RVD"])],
        global_metrics=[metric(m) for m in cfg.get("gmetrics", ["DSC"])],
        decision_metric=None if cfg.get("dmetric") is None else metric(cfg["dmetric"]),
        decision_threshold=cfg.get("dthr"), **kw)


EVAL_OPTIONS = [{}, {}, {}, {"log_times": True}, {"verbose": True}, {"log_times": True, "verbose": True}]


def options_for(pred, ref) -> dict:
    """the reporting options of evaluate() (timing, verbosity) must not influence any result: they are switched on for a part of
    the inputs, chosen by the CONTENT of the arrays so that a replay of the same input uses the same options"""
    import zlib
    h = zlib.crc32(np.ascontiguousarray(pred).tobytes()) ^ zlib.crc32(np.ascontiguousarray(ref).tobytes()) ^ pred.ndim
    return EVAL_OPTIONS[h % len(EVAL_OPTIONS)]


LAYOUTS = ["C", "C", "C", "C", "predF", "refF", "bothF", "predT", "ref-strided"]


def layout_for(pred, ref) -> str:
    """which memory layout the two arrays are handed over in (chosen by their content, so that a replay uses the same): the layout
    of an array is not part of its value, no result may depend on it"""
    import zlib
    if pred.ndim < 2 or min(pred.shape) < 2:
        return "C"
    h = zlib.crc32(np.ascontiguousarray(ref).tobytes()) ^ (zlib.crc32(np.ascontiguousarray(pred).tobytes()) >> 3) ^ (7 * pred.ndim)
    return LAYOUTS[h % len(LAYOUTS)]


def with_layout(pred, ref, lay):
    if lay in ("predF", "bothF"):
        pred = np.asfortranarray(pred)
    if lay in ("refF", "bothF"):
        ref = np.asfortranarray(ref)
    if lay == "predT":
        pred = np.ascontiguousarray(np.transpose(pred)).T                  # the same logical array, stored transposed
    if lay == "ref-strided":
        big = np.zeros(tuple(2 * x for x in ref.shape), ref.dtype)
        view = big[tuple(slice(0, None, 2) for _ in ref.shape)]
        view[...] = ref
        ref = view
    return pred, ref


def evaluate(ev, pred, ref, **kw):
    """returns {group: (result, intermediate)} or ('err', ExceptionName, message)"""
    import contextlib
    import io
    if isinstance(pred, np.ndarray) and isinstance(ref, np.ndarray) and pred.flags.c_contiguous and ref.flags.c_contiguous \
            and pred.shape == ref.shape:
        # (arrays that already come in a special layout are left as the caller made them)
        pred, ref = with_layout(pred, ref, layout_for(pred, ref))
    if "log_times" not in kw and "verbose" not in kw and isinstance(pred, np.ndarray) and isinstance(ref, np.ndarray):
        kw = dict(kw, **options_for(pred, ref))
    try:
        with contextlib.redirect_stdout(io.StringIO()), np.errstate(all="ignore"):
            return ev.evaluate(pred, ref, **kw)
    except Exception as e:  # noqa
        return ("err", type(e).__name__, str(e)[:200])


def canon_result(r, imetrics=None) -> dict:
    """PanopticaResult -> plain dict of exact values (floats kept as python floats / None)."""
    from panoptica.metrics import MetricMode
    d = r.to_dict()
    out = {k: d.get(k) for k in ("num_pred_instances", "num_ref_instances", "tp", "fp", "fn", "rq", "prec", "rec") if k in d}
    out["metrics"] = {}
    for m in METRICS:
        try:
            allv = list(r.get_list_metric(metric(m), MetricMode.ALL))
        except Exception:
            continue
        e = {"all": [float(x) for x in allv]}
        for key, name in (("sq", SQ_KEY[m]), ("std", SQ_KEY[m] + "_std"), ("pq", PQ_KEY.get(m))):
            if name is not None and name in d:
                e[key] = d[name]
            elif name is not None:
                e[key + "_absent"] = True
        out["metrics"][m] = e
    out["globals"] = {k[len("global_bin_"):]: v for k, v in d.items() if k.startswith("global_bin_")}
    out["keys"] = sorted(d.keys())
    return out


def same_float(a, b, tol=Fraction(1, 2 ** 30)) -> bool:
    """a: implementation value (float/None); b: model value (Fraction | 'inf' | '-inf' | 'nan' | None)."""
    if b is None:
        return a is None
    if a is None:
        return False
    a = float(a)
    if b == "nan":
        return math.isnan(a)
    if b == "inf":
        return a == math.inf
    if b == "-inf":
        return a == -math.inf
    if math.isnan(a) or math.isinf(a):
        return False
    return abs(Fraction(a) - b) <= tol * max(1, abs(b))


# ----------------------------------------------------------------------------- generators
def rand_blobs(rng, shape, n_inst, max_size=4, labels=None, dtype="uint8"):
    """label map with up to n_inst axis-aligned boxes (may touch/overlap: later boxes overwrite)."""
    a = np.zeros(shape, dtype=dtype)
    nd = len(shape)
    for i in range(n_inst):
        lo = [rng.randrange(0, s) for s in shape]
        hi = [min(s, l + rng.randint(1, max_size)) for l, s in zip(lo, shape)]
        sl = tuple(slice(l, h) for l, h in zip(lo, hi))
        a[sl] = (labels[i] if labels else i + 1)
    return a


def perturb(rng, a, labels=None):
    """a prediction derived from a reference: shift / split / merge / drop / noise."""
    b = a.copy()
    kind = rng.choice(["same", "shift", "split", "merge", "drop", "noise", "shift"])
    if kind == "shift":
        ax = rng.randrange(a.ndim)
        k = rng.choice([-1, 1])
        b = np.roll(b, k, axis=ax)
        idx = [slice(None)] * a.ndim
        idx[ax] = 0 if k == 1 else -1
        b[tuple(idx)] = 0
    elif kind == "split":
        labs = [x for x in np.unique(b) if x != 0]
        if labs:
            l = rng.choice(labs)
            pos = np.argwhere(b == l)
            new = int(b.max()) + 1
            if new <= np.iinfo(b.dtype).max:
                for p in pos[len(pos) // 2:]:
                    b[tuple(p)] = new
    elif kind == "merge":
        labs = [x for x in np.unique(b) if x != 0]
        if len(labs) >= 2:
            x, y = rng.sample(labs, 2)
            b[b == y] = x
    elif kind == "drop":
        labs = [x for x in np.unique(b) if x != 0]
        if labs:
            b[b == rng.choice(labs)] = 0
    elif kind == "noise":
        flat = b.reshape(-1)
        for _ in range(rng.randint(1, 3)):
            flat[rng.randrange(flat.size)] = rng.choice([0, 1, 2, 3])
    return b


def dense_labels(rng, shape, k, dtype):
    """a label map WITHOUT background: the voxels, in memory order, cut into k runs labelled by a random injective choice of 1..k+2"""
    n = int(np.prod(shape))
    k = max(1, min(k, n))
    cuts = sorted(rng.sample(range(1, n), k - 1)) if k > 1 else []
    labs = rng.sample(range(1, k + 3), k)
    flat = np.zeros(n, dtype)
    for lab, (a, b) in zip(labs, zip([0] + cuts, cuts + [n])):
        flat[a:b] = lab
    return flat.reshape(shape)


def rand_pair(rng, max_side=6, max_inst=4, dims=(1, 2, 3), dtype=None):
    nd = rng.choice(dims)
    shape = tuple(rng.randint(1 if nd > 1 else 2, max_side) for _ in range(nd))
    dtype = dtype or rng.choice(["uint8", "uint16", "uint32", "uint64"])
    ref = rand_blobs(rng, shape, rng.randint(0, max_inst), dtype=dtype)
    pred = perturb(rng, ref) if rng.random() < 0.7 else rand_blobs(rng, shape, rng.randint(0, max_inst), dtype=dtype)
    dense = rng.random()
    if dense < 0.12:
        # parcellation-like inputs: one or both maps label EVERY voxel (no background anywhere in the pair)
        if dense < 0.08:
            ref = dense_labels(rng, shape, rng.randint(1, max(1, max_inst)), dtype)
        if dense >= 0.04:
            pred = dense_labels(rng, shape, rng.randint(1, max(1, max_inst)), dtype)
    return pred.astype(dtype), ref.astype(dtype)


def code_boundary_labels(rng, bits):
    """(pmax, rmax): largest prediction / reference labels whose integer pair code pred*(max_ref+1)+ref straddles 2^bits
    (pmax*(rmax+1) still fits, the code of the pair (pmax, rmax) does not) -- the magnitudes where a fixed-width encoding wraps"""
    lo, hi = {8: (128, 254), 16: (256, 65534), 32: (2 ** 12, 2 ** 24 - 2)}[bits]
    for _ in range(200):
        rmax = rng.randint(lo, hi)
        pmax = (2 ** bits - 1) // (rmax + 1)
        if pmax >= 1 and pmax < 2 ** 24 and pmax * (rmax + 1) + rmax >= 2 ** bits:
            return pmax, rmax
    return 1, hi


def code_boundary_pair(rng, bits=None):
    """an unmatched pair whose labels sit at a pair-code boundary; dtype just wide enough for the labels (or wider)"""
    bits = bits or rng.choice([8, 16, 32])
    pmax, rmax = code_boundary_labels(rng, bits)
    dts = {8: ["uint8", "uint16"], 16: ["uint16", "uint32"], 32: ["uint32", "uint64"]}[bits]
    dt = rng.choice(dts)
    w = rng.randint(10, 16)
    ref = np.zeros((3, w), dt); pred = np.zeros((3, w), dt)
    r1 = rng.randint(1, rmax - 1)
    p1 = rng.randint(1, pmax - 1) if pmax > 1 else None
    a = rng.randint(2, 4)
    ref[0:2, 0:a] = r1
    ref[0:3, a + 1:a + 5] = rmax
    pred[0:3, a + 1 + rng.randint(0, 1):a + 5] = pmax              # (pmax, rmax) overlap: the code that wraps
    if p1 is not None:
        pred[0:2, 0:a - rng.randint(0, 1)] = p1
        if rng.random() < 0.5:
            pred[2, a + 1:a + 3] = p1                               # p1 also overlaps rmax
    return pred, ref


def chain_pair(rng):
    """two adjacent references A, B and two predictions: p1 covers most of A, p2 straddles the border with its larger part in A --
    p2's best candidate (A) is taken by the better p1, so a best-first one-to-one matcher must fall back to (p2, B)"""
    la, lb = rng.randint(8, 14), rng.randint(6, 10)
    h = rng.choice([1, 1, 2])
    w = la + lb + rng.randint(0, 3)
    ref = np.zeros((h, w), np.uint8); pred = np.zeros((h, w), np.uint8)
    ref[:, 0:la] = 1; ref[:, la:la + lb] = 2
    cut = la - rng.randint(3, 5)
    pred[:, 0:cut] = 1
    pred[:, cut:la + rng.randint(2, 4)] = 2
    if rng.random() < 0.5:
        pred, ref = pred[:, ::-1].copy(), ref[:, ::-1].copy()
    if rng.random() < 0.3:
        pred, ref = pred.T.copy(), ref.T.copy()
    return pred, ref


def second_stage(cfg, out, group="ungrouped"):
    """re-evaluate the processing pair that evaluate() returned as its first intermediate step (a public object) through the public
    function panoptic_evaluate with the same components; -> {"ungrouped": (result, steps)} or ('err', name, message)"""
    import contextlib
    import io
    from panoptica.panoptica_evaluator import panoptic_evaluate
    from panoptica import InputType
    if isinstance(out, tuple):
        return out
    it = {"semantic": InputType.SEMANTIC, "unmatched": InputType.UNMATCHED_INSTANCE, "matched": InputType.MATCHED_INSTANCE}[cfg.get("input", "matched")]
    ev = make_evaluator(cfg)
    g = lambda n: getattr(ev, "_Panoptica_Evaluator__" + n)
    try:
        pair = out[group][1][it.name]
        with contextlib.redirect_stdout(io.StringIO()), np.errstate(all="ignore"):
            res, steps = panoptic_evaluate(pair, instance_approximator=g("instance_approximator"), instance_matcher=g("instance_matcher"),
                                           instance_metrics=g("eval_metrics"), global_metrics=g("global_metrics"), decision_metric=g("decision_metric"),
                                           decision_threshold=g("decision_threshold"), edge_case_handler=g("edge_case_handler"), verbose=False)
        return {group: (res, steps)}
    except Exception as e:  # noqa
        return ("err", type(e).__name__, str(e)[:200])


def farey_pair(rng=None, lo=0.3, hi=0.45, around=50000):
    """one reference (label 1) and two competing predictions whose IoUs a/b > c/d differ by exactly 1/(b*d) ~ 4e-10 (distinct
    scores that agree to nine decimals); the BETTER prediction carries the higher label.  1-D arrays of ~6*10^4 voxels."""
    import math
    import random
    rng = rng or random.Random(1)
    while True:
        b, d = rng.randint(around, around + 400), rng.randint(around, around + 400)
        if b == d or math.gcd(b, d) != 1:
            continue
        a = pow(d, -1, b)                      # a*d = 1 (mod b)
        c = (a * d - 1) // b
        if lo < a / b < hi and c > 0 and a * d - b * c == 1:
            break
    R = min(b, d) - rng.randint(50, 400)
    if a + c > R:
        return farey_pair(rng, lo, hi, around)
    n = R + (b - R) + (d - R) + 6
    ref = np.zeros((1, n), np.uint8); pred = np.zeros((1, n), np.uint8)
    ref[0, 0:R] = 1
    pred[0, 0:c] = 1                           # worse: c inside, d - R outside  -> IoU c/d
    pred[0, R + 2:R + 2 + (d - R)] = 1
    pred[0, c:c + a] = 2                       # better: a inside, b - R outside -> IoU a/b
    pred[0, R + 4 + (d - R):R + 4 + (d - R) + (b - R)] = 2
    return pred, ref, (a, b, c, d)
