"""Shared plumbing of the correspondence harness: paths, S-expressions, the extracted engine,
the vm_compute cross-check, exact float conversion, evidence bookkeeping."""
from __future__ import annotations

import hashlib
import json
import math
import os
import random
import subprocess
import sys
import time
from fractions import Fraction
from pathlib import Path

VERIF = Path(__file__).resolve().parent.parent
REPO = Path(os.environ.get("PANOPTICA_REPO", "/repo"))
WORK = VERIF / ".work"
COQ = VERIF / "coq"
ENGINE = VERIF / "engine" / "pan_engine"
NPROC = int(os.environ.get("VERIF_NPROC", "16"))


def setup_impl_env():
    """Make `import panoptica` resolve to /repo's working tree, quietly and deterministically."""
    os.environ["PANOPTICA_CITATION_REMINDER"] = "false"
    p = str(REPO)
    if p in sys.path:
        sys.path.remove(p)
    sys.path.insert(0, p)


class SerialPool:
    """Drop-in for multiprocessing.Pool used by the two modules that fork a pool per call.
    starmap semantics (order preserving) are kept; a fixed sub-sample of every run uses the real pool."""

    def __init__(self, processes=None, *a, **k):
        # the contract of multiprocessing.Pool's constructor is part of what the code under test relies on
        if processes is not None and processes < 1:
            raise ValueError("Number of processes must be at least 1")

    def __enter__(self):
        return self

    def __exit__(self, *a):
        return False

    def starmap(self, f, it):
        return [f(*x) for x in it]

    def map(self, f, it):
        return [f(x) for x in it]


_real_pools = {}


def serial_pool(on: bool = True):
    import panoptica._functionals as F
    import panoptica.instance_evaluator as IE

    for m in (F, IE):
        if m.__name__ not in _real_pools:
            _real_pools[m.__name__] = m.Pool
        m.Pool = SerialPool if on else _real_pools[m.__name__]


# ---------------------------------------------------------------- S-expressions
def sx(x) -> str:
    if isinstance(x, bool):
        return "1" if x else "0"
    if isinstance(x, int):
        return str(x)
    if hasattr(x, "__index__") and not isinstance(x, (list, tuple)):
        return str(int(x))
    return "(" + " ".join(sx(y) for y in x) + ")"


def parse_sx(s: str):
    toks = s.replace("(", " ( ").replace(")", " ) ").split()
    pos = 0

    def item():
        nonlocal pos
        t = toks[pos]
        pos += 1
        if t == "(":
            out = []
            while toks[pos] != ")":
                out.append(item())
            pos += 1
            return out
        return int(t)

    return item()


def coq_sx(x) -> str:
    if isinstance(x, bool):
        x = int(x)
    if isinstance(x, int) or (hasattr(x, "__index__") and not isinstance(x, (list, tuple))):
        x = int(x)
        return f"SZ ({x})" if x < 0 else f"SZ {x}"
    return "SL [" + "; ".join(coq_sx(y) for y in x) + "]"


# ---------------------------------------------------------------- floats
def fq(x) -> list:
    """exact rational of a finite double as [num, den]"""
    f = Fraction(float(x))
    return [f.numerator, f.denominator]


def fval(x) -> list:
    """panoptica value -> Sx.fval encoding"""
    if x is None:
        return [4]
    x = float(x)
    if math.isnan(x):
        return [3]
    if x == math.inf:
        return [1]
    if x == -math.inf:
        return [2]
    return [0, fq(x)]


def unq(s) -> Fraction:
    return Fraction(s[0], s[1])


def unfval(s):
    if s[0] == 0:
        return unq(s[1])
    return {1: "inf", 2: "-inf", 3: "nan", 4: None}[s[0]]


# ---------------------------------------------------------------- engine
def engine_run(op: int, inputs: list, nproc: int | None = None) -> list:
    """Run the extracted model on every input (already python-nested lists); returns parsed outputs."""
    if not inputs:
        return []
    nproc = min(nproc or NPROC, max(1, len(inputs) // 50 + 1))
    chunks = [inputs[i::nproc] for i in range(nproc)]
    procs = []
    for ch in chunks:
        data = "\n".join(f"{op} {sx(x)}" for x in ch) + "\n"
        p = subprocess.Popen([str(ENGINE)], stdin=subprocess.PIPE, stdout=subprocess.PIPE, text=True)
        procs.append((p, data))
    outs = []
    # feed sequentially but processes run concurrently once fed (inputs are small)
    import threading

    results = [None] * len(procs)

    def feed(i, p, data):
        results[i] = p.communicate(data)[0]

    ths = [threading.Thread(target=feed, args=(i, p, d)) for i, (p, d) in enumerate(procs)]
    [t.start() for t in ths]
    [t.join() for t in ths]
    for (p, _), ch, out in zip(procs, chunks, results):
        if p.returncode != 0:
            raise RuntimeError(f"engine failed rc={p.returncode}")
        lines = out.strip("\n").split("\n")
        if len(lines) != len(ch):
            raise RuntimeError(f"engine returned {len(lines)} lines for {len(ch)} cases")
        outs.append([parse_sx(l) for l in lines])
    merged = [None] * len(inputs)
    for i, o in enumerate(outs):
        merged[i::nproc] = o
    return merged


def coq_crosscheck(tag: str, triples: list, timeout: int = 300) -> tuple[int, list]:
    """Evaluate dispatch inside Coq (vm_compute) on (op, input, engine_output) triples and require
    equality with the extracted engine's answers.  Returns (#checked, list of mismatching indices)."""
    if not triples:
        return 0, []
    WORK.mkdir(exist_ok=True)
    d = WORK / f"cc_{tag}_{os.getpid()}"
    d.mkdir(exist_ok=True)
    f = d / "cases.v"
    body = ";\n  ".join(f"({op}, {coq_sx(i)}, {coq_sx(o)})" for op, i, o in triples)
    f.write_text(
        "From Coq Require Import ZArith List. Import ListNotations. Open Scope Z_scope.\n"
        "From Pan Require Import Base.Sx Run.Dispatch.\n"
        f"Definition cases : list (Z * sx * sx) := [\n  {body}].\n"
        "Fixpoint bad (i : Z) (l : list (Z * sx * sx)) : list Z :=\n"
        "  match l with [] => [] | (op, x, y) :: t =>\n"
        "    if sx_eqb (dispatch op x) y then bad (i + 1) t else i :: bad (i + 1) t end.\n"
        "Definition result := bad 0 cases.\n"
        "Eval vm_compute in result.\n"
    )
    r = subprocess.run(
        ["coqc", "-Q", str(COQ / "theories"), "Pan", str(f)],
        capture_output=True, text=True, timeout=timeout, cwd=d,
    )
    out = r.stdout.replace("\n", " ")
    import shutil

    if r.returncode != 0:
        raise RuntimeError("coq cross-check failed to compile: " + r.stderr[-2000:])
    shutil.rmtree(d, ignore_errors=True)
    # "= [] : list Z"  or "= [3; 17] : list Z"
    inner = out.split("=", 1)[1].split(":", 1)[0].strip()
    inner = inner.strip("[]").strip()
    bad = [int(t.replace("%Z", "")) for t in inner.split(";") if t.strip()]
    return len(triples), bad


# ---------------------------------------------------------------- evidence / context
class Ctx:
    def __init__(self, prop: str, tier: str, seed: int, search: bool = False):
        self.prop = prop
        self.tier = tier
        self.seed = seed
        self.search = search            # an obligation broke: larger, boundary-biased budget
        self.rng = random.Random(f"{prop}-{seed}")
        self.t0 = time.time()
        self.evaluations = 0
        self.hashes = set()
        self.samples = []
        self.violations = []            # (kind, replay dict)
        self.notes = {}
        self.dist = {}
        self.crosschecked = 0
        self.layers = []
        self.exhaustive = False
        self.known = []
        self.disagreements = []     # model != implementation although the oracles pass
        self.tie_status = {}
        self.broken = []

    def scale(self, quick: int, thorough: int) -> int:
        n = thorough if self.tier == "thorough" else quick
        return n * 5 if self.search else n

    def count(self, case, nontrivial: bool = True, sample_every: int = 0):
        self.evaluations += 1
        if nontrivial:
            h = hashlib.sha1(json.dumps(case, sort_keys=True, default=str).encode()).hexdigest()
            self.hashes.add(h)
        if len(self.samples) < 3:
            self.samples.append(case)

    def bump(self, key: str, n: int = 1):
        self.dist[key] = self.dist.get(key, 0) + n

    def violation(self, what: str, replay: dict):
        self.violations.append((what, replay))

    def disagree(self, unit: str, case):
        if len(self.disagreements) < 20:
            self.disagreements.append({"unit": unit, "case": jsonable(case)})


def jsonable(x):
    import numpy as np

    if isinstance(x, np.ndarray):
        d = {"dtype": str(x.dtype), "shape": list(x.shape), "data": x.tolist()}
        if x.ndim >= 2 and not x.flags.c_contiguous:
            d["order"] = "F" if x.flags.f_contiguous else "strided"      # memory layout (logical content is in "data")
        return d
    if isinstance(x, (np.integer,)):
        return int(x)
    if isinstance(x, (np.floating,)):
        return float(x)
    if isinstance(x, Fraction):
        return f"{x.numerator}/{x.denominator}"
    if isinstance(x, dict):
        return {str(k): jsonable(v) for k, v in x.items()}
    if isinstance(x, (list, tuple)):
        return [jsonable(v) for v in x]
    if isinstance(x, float) and (math.isnan(x) or math.isinf(x)):
        return repr(x)
    if isinstance(x, (int, float, str, bool)) or x is None:
        return x
    return repr(x)


def arr_from_json(d):
    import numpy as np

    a = np.array(d["data"], dtype=d["dtype"]).reshape(d["shape"])
    if d.get("order") == "F":
        a = np.asfortranarray(a)
    elif d.get("order") == "strided":
        big = np.zeros(tuple(2 * x for x in a.shape), a.dtype)
        view = big[tuple(slice(0, None, 2) for _ in a.shape)]
        view[...] = a
        a = view
    return a
