(* Generic driver for the extracted model: each input line is "<op> <sexp>", each output line the
   S-expression returned by Pan.dispatch.  S-expression syntax: decimal integers (optionally
   negative) and parenthesised, space-separated lists.  Integers are arbitrary precision (zarith)
   and are converted to / from Coq's binary Z. *)
module BZ = Z

let rec pos_of_bz (n : BZ.t) : Pan.positive =
  if BZ.equal n BZ.one then Pan.XH
  else if BZ.is_even n then Pan.XO (pos_of_bz (BZ.shift_right n 1))
  else Pan.XI (pos_of_bz (BZ.shift_right n 1))
let z_of_bz (n : BZ.t) : Pan.z =
  let s = BZ.sign n in
  if s = 0 then Pan.Z0 else if s > 0 then Pan.Zpos (pos_of_bz n) else Pan.Zneg (pos_of_bz (BZ.neg n))
let rec bz_of_pos (p : Pan.positive) : BZ.t =
  match p with
  | Pan.XH -> BZ.one
  | Pan.XO q -> BZ.shift_left (bz_of_pos q) 1
  | Pan.XI q -> BZ.succ (BZ.shift_left (bz_of_pos q) 1)
let bz_of_z (z : Pan.z) : BZ.t =
  match z with Pan.Z0 -> BZ.zero | Pan.Zpos p -> bz_of_pos p | Pan.Zneg p -> BZ.neg (bz_of_pos p)

exception Parse of string

let parse (s : string) (start : int) : Pan.sx * int =
  let n = String.length s in
  let rec skip i = if i < n && (s.[i] = ' ' || s.[i] = '\t') then skip (i + 1) else i in
  let rec item i =
    let i = skip i in
    if i >= n then raise (Parse "eof")
    else if s.[i] = '(' then begin
      let rec items i acc =
        let i = skip i in
        if i >= n then raise (Parse "unclosed")
        else if s.[i] = ')' then (Pan.SL (List.rev acc), i + 1)
        else let (x, j) = item i in items j (x :: acc)
      in items (i + 1) []
    end else begin
      let j = ref i in
      while !j < n && s.[!j] <> ' ' && s.[!j] <> ')' && s.[!j] <> '(' do incr j done;
      if !j = i then raise (Parse "empty atom");
      (Pan.SZ (z_of_bz (BZ.of_string (String.sub s i (!j - i)))), !j)
    end
  in item start

let rec print buf (x : Pan.sx) =
  match x with
  | Pan.SZ z -> Buffer.add_string buf (BZ.to_string (bz_of_z z))
  | Pan.SL l ->
      Buffer.add_char buf '(';
      List.iteri (fun i y -> if i > 0 then Buffer.add_char buf ' '; print buf y) l;
      Buffer.add_char buf ')'

let () =
  let buf = Buffer.create 65536 in
  (try
     while true do
       let line = input_line stdin in
       if String.length line > 0 then begin
         let (op, i) = parse line 0 in
         let (x, _) = parse line i in
         let opz = match op with Pan.SZ z -> z | _ -> raise (Parse "op") in
         Buffer.clear buf;
         print buf (Pan.dispatch opz x);
         print_string (Buffer.contents buf);
         print_newline ()
       end
     done
   with End_of_file -> ());
  flush stdout
